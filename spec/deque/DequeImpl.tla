----------------------------- MODULE DequeImpl -----------------------------
(* Implementation-shaped specification of the blocking side of pubsub.Deque   *)
(* (/repo/pubsub/deque.go) for property C07.                                  *)
(*                                                                            *)
(*   FrontW  run WaitFront  (waitPop dqNext, deque.go: waitPop / element.wait)*)
(*   BackW   run WaitBack   (waitPop dqPrev)                                  *)
(*   Pushers run WaitPushBack (waitPushAfter)                                 *)
(*   helpers: every element.wait / waitPushAfter call starts a goroutine      *)
(*            `<-ctx.Done(); lock; cond.Broadcast()` and cancels its context  *)
(*            on return, so a returning waiter re-broadcasts its cond         *)
(*   External: PushFront, PushBack, PopFront, PopBack, Close, Start, Cancel   *)
(*                                                                            *)
(* Three condition variables on one mutex: nfront (forward waiters), nback    *)
(* (reverse waiters), updates (blocked pushes).  Only the length of the list  *)
(* is kept: after the waitPop fix a consumer waits on the root while the      *)
(* deque is empty, so its predicate "root's neighbour changed" is len > 0.    *)
(* Every waiter Signals its own cond before each cond.Wait() (deque.go        *)
(* element.wait / waitPushAfter); with two waiters on one cond this is a      *)
(* busy ping-pong - not forbidden by a listed property, explored here only    *)
(* for safety (MC_pingpong.cfg), never for Settles.                           *)
(*                                                                            *)
(* Switches (TRUE = the code after the corresponding fix: commit):            *)
(*   PopFirst        waitPop pops before it waits              (63f3dbf)      *)
(*   SignalFixed     addAfter signals nfront/nback correctly   (1bb36cf)      *)
(*   CloseBroadcasts Close wakes all waiters                   (58b061a)      *)
(*   HelperLocked    helpers broadcast under the mutex         (8d14576)      *)
(***************************************************************************)
EXTENDS Integers, Sequences, FiniteSets, TLC

CONSTANTS FrontW, BackW, Pushers, Cap, Budget,
          PopFirst, SignalFixed, CloseBroadcasts, HelperLocked

Thr == FrontW \cup BackW \cup Pushers
Free == "free"
NF == "nfront"
NB == "nback"
UP == "updates"
Conds == {NF, NB, UP}

VARIABLES len, closed, mu, waitq, woken, pc, done, armed, due, cnd, ver, seen, budget, res

vars == <<len, closed, mu, waitq, woken, pc, done, armed, due, cnd, ver, seen, budget, res>>

Init == /\ len = 0 /\ closed = FALSE /\ mu = Free
        /\ waitq = [c \in Conds |-> <<>>] /\ woken = {}
        /\ pc = [t \in Thr |-> "idle"] /\ done = [t \in Thr |-> FALSE]
        /\ armed = [t \in Thr |-> FALSE]      \* the current wait call of t has a live helper
        /\ due = [c \in Conds |-> 0]           \* helper broadcasts that are due on c (their wait call returned)
        /\ cnd = [t \in Thr |-> UP]            \* the cond t's current wait call uses
        /\ ver = 0 /\ seen = [t \in Thr |-> 0] \* as-is waitPop only: "my neighbour changed" ~ list version
        /\ budget = Budget /\ res = [t \in Thr |-> "-"]

SeqToSet(s) == {s[i] : i \in 1..Len(s)}
Sig(w, c) == IF w[1][c] = <<>> THEN w ELSE <<[w[1] EXCEPT ![c] = Tail(@)], w[2] \cup {Head(w[1][c])}>>
Bc(w, c)  == <<[w[1] EXCEPT ![c] = <<>>], w[2] \cup SeqToSet(w[1][c])>>
W0 == <<waitq, woken>>
SetW(w) == waitq' = w[1] /\ woken' = w[2]

\* notifications of addAfter(end) given the length before the push
AfterPush(end, before) ==
  LET w1 == IF SignalFixed
              THEN (IF end = "b" \/ before = 0 THEN Sig(W0, NF) ELSE W0)
              ELSE (IF end = "f" \/ before = 0 THEN Sig(W0, NF) ELSE W0)
      w2 == IF SignalFixed
              THEN (IF end = "f" \/ before = 0 THEN Sig(w1, NB) ELSE w1)
              ELSE (IF end = "b" /\ before = 1 THEN Sig(w1, NB) ELSE w1)
  IN Sig(w2, UP)
\* notifications of pop(end) given the length before the pop (deferred: updates.Broadcast, nback, nfront)
AfterPop(end, before) ==
  LET w1 == Bc(W0, UP)
      w2 == IF end = "b" \/ before = 1 THEN Sig(w1, NB) ELSE w1
  IN IF end = "f" \/ before = 1 THEN Sig(w2, NF) ELSE w2

(* ------------------------------------------------------------ External *)
Start(t) == /\ pc[t] = "idle" /\ pc' = [pc EXCEPT ![t] = "enter"]
            /\ UNCHANGED <<len, closed, mu, waitq, woken, done, armed, due, cnd, ver, seen, budget, res>>
Cancel(t) == /\ ~done[t] /\ done' = [done EXCEPT ![t] = TRUE]
             /\ UNCHANGED <<len, closed, mu, waitq, woken, pc, armed, due, cnd, ver, seen, budget, res>>
Push(end) == /\ budget > 0 /\ mu = Free /\ budget' = budget - 1
             /\ IF closed THEN UNCHANGED <<len, waitq, woken, ver>>
                ELSE IF len >= Cap THEN SetW(Bc(W0, UP)) /\ UNCHANGED <<len, ver>>   \* tracker.add failed: updates.Broadcast()
                ELSE len' = len + 1 /\ ver' = ver + 1 /\ SetW(AfterPush(end, len))
             /\ UNCHANGED <<closed, mu, pc, done, armed, due, cnd, seen, res>>
Pop(end) == /\ budget > 0 /\ mu = Free /\ budget' = budget - 1
            /\ IF closed \/ len = 0 THEN UNCHANGED <<len, waitq, woken, ver>>
               ELSE len' = len - 1 /\ ver' = ver + 1 /\ SetW(AfterPop(end, len))
            /\ UNCHANGED <<closed, mu, pc, done, armed, due, cnd, seen, res>>
Close == /\ budget > 0 /\ mu = Free /\ budget' = budget - 1 /\ ~closed /\ closed' = TRUE
         /\ IF CloseBroadcasts THEN SetW(Bc(Bc(Bc(W0, NF), NB), UP)) ELSE UNCHANGED <<waitq, woken>>
         /\ UNCHANGED <<len, mu, pc, done, armed, due, cnd, ver, seen, res>>
External == Close \/ (\E e \in {"f", "b"} : Push(e) \/ Pop(e)) \/ \E t \in Thr : Start(t) \/ Cancel(t)

(* ------------------------------------------------------------ Internal *)
EndOf(t) == IF t \in FrontW THEN "f" ELSE "b"
Ret(t, r) == pc' = [pc EXCEPT ![t] = "ret"] /\ res' = [res EXCEPT ![t] = r]
\* leaving a wait call: defer cancel() makes its helper's broadcast due
LeaveWait(t) == /\ armed' = [armed EXCEPT ![t] = FALSE]
                /\ due' = IF armed[t] THEN [due EXCEPT ![cnd[t]] = @ + 1] ELSE due

\* consumers ------------------------------------------------------------
CEnter(t) == /\ pc[t] = "enter" /\ mu = Free /\ mu' = t
             /\ pc' = [pc EXCEPT ![t] = IF PopFirst THEN "try" ELSE "startwait"]
             /\ UNCHANGED <<len, closed, waitq, woken, done, armed, due, cnd, ver, seen, budget, res>>

\* dq.pop(end element): succeeds iff open and non-empty
CTry(t) == /\ pc[t] = "try" /\ mu = t
           /\ IF ~closed /\ len > 0
                THEN /\ len' = len - 1 /\ ver' = ver + 1 /\ SetW(AfterPop(EndOf(t), len))
                     /\ Ret(t, "item") /\ mu' = Free
                ELSE /\ pc' = [pc EXCEPT ![t] = IF PopFirst THEN "startwait" ELSE "try-failed"]
                     /\ UNCHANGED <<len, ver, waitq, woken, mu, res>>
           /\ UNCHANGED <<closed, done, armed, due, cnd, seen, budget>>
\* as-is only: pop failed after the wait -> wait again
CRetry(t) == /\ pc[t] = "try-failed" /\ pc' = [pc EXCEPT ![t] = "startwait"]
             /\ UNCHANGED <<len, closed, mu, waitq, woken, done, armed, due, cnd, ver, seen, budget, res>>

\* element.wait entry: choose the cond, start the helper, capture the neighbour
CStartWait(t) == /\ pc[t] = "startwait" /\ mu = t
                 /\ cnd' = [cnd EXCEPT ![t] = IF len = 0 \/ (~PopFirst /\ len = 1)
                                                THEN (IF t \in FrontW THEN NF ELSE NB) ELSE UP]
                 /\ armed' = [armed EXCEPT ![t] = TRUE]
                 /\ seen' = [seen EXCEPT ![t] = IF PopFirst THEN (IF len = 0 THEN -1 ELSE 0) ELSE ver]
                 /\ pc' = [pc EXCEPT ![t] = "loop"]
                 /\ UNCHANGED <<len, closed, mu, waitq, woken, done, due, ver, budget, res>>

\* the captured neighbour of the root changed.  With PopFirst the wait starts when pop failed: on an empty
\* deque (seen = -1: changed iff an item is there now) or on a closed non-empty one (the first loop
\* iteration returns ErrQueueClosed, "changed" is irrelevant).  As-is: any list mutation since the capture.
Changed(t) == IF PopFirst THEN seen[t] = -1 /\ len > 0 ELSE ver # seen[t]

\* for next == it.next { closed -> err; cond.Signal(); select ctx.Done -> err; default -> cond.Wait() }
CLoop(t) == /\ pc[t] = "loop" /\ mu = t
            /\ IF Changed(t)
                 THEN /\ LeaveWait(t) /\ pc' = [pc EXCEPT ![t] = "try"] /\ UNCHANGED <<mu, res, waitq, woken>>
                 ELSE IF closed THEN LeaveWait(t) /\ Ret(t, "closed") /\ mu' = Free /\ UNCHANGED <<waitq, woken>>
                 ELSE IF done[t] THEN LeaveWait(t) /\ Ret(t, "ctx") /\ mu' = Free /\ SetW(Sig(W0, cnd[t]))
                 ELSE /\ SetW(Sig(W0, cnd[t])) /\ pc' = [pc EXCEPT ![t] = "prepark"]
                      /\ UNCHANGED <<mu, res, armed, due>>
            /\ UNCHANGED <<len, closed, done, cnd, ver, seen, budget>>

\* pushers ----------------------------------------------------------------
PEnter(t) == /\ pc[t] = "enter" /\ mu = Free
             /\ IF Cap > len
                  THEN IF closed THEN Ret(t, "closed") /\ UNCHANGED <<len, ver, mu, waitq, woken, armed, cnd>>
                       ELSE /\ len' = len + 1 /\ ver' = ver + 1
                            /\ SetW(IF len = 0 THEN Sig(AfterPush("b", len), UP) ELSE AfterPush("b", len))
                            /\ Ret(t, "ok") /\ UNCHANGED <<mu, armed, cnd>>
                  ELSE /\ mu' = t /\ armed' = [armed EXCEPT ![t] = TRUE] /\ cnd' = [cnd EXCEPT ![t] = UP]
                       /\ pc' = [pc EXCEPT ![t] = "loop"] /\ UNCHANGED <<len, ver, waitq, woken, res>>
             /\ UNCHANGED <<closed, done, due, seen, budget>>

PLoop(t) == /\ pc[t] = "loop" /\ mu = t
            /\ IF Cap <= len
                 THEN /\ UNCHANGED <<len, ver>>
                      /\ IF closed THEN LeaveWait(t) /\ Ret(t, "closed") /\ mu' = Free /\ UNCHANGED <<waitq, woken>>
                         ELSE IF done[t] THEN LeaveWait(t) /\ Ret(t, "ctx") /\ mu' = Free /\ SetW(Sig(W0, UP))
                         ELSE /\ SetW(Sig(W0, UP)) /\ pc' = [pc EXCEPT ![t] = "prepark"]
                              /\ UNCHANGED <<mu, res, armed, due>>
                 ELSE /\ LeaveWait(t) /\ mu' = Free
                      /\ IF closed THEN Ret(t, "closed") /\ UNCHANGED <<len, ver, waitq, woken>>
                         ELSE len' = len + 1 /\ ver' = ver + 1 /\ SetW(AfterPush("b", len)) /\ Ret(t, "ok")
            /\ UNCHANGED <<closed, done, cnd, seen, budget>>

\* common -------------------------------------------------------------------
Park(t) == /\ pc[t] = "prepark" /\ mu = t
           /\ waitq' = [waitq EXCEPT ![cnd[t]] = Append(@, t)] /\ mu' = Free
           /\ pc' = [pc EXCEPT ![t] = "parked"]
           /\ UNCHANGED <<len, closed, woken, done, armed, due, cnd, ver, seen, budget, res>>
Wake(t) == /\ pc[t] = "parked" /\ t \in woken /\ mu = Free
           /\ woken' = woken \ {t} /\ mu' = t /\ pc' = [pc EXCEPT ![t] = "loop"]
           /\ UNCHANGED <<len, closed, waitq, done, armed, due, cnd, ver, seen, budget, res>>
\* helper of the current wait call fires on cancellation of the caller's context
HelperCancel(t) == /\ armed[t] /\ done[t] /\ (HelperLocked => mu = Free)
                   /\ armed' = [armed EXCEPT ![t] = FALSE] /\ SetW(Bc(W0, cnd[t]))
                   /\ UNCHANGED <<len, closed, mu, pc, done, due, cnd, ver, seen, budget, res>>
\* helper of a finished wait call (defer cancel()) broadcasts
HelperDue(c) == /\ due[c] > 0 /\ (HelperLocked => mu = Free)
                /\ due' = [due EXCEPT ![c] = @ - 1] /\ SetW(Bc(W0, c))
                /\ UNCHANGED <<len, closed, mu, pc, done, armed, cnd, ver, seen, budget, res>>

Internal == \/ \E t \in FrontW \cup BackW : CEnter(t) \/ CTry(t) \/ CRetry(t) \/ CStartWait(t) \/ CLoop(t)
            \/ \E t \in Pushers : PEnter(t) \/ PLoop(t)
            \/ \E t \in Thr : Park(t) \/ Wake(t) \/ HelperCancel(t)
            \/ \E c \in Conds : HelperDue(c)
Next == Internal \/ External
Spec == Init /\ [][Next]_vars /\ WF_vars(Internal)

(* ------------------------------------------------------------ Properties *)
TypeOK == len \in 0..Cap /\ mu \in Thr \cup {Free} /\ woken \subseteq Thr
Quiescent == ~ENABLED Internal
InCall(t) == pc[t] \notin {"idle", "ret"}
EnabledAbs(t) == IF t \in Pushers THEN Cap > len \/ closed \/ done[t]
                 ELSE len > 0 \/ closed \/ done[t]
NoStuck == Quiescent => \A t \in Thr : InCall(t) => ~EnabledAbs(t)
NoLeak == Quiescent => mu = Free /\ (\A c \in Conds : due[c] = 0) /\ \A t \in Thr : pc[t] = "ret" => ~armed[t]
ResultsOK == \A t \in Thr : (res[t] = "ctx" => done[t]) /\ (res[t] = "closed" => closed)
Settles == <>[]Quiescent
=============================================================================
