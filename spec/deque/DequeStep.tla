----------------------------- MODULE DequeStep -----------------------------
(* Quiescence-stepped driver schedules for pubsub.Deque (C07, C06); same      *)
(* construction as QueueStep.  MaxPerCond bounds the number of concurrently   *)
(* blocked operations per condition variable class (front waiters, back       *)
(* waiters, blocked pushes): with two waiters on one cond the pinned Deque    *)
(* busy-loops (each waiter signals the other before waiting), which no        *)
(* listed property forbids but which never reaches a quiescent point - the    *)
(* harness cannot observe such runs, so the schedules avoid them.             *)
(***************************************************************************)
EXTENDS DequeCore, FiniteSets, Json

CONSTANTS Configs, Depth, MaxPerCond, MaxBurst

CfgStep == {NoLimit, Hard(1), Hard(2), Quota(2, 1, 0)}

VARIABLES q, blocked, cancelled, held, hist, blen
vars == <<q, blocked, cancelled, held, hist, blen>>
view == <<Len(q.items), q.closed, q.tr, {<<p.op, p.id \in cancelled>> : p \in blocked}, Cardinality(blocked), held # 0, blen>>

Init == \E tr \in {c \in Configs : c.kind # "quota" \/ c.soft <= c.hard} :
          /\ q = QNew(tr) /\ blocked = {} /\ cancelled = {} /\ held = 0 /\ blen = 0
          /\ hist = <<[op |-> "new", arg |-> tr.kind, target |-> 0, window |-> FALSE, burst |-> FALSE,
                       hard |-> tr.hard, soft |-> tr.soft, credit |-> tr.credit \div Scale]>>

Id == Len(hist) + 1
Val == "v" \o ToString(Id)
Sched(op, arg, target, window, burst) ==
  hist' = Append(hist, [op |-> op, arg |-> arg, target |-> target, window |-> window, burst |-> burst,
                        hard |-> 0, soft |-> 0, credit |-> 0])

IsCancelled(p) == p.id \in cancelled
En(p) == Enabled(q, p.op, p.arg, IsCancelled(p))
Settled == \A p \in blocked : ~En(p)

Class(op) == CASE op \in {"wfront", "drecv"} -> "front"
               [] op = "wback" -> "back"
               [] OTHER -> "push"

\* A BURST step (b = TRUE) is issued by the driver right after the previous step, WITHOUT waiting for
\* quiescence: blocked operations that the previous steps enabled may or may not have run in between
\* (Resolve is independent), so "two Adds before any waiter runs", "Add then Cancel before the woken
\* waiter re-acquires the lock", "Remove then Close before the parked producer runs" are all schedules.
\* The harness runs the steps of a burst synchronously from one goroutine (with GOMAXPROCS=1 the whole
\* burst is atomic with respect to the parked goroutines; with more procs the other orders are sampled).
CanBurst == blen < MaxBurst /\ Len(hist) > 1 /\ held = 0
NB(op, b) == /\ (b \/ Settled) /\ (b => CanBurst) /\ held = 0
          /\ LET arg == IF op \in PushOps THEN Val ELSE "" IN
             /\ \E o \in Apply(q, op, arg, FALSE) : q' = o.q
             /\ Sched(op, arg, 0, FALSE, b)
          /\ blen' = (IF b THEN blen + 1 ELSE 0)
          /\ UNCHANGED <<blocked, cancelled, held>>

StartB(op, window) ==
  /\ Settled /\ held = 0
  /\ Cardinality({p \in blocked : Class(p.op) = Class(op)}) < MaxPerCond
  /\ LET arg == IF op \in PushOps THEN Val ELSE "" IN
     /\ window => ~Enabled(q, op, arg, FALSE)
     /\ blocked' = blocked \cup {[id |-> Id, op |-> op, arg |-> arg]}
     /\ Sched(op, arg, 0, window, FALSE)
  /\ held' = (IF window THEN Id ELSE 0) /\ blen' = 0
  /\ UNCHANGED <<q, cancelled>>

Cancel(p, b) == /\ (b \/ Settled) /\ (b => CanBurst) /\ p \in blocked /\ ~IsCancelled(p)
                /\ held # 0 => p.id = held
                /\ cancelled' = cancelled \cup {p.id} /\ held' = 0
                /\ Sched("cancel", "", p.id, FALSE, b)
                /\ blen' = (IF b THEN blen + 1 ELSE 0)
                /\ UNCHANGED <<q, blocked>>

Resolve(p) == /\ p \in blocked /\ En(p) /\ held = 0
              /\ \E o \in Apply(q, p.op, p.arg, IsCancelled(p)) : q' = o.q
              /\ blocked' = blocked \ {p}
              /\ UNCHANGED <<cancelled, held, hist, blen>>

Driver == \/ \E op \in {"pushf", "pushb", "popf", "popb", "fpushf", "fpushb", "nbsend", "len", "dlen", "close"} , b \in BOOLEAN : NB(op, b)
          \/ \E op \in BlockingOps, w \in BOOLEAN : StartB(op, w)
          \/ \E p \in blocked, b \in BOOLEAN : Cancel(p, b)

Next == \/ Len(hist) < Depth /\ Driver
        \/ \E p \in blocked : Resolve(p)
Spec == Init /\ [][Next]_vars

Inv == QOK(q) /\ (held # 0 => \E p \in blocked : p.id = held)

EmitAll == Len(hist) < Depth \/ PrintT(<<"BEH", ToJson(hist)>>)
EmitEdge == hist' = hist \/ PrintT(<<"BEH", ToJson(hist')>>)
=============================================================================
