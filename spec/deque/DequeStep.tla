----------------------------- MODULE DequeStep -----------------------------
(* Quiescence-stepped driver schedules for pubsub.Deque (C07, C06); same      *)
(* construction as QueueStep.  MaxPerCond bounds the number of concurrently   *)
(* blocked operations per condition variable class (front waiters, back       *)
(* waiters, blocked pushes): with two waiters on one cond the pinned Deque    *)
(* busy-loops (each waiter signals the other before waiting), which no        *)
(* listed property forbids but which never reaches a quiescent point - the    *)
(* harness cannot observe such runs, so the schedules avoid them.             *)
(***************************************************************************)
EXTENDS DequeCore, FiniteSets, Json

CONSTANTS Configs, Depth, MaxPerCond

CfgStep == {NoLimit, Hard(1), Hard(2), Quota(2, 1, 0)}

VARIABLES q, blocked, cancelled, held, hist
vars == <<q, blocked, cancelled, held, hist>>
view == <<Len(q.items), q.closed, q.tr, {<<p.op, p.id \in cancelled>> : p \in blocked}, Cardinality(blocked), held # 0>>

Init == \E tr \in {c \in Configs : c.kind # "quota" \/ c.soft <= c.hard} :
          /\ q = QNew(tr) /\ blocked = {} /\ cancelled = {} /\ held = 0
          /\ hist = <<[op |-> "new", arg |-> tr.kind, target |-> 0, window |-> FALSE,
                       hard |-> tr.hard, soft |-> tr.soft, credit |-> tr.credit \div Scale]>>

Id == Len(hist) + 1
Val == "v" \o ToString(Id)
Sched(op, arg, target, window) ==
  hist' = Append(hist, [op |-> op, arg |-> arg, target |-> target, window |-> window,
                        hard |-> 0, soft |-> 0, credit |-> 0])

IsCancelled(p) == p.id \in cancelled
En(p) == Enabled(q, p.op, p.arg, IsCancelled(p))
Settled == \A p \in blocked : ~En(p)

Class(op) == CASE op \in {"wfront", "drecv"} -> "front"
               [] op = "wback" -> "back"
               [] OTHER -> "push"

NB(op) == /\ Settled /\ held = 0
          /\ LET arg == IF op \in PushOps THEN Val ELSE "" IN
             /\ \E o \in Apply(q, op, arg, FALSE) : q' = o.q
             /\ Sched(op, arg, 0, FALSE)
          /\ UNCHANGED <<blocked, cancelled, held>>

StartB(op, window) ==
  /\ Settled /\ held = 0
  /\ Cardinality({p \in blocked : Class(p.op) = Class(op)}) < MaxPerCond
  /\ LET arg == IF op \in PushOps THEN Val ELSE "" IN
     /\ window => ~Enabled(q, op, arg, FALSE)
     /\ blocked' = blocked \cup {[id |-> Id, op |-> op, arg |-> arg]}
     /\ Sched(op, arg, 0, window)
  /\ held' = IF window THEN Id ELSE 0
  /\ UNCHANGED <<q, cancelled>>

Cancel(p) == /\ Settled /\ p \in blocked /\ ~IsCancelled(p)
             /\ held # 0 => p.id = held
             /\ cancelled' = cancelled \cup {p.id} /\ held' = 0
             /\ Sched("cancel", "", p.id, FALSE)
             /\ UNCHANGED <<q, blocked>>

Resolve(p) == /\ p \in blocked /\ En(p) /\ held = 0
              /\ \E o \in Apply(q, p.op, p.arg, IsCancelled(p)) : q' = o.q
              /\ blocked' = blocked \ {p}
              /\ UNCHANGED <<cancelled, held, hist>>

Driver == \/ \E op \in {"pushf", "pushb", "popf", "popb", "fpushf", "fpushb", "nbsend", "len", "dlen", "close"} : NB(op)
          \/ \E op \in BlockingOps, w \in BOOLEAN : StartB(op, w)
          \/ \E p \in blocked : Cancel(p)

Next == \/ Len(hist) < Depth /\ Driver
        \/ \E p \in blocked : Resolve(p)
Spec == Init /\ [][Next]_vars

Inv == QOK(q) /\ (held # 0 => \E p \in blocked : p.id = held)

EmitAll == Len(hist) < Depth \/ PrintT(<<"BEH", ToJson(hist)>>)
EmitEdge == hist' = hist \/ PrintT(<<"BEH", ToJson(hist')>>)
=============================================================================
