----------------------------- MODULE DequeSeq ------------------------------
(* Sequential behaviours of pubsub.Deque for model->code replay (C06 a):      *)
(* every operation is issued when it cannot block, so its result is           *)
(* determined by DequeCore.  hist[1] is the constructor; each later record    *)
(* carries op, arg, expected result, expected Len and expected contents       *)
(* (front first).                                                             *)
(***************************************************************************)
EXTENDS DequeCore, Json

CONSTANTS Configs, Depth

CfgAll == {NoLimit} \cup {Hard(c) : c \in 1..3} \cup {Quota(h, s, c) : h \in 1..3, s \in 0..3, c \in {0, 1}}
CfgSmall == {NoLimit, Hard(1), Hard(2), Quota(2, 1, 0)}

VARIABLES q, hist, nadd
vars == <<q, hist, nadd>>
view == <<Len(q.items), q.closed, q.tr>>

Init == \E tr \in {c \in Configs : c.kind # "quota" \/ c.soft <= c.hard} :
          /\ q = QNew(tr)
          /\ hist = <<[op |-> "new", arg |-> "", res |-> tr.kind, amb |-> FALSE, len |-> 0,
                       items |-> <<>>, hard |-> tr.hard, soft |-> tr.soft, credit |-> tr.credit \div Scale, closed |-> FALSE]>>
          /\ nadd = 0

Rec(op, arg, o) == hist' = Append(hist, [op |-> op, arg |-> arg, res |-> o.res, amb |-> o.amb,
                                         len |-> Len(o.q.items), items |-> o.q.items,
                                         hard |-> 0, soft |-> 0, credit |-> 0, closed |-> o.q.closed])

Do(op, arg, cancelled) == \E o \in Apply(q, op, arg, cancelled) :
                             q' = o.q /\ Rec(IF cancelled THEN op \o "-cancelled" ELSE op, arg, o)

Val == "v" \o ToString(nadd + 1)
IsQuota == q.tr.kind = "quota"

Step == \/ \E op \in {"pushf", "pushb"} : Do(op, Val, FALSE) /\ nadd' = nadd + 1
        \/ \E op \in {"fpushf", "fpushb", "nbsend"} : ~IsQuota /\ Do(op, Val, FALSE) /\ nadd' = nadd + 1
        \/ \E op \in {"popf", "popb", "len", "dlen", "close"} : Do(op, "", FALSE) /\ UNCHANGED nadd
        \* blocking calls made when they cannot block ...
        \/ \E op \in {"wfront", "wback", "drecv"} : Enabled(q, op, "", FALSE) /\ Do(op, "", FALSE) /\ UNCHANGED nadd
        \/ \E op \in {"wpushf", "wpushb", "dsend"} : Enabled(q, op, Val, FALSE) /\ Do(op, Val, FALSE) /\ nadd' = nadd + 1
        \* ... or with an already-cancelled context while their condition does not hold: no effect
        \/ \E op \in {"wfront", "wback", "drecv"} : ~Enabled(q, op, "", FALSE) /\ Do(op, "", TRUE) /\ UNCHANGED nadd
        \/ \E op \in {"wpushf", "wpushb", "dsend"} : ~Enabled(q, op, Val, FALSE) /\ Do(op, Val, TRUE) /\ nadd' = nadd + 1

Next == Len(hist) <= Depth /\ Step
Spec == Init /\ [][Next]_vars

Inv == QOK(q)

EmitAll == Len(hist) <= Depth \/ PrintT(<<"BEH", ToJson(hist)>>)
EmitEdge == PrintT(<<"BEH", ToJson(hist')>>)
=============================================================================
