-------------------------- MODULE WaitGroupStep --------------------------
(* Abstract, quiescence-stepped specification of fun.WaitGroup: the meaning   *)
(* of the API as property C14 states it, observed only at quiescent points.   *)
(* Every action is one driver step of the conformance harness followed by     *)
(* "run to quiescence"; `hist` records the step together with the             *)
(* observations the real code must then show (which Wait calls are still      *)
(* blocked, Num(), whether the Add panicked).  TLC enumerates / simulates     *)
(* behaviours of this spec and prints them as JSON; harness/cmd/vh-waitgroup  *)
(* replays each against the real WaitGroup.                                   *)
(*                                                                            *)
(* The refinement link to the implementation-shaped spec (WaitGroup.tla) is   *)
(* its invariants NoStuck + NoEarlyReturn + CounterIsSum: at every quiescent  *)
(* state of the Impl spec the set of blocked waiters is exactly `blocked`     *)
(* below.                                                                     *)
(***************************************************************************)
EXTENDS Integers, Sequences, FiniteSets, TLC, Json

CONSTANTS Waiters,     \* Wait call identities, each with its own context
          Ops,         \* identities of launched (gated) operations
          MaxCounter,
          Depth        \* number of driver steps per behaviour

VARIABLES counter, blocked, done, started, running, launched, hist, over

vars == <<counter, blocked, done, started, running, launched, hist, over>>
view == <<counter, blocked, done, started, running, launched, over>>

Init == /\ counter = 0 /\ blocked = {} /\ done = {} /\ started = {}
        /\ running = {} /\ launched = {} /\ hist = <<>> /\ over = FALSE

Obs == [blocked |-> blocked', num |-> counter']
Rec(op, arg, panic) == /\ hist' = Append(hist, [op |-> op, arg |-> arg, panic |-> panic,
                                                blocked |-> blocked', num |-> counter', manual |-> 0])
                       /\ over' = FALSE

Release(c, b) == IF c = 0 THEN {} ELSE b

\* the part of the counter the client added by hand; the rest belongs to launched operations,
\* whose post-hook will call Done.  A client that takes more than it added makes a later Done
\* panic inside a library goroutine - client misuse, outside the property - so the driver
\* never does that (it does drive Add below zero directly, which must panic and change nothing).
Manual == counter - Cardinality(running)

\* go wg.Wait(ctx_w)
StartWait(w) == /\ w \notin started
                /\ started' = started \cup {w}
                /\ blocked' = IF counter = 0 \/ w \in done THEN blocked ELSE blocked \cup {w}
                /\ UNCHANGED <<counter, done, running, launched>>
                /\ Rec("wait", w, FALSE)

\* wg.Add(n); a step that would make the counter negative panics and changes nothing
Add(n) == /\ IF counter + n < 0
               THEN /\ UNCHANGED <<counter, blocked>> /\ Rec("add", n, TRUE)
               ELSE /\ counter + n <= MaxCounter /\ Manual + n >= 0
                    /\ counter' = counter + n
                    /\ blocked' = Release(counter + n, blocked)
                    /\ Rec("add", n, FALSE)
          /\ UNCHANGED <<done, started, running, launched>>

\* cancel the context of Wait call w (possibly before the call is made)
Cancel(w) == /\ w \notin done
             /\ done' = done \cup {w}
             /\ blocked' = blocked \ {w}
             /\ UNCHANGED <<counter, started, running, launched>>
             /\ Rec("cancel", w, FALSE)

\* wg.Launch(ctx, op_j) / Operation.Add(ctx, wg): Inc, then op_j runs in a goroutine and is
\* held in its gate; Wait must cover it
Launch(j) == /\ j \notin launched /\ counter + 1 <= MaxCounter
             /\ launched' = launched \cup {j} /\ running' = running \cup {j}
             /\ counter' = counter + 1
             /\ UNCHANGED <<blocked, done, started>>
             /\ Rec("launch", j, FALSE)

\* the gated operation returns: its post-hook calls Done
Finish(j) == /\ j \in running
             /\ running' = running \ {j}
             /\ counter' = counter - 1
             /\ blocked' = Release(counter - 1, blocked)
             /\ UNCHANGED <<done, started, launched>>
             /\ Rec("finish", j, FALSE)

\* wg.DoTimes(ctx, 2, op) / Operation.StartGroup: two launches in one call
DoTimes2 == /\ launched = {} /\ Cardinality(Ops) >= 2 /\ counter + 2 <= MaxCounter
            /\ LET js == CHOOSE s \in SUBSET Ops : Cardinality(s) = 2 IN
                 /\ launched' = js /\ running' = js
            /\ counter' = counter + 2
            /\ UNCHANGED <<blocked, done, started>>
            /\ Rec("dotimes", 2, FALSE)

\* wg.DoTimes(ctx, n, op) / Operation.StartGroup(ctx, wg, n) with n <= 0 (a computed size, e.g. a resize
\* delta): no goroutine is started, so - "account for exactly the goroutines they start" - the counter and
\* every parked Wait stay as they are, and nothing panics.
DoTimesNone(n) == /\ n <= 0
                  /\ UNCHANGED <<counter, blocked, done, started, running, launched>>
                  /\ Rec("dotimes", n, FALSE)

\* the window between the predicate check and cond.Wait() (yield point
\* fun.WaitGroup.Wait.before-cond-wait): Wait call w is held there with the mutex,
\* its context is cancelled, the helper runs, then w is released.  It must return.
WindowCancel(w) == /\ w \notin started /\ w \notin done /\ counter > 0
                   /\ started' = started \cup {w} /\ done' = done \cup {w}
                   /\ UNCHANGED <<counter, blocked, running, launched>>
                   /\ Rec("window-cancel", w, FALSE)

\* same window, but a Done (Add(-1)) is issued while w is held: it queues on the mutex
\* and runs after w parked.
WindowDone(w) == /\ w \notin started /\ w \notin done /\ Manual > 0
                 /\ started' = started \cup {w}
                 /\ counter' = counter - 1
                 /\ blocked' = Release(counter - 1, blocked \cup {w})
                 /\ UNCHANGED <<done, running, launched>>
                 /\ Rec("window-done", w, FALSE)

\* Launch / DoTimes / StartGroup with a worker context that is ALREADY cancelled.  C14 only says that they
\* "account for exactly the goroutines they start": an implementation may start the operations regardless
\* (the pinned one does) or skip them, but the counter must grow by exactly the number started.  The spec
\* therefore fixes no outcome; the record carries the counter before the call (num) and its client-added
\* part (manual), the harness counts the operations that really arrived in their gate (k) and demands
\* Num() = num + k, and - after releasing them at the end of the behaviour - Num() = manual.  Because the
\* outcome is not fixed, this is always the last driver step of a behaviour (over).
DeadLaunch(n) == /\ counter + n <= MaxCounter /\ launched = {}
                 /\ hist' = Append(hist, [op |-> "launch-dead", arg |-> n, panic |-> FALSE,
                                          blocked |-> blocked, num |-> counter, manual |-> Manual])
                 /\ over' = TRUE
                 /\ UNCHANGED <<counter, blocked, done, started, running, launched>>

Step == \/ \E n \in {1, 2} : DeadLaunch(n)
        \/ \E w \in Waiters : StartWait(w) \/ Cancel(w) \/ WindowCancel(w) \/ WindowDone(w)
        \/ \E n \in {-2, -1, 1, 2} : Add(n)
        \/ \E j \in Ops : Launch(j) \/ Finish(j)
        \/ DoTimes2
        \/ \E n \in {-1, 0} : DoTimesNone(n)

Next == Len(hist) < Depth /\ ~over /\ Step
Spec == Init /\ [][Next]_vars

\* sanity of the abstract spec itself
Inv == /\ counter \in 0..MaxCounter
       /\ blocked \subseteq (started \ done)
       /\ (counter = 0 => blocked = {})
       /\ Cardinality(running) <= counter

\* behaviour emission (DESIGN.md 2.3): all behaviours of length Depth ...
EmitAll == Len(hist) < Depth \/ PrintT(<<"BEH", ToJson(hist)>>)
\* ... or one shortest behaviour per edge of the abstract state graph (VIEW hides hist)
EmitEdge == PrintT(<<"BEH", ToJson(hist')>>)
=============================================================================
