SPECIFICATION Spec
CONSTANTS
  Waiters = {"w1", "w2", "w3", "w4"}
  Ops = {"j1", "j2", "j3"}
  MaxCounter = 4
  Depth = 14
INVARIANT Inv
CONSTRAINT EmitAll
CHECK_DEADLOCK FALSE
