SPECIFICATION Spec
CONSTANTS
  Waiters = {w1, w2}
  MaxCounter = 2
  Budget = 3
  HelperLocked = TRUE
INVARIANTS TypeOK NoEarlyReturn CounterIsSum NoStuck NoLeak ParkedAccounted
PROPERTIES Settles
CHECK_DEADLOCK FALSE
