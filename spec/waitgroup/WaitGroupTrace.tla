-------------------------- MODULE WaitGroupTrace --------------------------
(* Code -> model: validates histories recorded from the real fun.WaitGroup     *)
(* (harness: vh-waitgroup record) against the abstract meaning of the API.     *)
(* An operation is pending between its `call` and `ret` events; the silent     *)
(* step Lin(p) applies it atomically and fixes its result; `ret` must find     *)
(* the operation linearised with exactly the logged result.  A Wait can only   *)
(* be linearised when the abstract counter is 0 or its context was cancelled   *)
(* (NoEarlyReturn); at a `quiescent` event every still-blocked Wait must be    *)
(* disabled in the abstract state (NoStuck) and Num() must equal the counter.  *)
(* Many histories are concatenated with `reset` events.                        *)
(***************************************************************************)
EXTENDS Integers, Sequences, FiniteSets, TLC, Json

Trace == ndJsonDeserialize("trace.ndjson")

VARIABLES l, counter, pend, cancelled
vars == <<l, counter, pend, cancelled>>

Ev == Trace[l]
More == l <= Len(Trace)

Init == l = 1 /\ counter = 0 /\ pend = {} /\ cancelled = {}

Reset == /\ More /\ Ev.ev = "reset"
         /\ counter' = 0 /\ pend' = {} /\ cancelled' = {} /\ l' = l + 1

Call == /\ More /\ Ev.ev = "call"
        /\ pend' = pend \cup {[id |-> Ev.id, op |-> Ev.op, arg |-> Ev.arg, lin |-> FALSE, res |-> "-"]}
        /\ l' = l + 1 /\ UNCHANGED <<counter, cancelled>>

Done(p, r) == pend' = (pend \ {p}) \cup {[p EXCEPT !.lin = TRUE, !.res = r]}

Lin == \E p \in pend :
         /\ ~p.lin
         /\ \/ /\ p.op = "add" /\ counter + p.arg < 0
               /\ Done(p, "panic") /\ UNCHANGED counter
            \/ /\ p.op = "add" /\ counter + p.arg >= 0
               /\ counter' = counter + p.arg /\ Done(p, "ok")
            \/ /\ p.op = "num" /\ Done(p, ToString(counter)) /\ UNCHANGED counter
            \/ /\ p.op = "wait" /\ (counter = 0 \/ p.id \in cancelled)
               /\ Done(p, "ret") /\ UNCHANGED counter
         /\ UNCHANGED <<l, cancelled>>

Ret == /\ More /\ Ev.ev = "ret"
       /\ \E p \in pend : p.id = Ev.id /\ p.lin /\ p.res = Ev.res /\ pend' = pend \ {p}
       /\ l' = l + 1 /\ UNCHANGED <<counter, cancelled>>

Cancel == /\ More /\ Ev.ev = "cancel"
          /\ cancelled' = cancelled \cup {Ev.id}
          /\ l' = l + 1 /\ UNCHANGED <<counter, pend>>

\* nothing is running: whoever is still pending is a Wait that the abstract state keeps blocked
Quiet == /\ More /\ Ev.ev = "quiescent"
         /\ \A p \in pend : /\ p.op = "wait" /\ ~p.lin
                            /\ counter > 0 /\ p.id \notin cancelled
         /\ {p.id : p \in pend} = {Ev.blocked[i] : i \in 1..Len(Ev.blocked)}
         /\ Ev.num = counter
         /\ l' = l + 1 /\ UNCHANGED <<counter, pend, cancelled>>

Next == Reset \/ Call \/ Lin \/ Ret \/ Cancel \/ Quiet
Spec == Init /\ [][Next]_vars

\* acceptance: the highest trace position explained (needs -workers 1)
HighWater == TLCSet(1, IF TLCGet(1) < l THEN l ELSE TLCGet(1))
Accepted == \/ TLCGet(1) = Len(Trace) + 1
            \/ PrintT(<<"REJECTED", ToJson([at |-> TLCGet(1), event |-> Trace[TLCGet(1)]])>>) /\ FALSE
ASSUME TLCSet(1, 0)
=============================================================================
