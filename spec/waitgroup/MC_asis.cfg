SPECIFICATION Spec
CONSTANTS
  Waiters = {w1, w2}
  MaxCounter = 2
  Budget = 3
  HelperLocked = FALSE
INVARIANTS TypeOK NoEarlyReturn CounterIsSum NoStuck NoLeak ParkedAccounted
CHECK_DEADLOCK FALSE
