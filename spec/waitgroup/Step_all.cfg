SPECIFICATION Spec
CONSTANTS
  Waiters = {"w1", "w2"}
  Ops = {"j1", "j2"}
  MaxCounter = 2
  Depth = 4
INVARIANT Inv
CONSTRAINT EmitAll
CHECK_DEADLOCK FALSE
