---------------------------- MODULE WaitGroup ----------------------------
(* Implementation-shaped specification of fun.WaitGroup (/repo/sync.go).      *)
(*                                                                          *)
(* One action per critical section of the Go code:                          *)
(*   Add(n)    sync.go:43-55   lock; invariant check; counter += n;          *)
(*                             Broadcast when the counter reaches 0; unlock  *)
(*   Wait(ctx) sync.go:118-150 lock; fast path; derive a cancellable ctx;    *)
(*                             start the helper goroutine; loop:             *)
(*                               select ctx.Done -> return | default ->      *)
(*                               cond.Wait(); counter = 0 -> return          *)
(*   helper    sync.go:134     <-ctx.Done(); cond.Broadcast()                *)
(*                                                                          *)
(* sync.Cond is modelled as data (DESIGN.md 3.1): cond.Wait() appends the    *)
(* caller to the notify list and releases the mutex in one step (the Go      *)
(* runtime adds to the list before unlocking); Broadcast moves the list to   *)
(* `woken`; a woken goroutine needs the mutex to continue.                   *)
(*                                                                          *)
(* Client-controlled steps (starting a Wait, Add/Done, cancelling a          *)
(* context) are External; everything the library does on its own is          *)
(* Internal.  Quiescent == ~ENABLED Internal is the point at which the       *)
(* conformance harness observes the real code (rt.Quiesce).                  *)
(*                                                                          *)
(* HelperLocked = FALSE is the code as pinned (415f340): the helper          *)
(* broadcasts without holding the mutex.  HelperLocked = TRUE is the code    *)
(* after the "fix:" commit: the helper takes the mutex around Broadcast.     *)
(***************************************************************************)
EXTENDS Integers, Sequences, FiniteSets, TLC

CONSTANTS Waiters,       \* identities of Wait calls (each with its own context)
          MaxCounter,    \* bound on the counter value explored
          Budget,        \* number of external Add steps explored
          HelperLocked   \* BOOLEAN, see above

Free == "free"
Deltas == {-2, -1, 1, 2}

VARIABLES counter,  \* wg.counter
          mu,       \* holder of wg.mu, or Free
          waitq,    \* notify list of wg.cond (FIFO)
          woken,    \* goroutines notified but not yet re-holding the mutex
          pc,       \* per Wait call
          done,     \* done[w]: the context passed to Wait call w is cancelled
          helper,   \* per Wait call: "none" | "armed" | "fired"
          budget,   \* remaining external Add steps
          sum,      \* history: sum of the Adds that completed without panic
          panics,   \* history: number of Adds rejected by the invariant
          early     \* history: some Wait returned with counter > 0 and ctx live

vars == <<counter, mu, waitq, woken, pc, done, helper, budget, sum, panics, early>>

Init == /\ counter = 0 /\ mu = Free /\ waitq = <<>> /\ woken = {}
        /\ pc = [w \in Waiters |-> "idle"]
        /\ done = [w \in Waiters |-> FALSE]
        /\ helper = [w \in Waiters |-> "none"]
        /\ budget = Budget /\ sum = 0 /\ panics = 0 /\ early = FALSE

SeqToSet(s) == {s[i] : i \in 1..Len(s)}

(* ------------------------------------------------------------ External *)

\* the client invokes wg.Wait(ctx_w) in a goroutine
WStart(w) == /\ pc[w] = "idle"
             /\ pc' = [pc EXCEPT ![w] = "enter"]
             /\ UNCHANGED <<counter, mu, waitq, woken, done, helper, budget, sum, panics, early>>

\* wg.Add(n) / Done() / Inc(): the whole body runs under the mutex
Add(n) == /\ budget > 0 /\ mu = Free
          /\ budget' = budget - 1
          /\ IF counter + n < 0
               THEN /\ panics' = panics + 1          \* Invariant.IsTrue panics before the update
                    /\ UNCHANGED <<counter, waitq, woken, sum>>
               ELSE /\ counter + n <= MaxCounter
                    /\ counter' = counter + n
                    /\ sum' = sum + n
                    /\ panics' = panics
                    /\ IF counter + n = 0
                         THEN waitq' = <<>> /\ woken' = woken \cup SeqToSet(waitq)
                         ELSE UNCHANGED <<waitq, woken>>
          /\ UNCHANGED <<mu, pc, done, helper, early>>

\* the client cancels the context of Wait call w (before or during the call)
Cancel(w) == /\ ~done[w]
             /\ done' = [done EXCEPT ![w] = TRUE]
             /\ UNCHANGED <<counter, mu, waitq, woken, pc, helper, budget, sum, panics, early>>

External == \/ \E w \in Waiters : WStart(w) \/ Cancel(w)
            \/ \E n \in Deltas : Add(n)

(* ------------------------------------------------------------ Internal *)

Return(w, legit) == /\ pc' = [pc EXCEPT ![w] = "ret"]
                    /\ early' = (early \/ ~legit)

\* lock; fast path (counter = 0 or ctx.Err() # nil); else derive ctx, start helper
WEnter(w) == /\ pc[w] = "enter" /\ mu = Free
             /\ IF counter = 0 \/ done[w]
                  THEN /\ Return(w, TRUE) /\ UNCHANGED <<mu, helper>>
                  ELSE /\ mu' = w /\ helper' = [helper EXCEPT ![w] = "armed"]
                       /\ pc' = [pc EXCEPT ![w] = "loop"] /\ early' = early
             /\ UNCHANGED <<counter, waitq, woken, done, budget, sum, panics>>

\* top of the for loop, still holding the mutex: select { case <-ctx.Done(): return; default: }
WLoop(w) == /\ pc[w] = "loop" /\ mu = w
            /\ IF done[w]
                 THEN /\ Return(w, TRUE) /\ mu' = Free
                 ELSE /\ pc' = [pc EXCEPT ![w] = "prepark"] /\ UNCHANGED <<mu, early>>
            /\ UNCHANGED <<counter, waitq, woken, done, helper, budget, sum, panics>>

\* cond.Wait(): join the notify list and release the mutex
\* (yield point fun.WaitGroup.Wait.before-cond-wait sits between WLoop and WPark)
WPark(w) == /\ pc[w] = "prepark" /\ mu = w
            /\ waitq' = Append(waitq, w) /\ mu' = Free
            /\ pc' = [pc EXCEPT ![w] = "parked"]
            /\ UNCHANGED <<counter, woken, done, helper, budget, sum, panics, early>>

\* notified: re-acquire the mutex; counter = 0 -> return, else back to the loop
WWake(w) == /\ pc[w] = "parked" /\ w \in woken /\ mu = Free
            /\ woken' = woken \ {w}
            /\ IF counter = 0
                 THEN /\ Return(w, TRUE) /\ UNCHANGED mu
                 ELSE /\ mu' = w /\ pc' = [pc EXCEPT ![w] = "loop"] /\ early' = early
            /\ UNCHANGED <<counter, waitq, done, helper, budget, sum, panics>>

\* helper goroutine: <-ctx.Done() fires when the caller's context is cancelled or
\* when Wait returns (defer cancel()); then cond.Broadcast()
HelperFire(w) == /\ helper[w] = "armed"
                 /\ done[w] \/ pc[w] = "ret"
                 /\ HelperLocked => mu = Free
                 /\ helper' = [helper EXCEPT ![w] = "fired"]
                 /\ waitq' = <<>> /\ woken' = woken \cup SeqToSet(waitq)
                 /\ UNCHANGED <<counter, mu, pc, done, budget, sum, panics, early>>

Internal == \E w \in Waiters : WEnter(w) \/ WLoop(w) \/ WPark(w) \/ WWake(w) \/ HelperFire(w)

Next == Internal \/ External
Spec == Init /\ [][Next]_vars /\ WF_vars(Internal)

(* ------------------------------------------------------------ Properties *)

TypeOK == /\ counter \in 0..MaxCounter
          /\ mu \in Waiters \cup {Free}
          /\ woken \subseteq Waiters
          /\ \A w \in Waiters : pc[w] \in {"idle", "enter", "loop", "prepark", "parked", "ret"}

Quiescent == ~ENABLED Internal

\* C14: Wait never returns while the counter is positive and its context is live
NoEarlyReturn == ~early

\* C14: the counter equals the sum of all completed Adds; a rejected Add changes nothing
CounterIsSum == counter = sum

\* C14 / C07 pattern: at quiescence nobody is parked whose condition holds
NoStuck == Quiescent => \A w \in Waiters :
              pc[w] \in {"enter", "loop", "prepark", "parked"} => (counter > 0 /\ ~done[w])

\* the mutex is never left held at quiescence, helpers have all exited once their Wait returned
NoLeak == Quiescent => /\ mu = Free
                       /\ \A w \in Waiters : pc[w] = "ret" => helper[w] # "armed"

\* a parked waiter is in the notify list or already notified (cond-var bookkeeping)
ParkedAccounted == \A w \in Waiters : pc[w] = "parked" => (w \in woken \/ w \in SeqToSet(waitq))

\* liveness: with finitely many client steps the library always settles
Settles == <>[]Quiescent
=============================================================================
