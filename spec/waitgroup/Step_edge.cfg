SPECIFICATION Spec
CONSTANTS
  Waiters = {"w1", "w2", "w3"}
  Ops = {"j1", "j2"}
  MaxCounter = 3
  Depth = 12
INVARIANT Inv
VIEW view
ACTION_CONSTRAINT EmitEdge
CHECK_DEADLOCK FALSE
