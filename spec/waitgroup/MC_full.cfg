SPECIFICATION Spec
CONSTANTS
  Waiters = {w1, w2, w3}
  MaxCounter = 3
  Budget = 5
  HelperLocked = TRUE
INVARIANTS TypeOK NoEarlyReturn CounterIsSum NoStuck NoLeak ParkedAccounted
PROPERTIES Settles
CHECK_DEADLOCK FALSE
