SPECIFICATION Spec
CONSTANTS
  Jobs = {"j1", "j2", "j3"}
  Procs = {p1, p2}
  Outcomes = {"ok", "stop"}
  Collect = FALSE
  FixDrain = TRUE
INVARIANTS AllSurfaced
CHECK_DEADLOCK FALSE
