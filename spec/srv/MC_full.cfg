SPECIFICATION Spec
CONSTANTS
  Starters = {s1, s2, s3}
  Closers = {c1}
  Waiters = {w1, w2}
  RunKinds = {"error", "panic"}
  ShutKinds = {"absent", "error"}
  CleanKinds = {"absent", "panic"}
  EhKinds = {"absent", "ok"}
  ParentCancel = TRUE
  FixLateStore = TRUE
  FixSecondStart = TRUE
INVARIANTS TypeOK RunAtMostOnce ShutdownOnce CleanupOnce HandlerAtMostOnce AtMostOneStartNil ExactlyOneStartNil
           Ordered WaitCovers NotRunningAfterWait Complete WaitJustified
CHECK_DEADLOCK FALSE
