SPECIFICATION Spec
CONSTANTS
  Starters = {"s1", "s2"}
  Closers = {"c1"}
  Waiters = {"w1", "w2"}
  RunKinds = {"absent", "ok", "error", "panic"}
  ShutKinds = {"absent", "ok", "error", "panic"}
  CleanKinds = {"absent", "ok", "error", "panic"}
  EhKinds = {"absent", "ok", "panic"}
  Modes = {"gate", "ctx"}
  HoldFins = {FALSE, TRUE}
  Holds = {"none", "checked", "launched"}
  Depth = 16
INVARIANT Inv
VIEW view
ACTION_CONSTRAINT EmitEdge
CHECK_DEADLOCK FALSE
