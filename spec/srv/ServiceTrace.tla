--------------------------- MODULE ServiceTrace ---------------------------
(* Code -> model: validates event histories recorded from the real srv.Service *)
(* (vh-srv record-svc, and the logs of every replay-svc behaviour) against     *)
(* property C10 read as a property automaton over the global event order.      *)
(*                                                                            *)
(* Events (DESIGN 2.3a): cfg, call/ret of start|close|wait, cb_enter/cb_exit   *)
(* of the harness-supplied run|shut|clean|eh, act cancel, probe (Running()),   *)
(* end.  Every event is logged under one mutex at the moment it happens:       *)
(* `call` before the operation is invoked, `ret` after it returned, cb_enter   *)
(* as the first and cb_exit as the last statement of a callback, `act cancel`  *)
(* before the parent context is cancelled.  Hence whenever the real code       *)
(* respects an ordering the property demands (e.g. Cleanup invoked after       *)
(* Shutdown returned) the log shows the two events in that order; the          *)
(* automaton only ever requires such orders, so it cannot reject a conforming  *)
(* execution.                                                                  *)
(*                                                                            *)
(* A Wait is judged when its call follows the return of a Start with nil       *)
(* (DESIGN 5.0); a probe is judged when it was taken at a quiescent point      *)
(* (q = 1) after a judged Wait returned.                                       *)
(***************************************************************************)
EXTENDS Integers, Sequences, FiniteSets, TLC, Json

Trace == ndJsonDeserialize("trace.ndjson")

VARIABLES l, cfg, nin, exited, outs, cause, nilstarts, startrets, jw, waitret
vars == <<l, cfg, nin, exited, outs, cause, nilstarts, startrets, jw, waitret>>

Ev == Trace[l]
More == l <= Len(Trace)
Fns == {"run", "shut", "clean", "eh"}
NoCfg == [run |-> "ok", shut |-> "absent", clean |-> "absent", eh |-> "absent"]

Fresh == /\ cfg' = NoCfg /\ nin' = [f \in Fns |-> 0] /\ exited' = {} /\ outs' = [f \in Fns |-> "-"]
         /\ cause' = FALSE /\ nilstarts' = 0 /\ startrets' = 0 /\ jw' = {} /\ waitret' = FALSE

Init == /\ l = 1 /\ cfg = NoCfg /\ nin = [f \in Fns |-> 0] /\ exited = {} /\ outs = [f \in Fns |-> "-"]
        /\ cause = FALSE /\ nilstarts = 0 /\ startrets = 0 /\ jw = {} /\ waitret = FALSE

Reset == /\ More /\ Ev.ev = "reset" /\ Fresh /\ l' = l + 1

\* a nil Run panics at the call and the deferred cancel ends the context without a logged cause
Cfg == /\ More /\ Ev.ev = "cfg"
       /\ cfg' = [run |-> Ev.run, shut |-> Ev.shut, clean |-> Ev.clean, eh |-> Ev.eh]
       /\ cause' = (Ev.run = "absent")
       /\ l' = l + 1 /\ UNCHANGED <<nin, exited, outs, nilstarts, startrets, jw, waitret>>

Call == /\ More /\ Ev.ev = "call"
        /\ cause' = (cause \/ Ev.op = "close")
        /\ jw' = IF Ev.op = "wait" /\ nilstarts > 0 THEN jw \cup {Ev.id} ELSE jw
        /\ l' = l + 1 /\ UNCHANGED <<cfg, nin, exited, outs, nilstarts, startrets, waitret>>

Present(f) == cfg[f] # "absent"
Gone(f) == ~Present(f) \/ f \in exited
Phases == {"run", "shut", "clean"}
ETok == [run |-> "eRun", shut |-> "eShut", clean |-> "eClean"]
IsSet == {Ev.is[i] : i \in 1..Len(Ev.is)}

\* exactly one Start returns nil, the others one of the two sentinels
RetStart == /\ More /\ Ev.ev = "ret" /\ Ev.op = "start"
            /\ Ev.res \in {"nil", "already", "returned"}
            /\ Ev.res = "nil" => nilstarts = 0
            /\ nilstarts' = nilstarts + (IF Ev.res = "nil" THEN 1 ELSE 0)
            /\ startrets' = startrets + 1
            /\ l' = l + 1 /\ UNCHANGED <<cfg, nin, exited, outs, cause, jw, waitret>>

RetClose == /\ More /\ Ev.ev = "ret" /\ Ev.op = "close"
            /\ l' = l + 1 /\ UNCHANGED <<cfg, nin, exited, outs, cause, nilstarts, startrets, jw, waitret>>

\* Wait blocks until Run, Shutdown and Cleanup have returned; its result covers their errors, has
\* ErrRecoveredPanic if one of them panicked, and is nil iff none failed
RetWait == /\ More /\ Ev.ev = "ret" /\ Ev.op = "wait"
           /\ Ev.id \in jw =>
                /\ Ev.res = "agg"
                /\ \A f \in Phases : Gone(f)
                /\ \A f \in Phases : outs[f] = "error" => ETok[f] \in IsSet
                /\ (\E f \in Phases : outs[f] = "panic") => Ev.pan = 1
                /\ Present("run") => ((Ev.nil = 1) <=> (\A f \in Phases : outs[f] \notin {"error", "panic"}))
           /\ waitret' = (waitret \/ Ev.id \in jw)
           /\ l' = l + 1 /\ UNCHANGED <<cfg, nin, exited, outs, cause, nilstarts, startrets, jw>>

\* each callback at most once; Shutdown only after the context ended (Run returned, Close called, parent
\* cancelled); Cleanup after Run and Shutdown returned; the handler after Cleanup with a non-nil aggregate
CbEnter == /\ More /\ Ev.ev = "cb_enter"
           /\ nin[Ev.fn] = 0
           /\ Ev.fn = "shut" => cause
           /\ Ev.fn = "clean" => (Gone("run") /\ Gone("shut"))
           /\ Ev.fn = "eh" => (Gone("run") /\ Gone("shut") /\ Gone("clean") /\ Ev.argnil = 0)
           /\ nin' = [nin EXCEPT ![Ev.fn] = 1]
           /\ l' = l + 1 /\ UNCHANGED <<cfg, exited, outs, cause, nilstarts, startrets, jw, waitret>>

CbExit == /\ More /\ Ev.ev = "cb_exit"
          /\ exited' = exited \cup {Ev.fn} /\ outs' = [outs EXCEPT ![Ev.fn] = Ev.out]
          /\ cause' = (cause \/ Ev.fn = "run")
          /\ l' = l + 1 /\ UNCHANGED <<cfg, nin, nilstarts, startrets, jw, waitret>>

Act == /\ More /\ Ev.ev = "act" /\ Ev.what = "cancel" /\ cause' = TRUE
       /\ l' = l + 1 /\ UNCHANGED <<cfg, nin, exited, outs, nilstarts, startrets, jw, waitret>>

\* after Wait returned Running() is false, at quiescent points
Probe == /\ More /\ Ev.ev = "probe"
         /\ (Ev.q = 1 /\ waitret) => Ev.running = 0
         /\ l' = l + 1 /\ UNCHANGED <<cfg, nin, exited, outs, cause, nilstarts, startrets, jw, waitret>>

\* the history is over and the service (if it was started) has been shut down and awaited:
\* exactly one Start returned nil and every present phase ran exactly once
End == /\ More /\ Ev.ev = "end"
       /\ startrets > 0 => nilstarts = 1
       /\ Ev.complete = 1 => /\ nilstarts = 1
                             /\ \A f \in Phases : Present(f) => (nin[f] = 1 /\ f \in exited)
       /\ l' = l + 1 /\ UNCHANGED <<cfg, nin, exited, outs, cause, nilstarts, startrets, jw, waitret>>

Normal == Reset \/ Cfg \/ Call \/ RetStart \/ RetClose \/ RetWait \/ CbEnter \/ CbExit \/ Act \/ Probe \/ End

\* An event no action explains: report it and continue with the next history, so that one TLC run
\* names every rejected history of a batch (each is validated again on its own before it is reported).
NextReset == LET S == {j \in (l + 1)..Len(Trace) : Trace[j].ev = "reset"}
             IN IF S = {} THEN Len(Trace) + 1 ELSE CHOOSE j \in S : \A k \in S : j <= k
Skip == /\ More /\ ~ENABLED Normal
        /\ PrintT(<<"REJECTED", ToJson([at |-> l, event |-> Ev])>>)
        /\ l' = NextReset
        /\ UNCHANGED <<cfg, nin, exited, outs, cause, nilstarts, startrets, jw, waitret>>

Next == Normal \/ Skip
Spec == Init /\ [][Next]_vars

HighWater == TLCSet(1, IF TLCGet(1) < l THEN l ELSE TLCGet(1))
Accepted == \/ TLCGet(1) = Len(Trace) + 1
            \/ PrintT(<<"STUCK", ToJson([at |-> TLCGet(1)])>>) /\ FALSE
ASSUME TLCSet(1, 0)
=============================================================================
