SPECIFICATION Spec
CONSTANTS
  Mode = "gate"
  Pace = "zero"
  CtxOut = "error"
  FinKinds = {"ok", "error", "canceled", "panic"}
  MaxRuns = 4
  RecoverFix = FALSE
  StaleInit = TRUE
INVARIANT Inv
PROPERTY Stops
CHECK_DEADLOCK FALSE
