SPECIFICATION Spec
CONSTANTS
  Comps = {"worker", "wait", "broker"}
  Units = {"a", "b", "c"}
  Kinds = {"ok", "error", "panic"}
  Modes = {"gate", "ctx"}
  Pres = {"new", "running", "finished"}
  Workers = {"k1", "k2", "k3"}
  Waiters = {"w1", "w2"}
  Depth = 14
  Hook = TRUE
  WorkerEarly = "either"
  WaitPanicRace = "either"
INVARIANT Inv
CONSTRAINT EmitAll
CHECK_DEADLOCK FALSE
