SPECIFICATION Spec
CONSTANTS
  Jobs = {"j1", "j2", "j3"}
  Waiters = {"w1"}
  Kinds = {"ok", "error", "panic", "eof", "canceled", "deadline"}
  Workers = {0, 1, 2}
  Depth = 12
INVARIANT Inv
VIEW view
ACTION_CONSTRAINT EmitEdge
CHECK_DEADLOCK FALSE
