SPECIFICATION Spec
CONSTANTS
  Jobs = {j1, j2, j3}
  FixDrain = FALSE
INVARIANTS AtMostOnce AllAcceptedRun Completes
CHECK_DEADLOCK FALSE
