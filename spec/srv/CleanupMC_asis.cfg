SPECIFICATION Spec
CONSTANTS
  Jobs = {"j1", "j2", "j3"}
  Procs = {p1, p2}
  Outcomes = {"ok"}
  Collect = TRUE
  FixDrain = FALSE
INVARIANTS AtMostOnce AllAcceptedRun AllSurfaced Completes
CHECK_DEADLOCK FALSE
