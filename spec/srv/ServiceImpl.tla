---------------------------- MODULE ServiceImpl ----------------------------
(* Implementation-shaped specification of srv.Service (/repo/srv/service.go),  *)
(* property C10.  One action per atomic access / channel operation / user      *)
(* callback boundary; line numbers refer to service.go.                        *)
(*                                                                            *)
(*   Start  110-190   isFinished.Load -> [yield checked] -> isRunning.Swap ->  *)
(*                    doStart.Do{ go EH; WithCancel; go shutdown; go run;      *)
(*                    [yield launched]; deferred isStarted.Store(true),        *)
(*                    isRunning.Store(true) } -> return nil                    *)
(*   Close  196-200   isRunning.Load && cancel != nil -> cancel()              *)
(*   Wait   215-226   isFinished.Load -> Resolve | isStarted.Load -> NotStarted*)
(*                    | wg.Wait -> Resolve                                     *)
(*   run goroutine 166-185  Run; deferred (LIFO): cancel, Recover,             *)
(*                    <-shutdownSignal + close(ehSignal), Cleanup, Recover,    *)
(*                    isFinished.Store(true), [yield finished],                *)
(*                    isRunning.Store(false), close(mainSignal), wg.Done       *)
(*   shutdown goroutine 148-162  <-ctx.Done; Shutdown; Recover;                *)
(*                    close(shutdownSignal); wg.Done                           *)
(*   handler goroutine 127-139   <-mainSignal; <-ehSignal; Get; Resolve;       *)
(*                    eh(err) if err # nil; Recover; wg.Done                   *)
(*                                                                            *)
(* Client-controlled steps are External: invoking Start/Close/Wait, cancelling *)
(* the parent context, and the *return* of each user callback (Run, Shutdown,  *)
(* Cleanup, ErrorHandler - their bodies belong to the client; Run may return   *)
(* on its own or after the context ended).  Everything else is Internal;       *)
(* Quiescent == ~ENABLED Internal is where the harness observes the real code. *)
(*                                                                            *)
(* FixLateStore / FixSecondStart = FALSE is the code as pinned; TRUE is the    *)
(* code with /verif/fixes/srv-start-late-running-store.diff resp.              *)
(* srv-second-start-nil.diff applied.                                          *)
(***************************************************************************)
EXTENDS Integers, Sequences, FiniteSets, TLC

CONSTANTS Starters, Closers, Waiters,
          RunKinds, ShutKinds, CleanKinds, EhKinds,   \* subsets of {"absent","ok","error","panic"}
          ParentCancel,        \* BOOLEAN: the parent context may be cancelled
          FixLateStore, FixSecondStart

VARIABLES kind,                                     \* [run, shut, clean, eh |-> outcome], fixed in Init
          isRunning, isFinished, isStarted,         \* atomic.Bool
          once,                                     \* sync.Once: "new" | "running" | "done"
          cancelSet, ctxDone, parentDone,           \* s.cancel # nil; the service context; the parent
          wg, ec,                                   \* fun.WaitGroup counter; erc.Collector as a set of tokens
          shutSig, mainSig, ehSig,                  \* channels: closed?
          pcS, sres, mine,                          \* Start callers
          pcC, pcW, wres, judged,                   \* Close / Wait callers
          pcRun, pcSh, pcEh,                        \* the three service goroutines
          panicking,                                \* run goroutine: a panic of Run/Cleanup awaits erc.Recover
          ninv, retd, bad                           \* history: invocations, returned callbacks, violated rules

vars == <<kind, isRunning, isFinished, isStarted, once, cancelSet, ctxDone, parentDone, wg, ec,
          shutSig, mainSig, ehSig, pcS, sres, mine, pcC, pcW, wres, judged, pcRun, pcSh, pcEh,
          panicking, ninv, retd, bad>>

Fns == {"run", "shut", "clean", "eh"}

Init == /\ kind \in [run : RunKinds, shut : ShutKinds, clean : CleanKinds, eh : EhKinds]
        /\ isRunning = FALSE /\ isFinished = FALSE /\ isStarted = FALSE
        /\ once = "new" /\ cancelSet = FALSE /\ ctxDone = FALSE /\ parentDone = FALSE
        /\ wg = 0 /\ ec = {} /\ shutSig = FALSE /\ mainSig = FALSE /\ ehSig = FALSE
        /\ pcS = [s \in Starters |-> "idle"] /\ sres = [s \in Starters |-> "-"]
        /\ mine = [s \in Starters |-> FALSE]
        /\ pcC = [c \in Closers |-> "idle"]
        /\ pcW = [w \in Waiters |-> "idle"] /\ wres = [w \in Waiters |-> {"-"}]
        /\ judged = [w \in Waiters |-> FALSE]
        /\ pcRun = "off" /\ pcSh = "off" /\ pcEh = "off" /\ panicking = FALSE
        /\ ninv = [f \in Fns |-> 0] /\ retd = {} /\ bad = {}

\* tokens a callback leaves in the collector when it returns (error) or panics (via erc.Recover)
Tok(f) == IF kind[f] = "error" THEN {"e_" \o f} ELSE IF kind[f] = "panic" THEN {"p_" \o f} ELSE {}
Present(f) == kind[f] # "absent"
Returned(f) == ~Present(f) \/ f \in retd

(* ------------------------------------------------------------ Start *)
SVars == <<pcS, sres, mine>>
SRet(s, r) == pcS' = [pcS EXCEPT ![s] = "ret"] /\ sres' = [sres EXCEPT ![s] = r]

SCall(s) == /\ pcS[s] = "idle" /\ pcS' = [pcS EXCEPT ![s] = "load"]
            /\ UNCHANGED <<kind, isRunning, isFinished, isStarted, once, cancelSet, ctxDone, parentDone, wg, ec,
                           shutSig, mainSig, ehSig, sres, mine, pcC, pcW, wres, judged, pcRun, pcSh, pcEh,
                           panicking, ninv, retd, bad>>

\* 111: if s.isFinished.Load() { return ErrServiceReturned }      (yield "checked" follows)
SLoad(s) == /\ pcS[s] = "load"
            /\ IF isFinished THEN SRet(s, "returned") ELSE pcS' = [pcS EXCEPT ![s] = "swap"] /\ sres' = sres
            /\ UNCHANGED <<kind, isRunning, isFinished, isStarted, once, cancelSet, ctxDone, parentDone, wg, ec,
                           shutSig, mainSig, ehSig, mine, pcC, pcW, wres, judged, pcRun, pcSh, pcEh,
                           panicking, ninv, retd, bad>>

\* 116: if s.isRunning.Swap(true) { return ErrServiceAlreadyStarted }
SSwap(s) == /\ pcS[s] = "swap"
            /\ IF isRunning THEN SRet(s, "already") /\ UNCHANGED isRunning
                            ELSE isRunning' = TRUE /\ pcS' = [pcS EXCEPT ![s] = "once"] /\ sres' = sres
            /\ UNCHANGED <<kind, isFinished, isStarted, once, cancelSet, ctxDone, parentDone, wg, ec,
                           shutSig, mainSig, ehSig, mine, pcC, pcW, wres, judged, pcRun, pcSh, pcEh,
                           panicking, ninv, retd, bad>>

\* 120: s.doStart.Do(...): the first caller runs the closure, a caller arriving while it runs waits,
\* later callers skip it.
SOnce(s) == /\ pcS[s] = "once" /\ once # "running"
            /\ IF once = "new"
                 THEN once' = "running" /\ mine' = [mine EXCEPT ![s] = TRUE] /\ pcS' = [pcS EXCEPT ![s] = "c1"]
                 ELSE UNCHANGED <<once, mine>> /\ pcS' = [pcS EXCEPT ![s] = "after"]
            /\ UNCHANGED <<kind, isRunning, isFinished, isStarted, cancelSet, ctxDone, parentDone, wg, ec,
                           shutSig, mainSig, ehSig, sres, pcC, pcW, wres, judged, pcRun, pcSh, pcEh,
                           panicking, ninv, retd, bad>>

\* 126-141: wg.Add(1); go handler goroutine; ctx, s.cancel = context.WithCancel(ctx)
SC1(s) == /\ pcS[s] = "c1" /\ wg' = wg + 1 /\ pcEh' = "recv"
          /\ cancelSet' = TRUE /\ ctxDone' = parentDone
          /\ pcS' = [pcS EXCEPT ![s] = "c2"]
          /\ UNCHANGED <<kind, isRunning, isFinished, isStarted, once, parentDone, ec,
                         shutSig, mainSig, ehSig, sres, mine, pcC, pcW, wres, judged, pcRun, pcSh,
                         panicking, ninv, retd, bad>>

\* 143-163: wg.Add(1); go shutdown goroutine
SC2(s) == /\ pcS[s] = "c2" /\ wg' = wg + 1 /\ pcSh' = "waitctx"
          /\ pcS' = [pcS EXCEPT ![s] = "c3"]
          /\ UNCHANGED <<kind, isRunning, isFinished, isStarted, once, cancelSet, ctxDone, parentDone, ec,
                         shutSig, mainSig, ehSig, sres, mine, pcC, pcW, wres, judged, pcRun, pcEh,
                         panicking, ninv, retd, bad>>

\* 165-185: wg.Add(1); go run goroutine                              (yield "launched" follows)
SC3(s) == /\ pcS[s] = "c3" /\ wg' = wg + 1 /\ pcRun' = "call"
          /\ pcS' = [pcS EXCEPT ![s] = "d1"]
          /\ UNCHANGED <<kind, isRunning, isFinished, isStarted, once, cancelSet, ctxDone, parentDone, ec,
                         shutSig, mainSig, ehSig, sres, mine, pcC, pcW, wres, judged, pcSh, pcEh,
                         panicking, ninv, retd, bad>>

\* 122: deferred s.isStarted.Store(true)
SD1(s) == /\ pcS[s] = "d1" /\ isStarted' = TRUE /\ pcS' = [pcS EXCEPT ![s] = "d2"]
          /\ UNCHANGED <<kind, isRunning, isFinished, once, cancelSet, ctxDone, parentDone, wg, ec,
                         shutSig, mainSig, ehSig, sres, mine, pcC, pcW, wres, judged, pcRun, pcSh, pcEh,
                         panicking, ninv, retd, bad>>

\* 121: deferred s.isRunning.Store(true) (removed by FixLateStore); the Once completes
SD2(s) == /\ pcS[s] = "d2" /\ once' = "done"
          /\ isRunning' = IF FixLateStore THEN isRunning ELSE TRUE
          /\ pcS' = [pcS EXCEPT ![s] = "after"]
          /\ UNCHANGED <<kind, isFinished, isStarted, cancelSet, ctxDone, parentDone, wg, ec,
                         shutSig, mainSig, ehSig, sres, mine, pcC, pcW, wres, judged, pcRun, pcSh, pcEh,
                         panicking, ninv, retd, bad>>

\* 189: return nil.  FixSecondStart: a caller whose Swap succeeded but who did not run the closure
\* undoes its Swap and reports ErrServiceReturned.
SAfter(s) == /\ pcS[s] = "after"
             /\ IF FixSecondStart /\ ~mine[s]
                  THEN isRunning' = FALSE /\ SRet(s, "returned")
                  ELSE UNCHANGED isRunning /\ SRet(s, "nil")
             /\ UNCHANGED <<kind, isFinished, isStarted, once, cancelSet, ctxDone, parentDone, wg, ec,
                            shutSig, mainSig, ehSig, mine, pcC, pcW, wres, judged, pcRun, pcSh, pcEh,
                            panicking, ninv, retd, bad>>

(* ------------------------------------------------------------ Close, parent cancel *)
CCall(c) == /\ pcC[c] = "idle" /\ pcC' = [pcC EXCEPT ![c] = "load"]
            /\ UNCHANGED <<kind, isRunning, isFinished, isStarted, once, cancelSet, ctxDone, parentDone, wg, ec,
                           shutSig, mainSig, ehSig, pcS, sres, mine, pcW, wres, judged, pcRun, pcSh, pcEh,
                           panicking, ninv, retd, bad>>

\* 197-199: if s.isRunning.Load() && s.cancel != nil { s.cancel() }
CDo(c) == /\ pcC[c] = "load" /\ pcC' = [pcC EXCEPT ![c] = "ret"]
          /\ ctxDone' = (ctxDone \/ (isRunning /\ cancelSet))
          /\ UNCHANGED <<kind, isRunning, isFinished, isStarted, once, cancelSet, parentDone, wg, ec,
                         shutSig, mainSig, ehSig, pcS, sres, mine, pcW, wres, judged, pcRun, pcSh, pcEh,
                         panicking, ninv, retd, bad>>

Cancel == /\ ParentCancel /\ ~parentDone /\ parentDone' = TRUE
          /\ ctxDone' = (ctxDone \/ cancelSet)
          /\ UNCHANGED <<kind, isRunning, isFinished, isStarted, once, cancelSet, wg, ec,
                         shutSig, mainSig, ehSig, pcS, sres, mine, pcC, pcW, wres, judged, pcRun, pcSh, pcEh,
                         panicking, ninv, retd, bad>>

(* ------------------------------------------------------------ Wait *)
\* a Wait is judged (DESIGN 5.0) when it is invoked after some Start returned nil
WCall(w) == /\ pcW[w] = "idle" /\ pcW' = [pcW EXCEPT ![w] = "fin"]
            /\ judged' = [judged EXCEPT ![w] = \E s \in Starters : sres[s] = "nil"]
            /\ UNCHANGED <<kind, isRunning, isFinished, isStarted, once, cancelSet, ctxDone, parentDone, wg, ec,
                           shutSig, mainSig, ehSig, pcS, sres, mine, pcC, wres, pcRun, pcSh, pcEh,
                           panicking, ninv, retd, bad>>

\* 216: if s.isFinished.Load() { return s.ec.Resolve() }
WFin(w) == /\ pcW[w] = "fin"
           /\ pcW' = [pcW EXCEPT ![w] = IF isFinished THEN "resolve" ELSE "started"]
           /\ UNCHANGED <<kind, isRunning, isFinished, isStarted, once, cancelSet, ctxDone, parentDone, wg, ec,
                          shutSig, mainSig, ehSig, pcS, sres, mine, pcC, wres, judged, pcRun, pcSh, pcEh,
                          panicking, ninv, retd, bad>>

\* 220: if !s.isStarted.Load() { return ErrServiceNotStarted }
WStarted(w) == /\ pcW[w] = "started"
               /\ IF isStarted THEN pcW' = [pcW EXCEPT ![w] = "wgwait"] /\ UNCHANGED <<wres, bad>>
                               ELSE /\ pcW' = [pcW EXCEPT ![w] = "ret"] /\ wres' = [wres EXCEPT ![w] = {"notstarted"}]
                                    /\ bad' = IF judged[w] THEN bad \cup {"wait-notstarted"} ELSE bad
               /\ UNCHANGED <<kind, isRunning, isFinished, isStarted, once, cancelSet, ctxDone, parentDone, wg, ec,
                              shutSig, mainSig, ehSig, pcS, sres, mine, pcC, judged, pcRun, pcSh, pcEh,
                              panicking, ninv, retd>>

\* 224: s.wg.Wait(ctx) with a background context: returns when the counter is zero (C14)
WWg(w) == /\ pcW[w] = "wgwait" /\ wg = 0 /\ pcW' = [pcW EXCEPT ![w] = "resolve"]
          /\ UNCHANGED <<kind, isRunning, isFinished, isStarted, once, cancelSet, ctxDone, parentDone, wg, ec,
                         shutSig, mainSig, ehSig, pcS, sres, mine, pcC, wres, judged, pcRun, pcSh, pcEh,
                         panicking, ninv, retd, bad>>

Expected == Tok("run") \cup Tok("shut") \cup Tok("clean")
\* 217/225: return s.ec.Resolve()
WResolve(w) == /\ pcW[w] = "resolve" /\ pcW' = [pcW EXCEPT ![w] = "ret"] /\ wres' = [wres EXCEPT ![w] = ec]
               /\ bad' = IF ~judged[w] THEN bad ELSE
                           bad \cup (IF Returned("run") /\ Returned("shut") /\ Returned("clean") THEN {} ELSE {"wait-early"})
                               \cup (IF Expected \subseteq ec THEN {} ELSE {"wait-incomplete"})
                               \cup (IF Expected = {} /\ kind.run # "absent" /\ ec # {} THEN {"wait-not-nil"} ELSE {})
               /\ UNCHANGED <<kind, isRunning, isFinished, isStarted, once, cancelSet, ctxDone, parentDone, wg, ec,
                              shutSig, mainSig, ehSig, pcS, sres, mine, pcC, judged, pcRun, pcSh, pcEh,
                              panicking, ninv, retd>>

(* ------------------------------------------------------------ run goroutine *)
\* 184: ec.Add(s.Run(ctx)); a nil Run panics at the call
RInvoke == /\ pcRun = "call"
           /\ IF Present("run") THEN pcRun' = "in" /\ ninv' = [ninv EXCEPT !["run"] = @ + 1] /\ UNCHANGED panicking
                                ELSE pcRun' = "defer" /\ panicking' = TRUE /\ UNCHANGED ninv
           /\ UNCHANGED <<kind, isRunning, isFinished, isStarted, once, cancelSet, ctxDone, parentDone, wg, ec,
                          shutSig, mainSig, ehSig, pcS, sres, mine, pcC, pcW, wres, judged, pcSh, pcEh, retd, bad>>

\* Run returns (on its own, or because its context ended: both are the client's choice) - External
RunReturn == /\ pcRun = "in" /\ pcRun' = "defer" /\ retd' = retd \cup {"run"}
             /\ ec' = IF kind.run = "error" THEN ec \cup Tok("run") ELSE ec
             /\ panicking' = (kind.run = "panic")
             /\ UNCHANGED <<kind, isRunning, isFinished, isStarted, once, cancelSet, ctxDone, parentDone, wg,
                            shutSig, mainSig, ehSig, pcS, sres, mine, pcC, pcW, wres, judged, pcSh, pcEh, ninv, bad>>

\* 183,181: deferred s.cancel(); erc.Recover(ec)
RDefer == /\ pcRun = "defer" /\ pcRun' = "waitshut" /\ ctxDone' = TRUE
          /\ ec' = IF panicking THEN ec \cup {"p_run"} ELSE ec
          /\ panicking' = FALSE
          /\ UNCHANGED <<kind, isRunning, isFinished, isStarted, once, cancelSet, parentDone, wg,
                         shutSig, mainSig, ehSig, pcS, sres, mine, pcC, pcW, wres, judged, pcSh, pcEh, ninv, retd, bad>>

\* 178: deferred func() { defer close(ehSignal); <-shutdownSignal }()
RWaitShut == /\ pcRun = "waitshut" /\ shutSig /\ ehSig' = TRUE /\ pcRun' = "cleanup"
             /\ UNCHANGED <<kind, isRunning, isFinished, isStarted, once, cancelSet, ctxDone, parentDone, wg, ec,
                            shutSig, mainSig, pcS, sres, mine, pcC, pcW, wres, judged, pcSh, pcEh, panicking, ninv, retd, bad>>

\* 172-177: deferred func() { ec.Add(cleanup()) }() when Cleanup is set
RCleanup == /\ pcRun = "cleanup"
            /\ IF Present("clean")
                 THEN /\ pcRun' = "inclean" /\ ninv' = [ninv EXCEPT !["clean"] = @ + 1]
                      /\ bad' = IF Returned("run") /\ Returned("shut") THEN bad ELSE bad \cup {"cleanup-early"}
                 ELSE pcRun' = "fin" /\ UNCHANGED <<ninv, bad>>
            /\ UNCHANGED <<kind, isRunning, isFinished, isStarted, once, cancelSet, ctxDone, parentDone, wg, ec,
                           shutSig, mainSig, ehSig, pcS, sres, mine, pcC, pcW, wres, judged, pcSh, pcEh, panicking, retd>>

\* Cleanup returns - External; ec.Add of its error, or erc.Recover (175) of its panic
CleanupReturn == /\ pcRun = "inclean" /\ pcRun' = "fin" /\ retd' = retd \cup {"clean"}
                 /\ ec' = ec \cup Tok("clean")
                 /\ UNCHANGED <<kind, isRunning, isFinished, isStarted, once, cancelSet, ctxDone, parentDone, wg,
                                shutSig, mainSig, ehSig, pcS, sres, mine, pcC, pcW, wres, judged, pcSh, pcEh,
                                panicking, ninv, bad>>

\* 171: deferred s.isFinished.Store(true)                       (yield "finished" follows)
RFin == /\ pcRun = "fin" /\ isFinished' = TRUE /\ pcRun' = "notrun"
        /\ UNCHANGED <<kind, isRunning, isStarted, once, cancelSet, ctxDone, parentDone, wg, ec,
                       shutSig, mainSig, ehSig, pcS, sres, mine, pcC, pcW, wres, judged, pcSh, pcEh,
                       panicking, ninv, retd, bad>>

\* 169: deferred s.isRunning.Store(false)
RNotRun == /\ pcRun = "notrun" /\ isRunning' = FALSE /\ pcRun' = "closemain"
           /\ UNCHANGED <<kind, isFinished, isStarted, once, cancelSet, ctxDone, parentDone, wg, ec,
                          shutSig, mainSig, ehSig, pcS, sres, mine, pcC, pcW, wres, judged, pcSh, pcEh,
                          panicking, ninv, retd, bad>>

\* 168,167: deferred close(mainSignal); s.wg.Done()
RDone == /\ pcRun = "closemain" /\ mainSig' = TRUE /\ wg' = wg - 1 /\ pcRun' = "done"
         /\ UNCHANGED <<kind, isRunning, isFinished, isStarted, once, cancelSet, ctxDone, parentDone, ec,
                        shutSig, ehSig, pcS, sres, mine, pcC, pcW, wres, judged, pcSh, pcEh,
                        panicking, ninv, retd, bad>>

(* ------------------------------------------------------------ shutdown goroutine *)
\* 152-153 / 161: <-ctx.Done(); s.ec.Add(shutdown())
ShInvoke == /\ pcSh = "waitctx" /\ ctxDone
            /\ IF Present("shut") THEN pcSh' = "in" /\ ninv' = [ninv EXCEPT !["shut"] = @ + 1]
                                 ELSE pcSh' = "close" /\ UNCHANGED ninv
            /\ UNCHANGED <<kind, isRunning, isFinished, isStarted, once, cancelSet, ctxDone, parentDone, wg, ec,
                           shutSig, mainSig, ehSig, pcS, sres, mine, pcC, pcW, wres, judged, pcRun, pcEh,
                           panicking, retd, bad>>

\* Shutdown returns - External; ec.Add / erc.Recover (151)
ShutdownReturn == /\ pcSh = "in" /\ pcSh' = "close" /\ retd' = retd \cup {"shut"}
                  /\ ec' = ec \cup Tok("shut")
                  /\ UNCHANGED <<kind, isRunning, isFinished, isStarted, once, cancelSet, ctxDone, parentDone, wg,
                                 shutSig, mainSig, ehSig, pcS, sres, mine, pcC, pcW, wres, judged, pcRun, pcEh,
                                 panicking, ninv, bad>>

\* 150,149: deferred close(shutdownSignal); s.wg.Done()
ShDone == /\ pcSh = "close" /\ shutSig' = TRUE /\ wg' = wg - 1 /\ pcSh' = "done"
          /\ UNCHANGED <<kind, isRunning, isFinished, isStarted, once, cancelSet, ctxDone, parentDone, ec,
                         mainSig, ehSig, pcS, sres, mine, pcC, pcW, wres, judged, pcRun, pcEh,
                         panicking, ninv, retd, bad>>

(* ------------------------------------------------------------ handler goroutine *)
\* 130-137: <-mainSignal; <-ehSignal; eh := Get(); if eh != nil { if err := ec.Resolve(); err != nil { eh(err) } }
EhProceed == /\ pcEh = "recv" /\ mainSig /\ ehSig
             /\ IF Present("eh") /\ ec # {}
                  THEN /\ pcEh' = "in" /\ ninv' = [ninv EXCEPT !["eh"] = @ + 1] /\ wg' = wg
                       /\ bad' = IF Returned("clean") /\ Returned("run") /\ Returned("shut") THEN bad
                                 ELSE bad \cup {"handler-early"}
                  ELSE pcEh' = "done" /\ wg' = wg - 1 /\ UNCHANGED <<ninv, bad>>
             /\ UNCHANGED <<kind, isRunning, isFinished, isStarted, once, cancelSet, ctxDone, parentDone, ec,
                            shutSig, mainSig, ehSig, pcS, sres, mine, pcC, pcW, wres, judged, pcRun, pcSh,
                            panicking, retd>>

\* the handler returns - External; erc.Recover (134) of its panic; wg.Done (128)
HandlerReturn == /\ pcEh = "in" /\ pcEh' = "done" /\ wg' = wg - 1 /\ retd' = retd \cup {"eh"}
                 /\ ec' = ec \cup Tok("eh")
                 /\ UNCHANGED <<kind, isRunning, isFinished, isStarted, once, cancelSet, ctxDone, parentDone,
                                shutSig, mainSig, ehSig, pcS, sres, mine, pcC, pcW, wres, judged, pcRun, pcSh,
                                panicking, ninv, bad>>

(* ------------------------------------------------------------ composition *)
Internal == \/ \E s \in Starters : SLoad(s) \/ SSwap(s) \/ SOnce(s) \/ SC1(s) \/ SC2(s) \/ SC3(s) \/ SD1(s) \/ SD2(s) \/ SAfter(s)
            \/ \E c \in Closers : CDo(c)
            \/ \E w \in Waiters : WFin(w) \/ WStarted(w) \/ WWg(w) \/ WResolve(w)
            \/ RInvoke \/ RDefer \/ RWaitShut \/ RCleanup \/ RFin \/ RNotRun \/ RDone
            \/ ShInvoke \/ ShDone \/ EhProceed

External == \/ \E s \in Starters : SCall(s)
            \/ \E c \in Closers : CCall(c)
            \/ \E w \in Waiters : WCall(w)
            \/ Cancel \/ RunReturn \/ ShutdownReturn \/ CleanupReturn \/ HandlerReturn

Next == Internal \/ External
Spec == Init /\ [][Next]_vars /\ WF_vars(Internal)

(* ------------------------------------------------------------ properties (C10) *)
Quiescent == ~ENABLED Internal
NilStarts == {s \in Starters : sres[s] = "nil"}

TypeOK == /\ wg \in 0..3 /\ once \in {"new", "running", "done"}
          /\ \A f \in Fns : ninv[f] \in 0..2

\* Run is invoked at most once; Shutdown / Cleanup / the handler likewise
RunAtMostOnce     == ninv["run"] <= 1
ShutdownOnce      == ninv["shut"] <= 1
CleanupOnce       == ninv["clean"] <= 1
HandlerAtMostOnce == ninv["eh"] <= 1

\* exactly one Start returns nil
AtMostOneStartNil  == Cardinality(NilStarts) <= 1
ExactlyOneStartNil == ((\A s \in Starters : pcS[s] \in {"idle", "ret"}) /\ (\E s \in Starters : pcS[s] = "ret"))
                        => Cardinality(NilStarts) = 1

\* Shutdown only after the service context ended (by construction of ShInvoke; kept for mutated models),
\* Cleanup after Run and Shutdown returned, the handler after Cleanup and with a non-nil aggregate
Ordered == bad \cap {"cleanup-early", "handler-early"} = {}

\* a judged Wait returns only after Run, Shutdown and Cleanup returned, never NotStarted, covering
\* every error / panic of the three, and nil when there was none
WaitCovers == bad \cap {"wait-early", "wait-incomplete", "wait-notstarted", "wait-not-nil"} = {}

\* after Wait returned Running() is false - evaluated at quiescent points (DESIGN 5.0)
NotRunningAfterWait == (Quiescent /\ \E w \in Waiters : judged[w] /\ pcW[w] = "ret") => ~isRunning

\* the same without "at quiescent points": NOT judged; MC_strict.cfg shows the window between
\* isFinished.Store(true) and isRunning.Store(false) that Wait's fast path can observe
NotRunningAfterWaitStrict == (\E w \in Waiters : judged[w] /\ pcW[w] = "ret") => ~isRunning

\* when the service has finished every present phase ran exactly once
Complete == isFinished => /\ Present("run") => ninv["run"] = 1
                          /\ Present("shut") => ninv["shut"] = 1 /\ "shut" \in retd
                          /\ Present("clean") => ninv["clean"] = 1 /\ "clean" \in retd

\* a Wait still blocked at quiescence is justified: some callback has not returned, or the context is live
WaitJustified == Quiescent => \A w \in Waiters : pcW[w] = "wgwait" =>
                    (pcRun = "in" \/ pcRun = "inclean" \/ pcSh = "in" \/ pcEh = "in" \/ ~ctxDone)

\* with finitely many client steps the library always settles
Settles == <>[]Quiescent
=============================================================================
