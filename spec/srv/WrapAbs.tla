------------------------------ MODULE WrapAbs ------------------------------
(* Abstract, quiescence-stepped specification of the thin wrappers of package  *)
(* srv that no other module covers (extra check X03; the doc comments are the   *)
(* specification):                                                              *)
(*   comp "worker"  Service.Worker() (service.go:233-252)                       *)
(*   comp "wait"    srv.Wait(iterator of fun.Operation) (implementations.go:114-157) *)
(*   comp "broker"  srv.Broker(broker) (implementations.go:300-308)             *)
(* HandlerWorkerPool's observer contract is judged by PoolAbs (C11, `seen`);    *)
(* ProcessIterator is itertool.ParallelForEach behind Run with Shutdown =       *)
(* iter.Close, the construction PoolAbs judges for WorkerPool - not repeated.   *)
(*                                                                            *)
(* worker: one service supplied by the harness (Run gated or ending with its    *)
(* context, outcome ok / error / panic; pre-state new, or started elsewhere and *)
(* still running, or finished).  work(k, c) = go s.Worker()(ctx c) for caller   *)
(* contexts c1, c2.  Documented: "starting it if needed and then waiting for    *)
(* the service to return"; "will return the same aggregated error ... when      *)
(* called multiple times on a completed service"; "respects the context and     *)
(* will return early if the context is canceled: returning a context            *)
(* cancelation error".  As observed (docs silent): the service a Worker starts  *)
(* lives under that caller's context (cancelling it ends the service for every  *)
(* other caller too); a Worker whose context has ended reports the context      *)
(* error even when the service has finished with a failure of its own.          *)
(* Divergence WorkerEarly ("doc" | "code" | "either"): a Worker called while    *)
(* another caller's Start is still inside the service's sync.Once (workhold:    *)
(* that Start is parked at yield point srv.Service.Start.launched) does not     *)
(* wait: Start answers ErrServiceAlreadyStarted, waitFor sees isStarted = false *)
(* (set at the end of the Once, service.go:123) and the Worker returns          *)
(* ErrServiceNotStarted at once although the service is running.                *)
(*                                                                            *)
(* wait: operations are supplied by the harness (gated or ending with their     *)
(* context, outcome ok / panic) and reach the service through a pubsub queue    *)
(* ("Use a blocking pubsub iterator to dispatch wait functions throughout the   *)
(* lifecycle of your program").  Documented: the service "runs until *both* all *)
(* wait functions have returned *and* the iterator is exhausted"; Wait()        *)
(* "aggregates all errors (e.g. panics)"; "When the service returns all worker  *)
(* Goroutines as well as the input worker will have returned."  As observed:    *)
(* the end of the service's context also ends the input loop (operations in     *)
(* progress are still awaited); an operation added after that is accepted by    *)
(* the queue but never invoked.                                                 *)
(*                                                                            *)
(* Divergence WaitPanicRace ("doc" | "either"): the panic of the operation      *)
(* whose return lets the service finish may be missing from Wait() (a race; see  *)
(* Commit).                                                                      *)
(*                                                                            *)
(* broker: Run = broker.Wait(ctx), Shutdown = broker.Stop().  Judged: the       *)
(* service runs until its context ends or the broker is stopped; once the       *)
(* service has ended the broker is stopped (probe: broker.Wait(background)).     *)
(***************************************************************************)
EXTENDS Integers, Sequences, FiniteSets, TLC, Json

CONSTANTS Comps, Units, Kinds, Modes, Pres, Workers, Waiters, Depth, Hook, WorkerEarly, WaitPanicRace

VARIABLES wcfg,   \* [comp, units : name -> [kind, mode], pre]
          svc,    \* "new" | "run" | "fin"
          owner,  \* worker: context the service lives under ("x" = its own, started elsewhere; "none")
          dead,   \* contexts that have ended (c1 is also the context passed to Start for wait / broker)
          ust,    \* unit -> "idle" | "queued" | "in" | "ret" | "lost"
          qclosed, stopped, hold,
          optp,   \* wait: operations whose panic Wait() may or may not report (divergence WaitPanicRace)
          st,     \* op id -> "idle" | "pend" | "done"
          octx,   \* worker op id -> its context
          hist
vars == <<wcfg, svc, owner, dead, ust, qclosed, stopped, hold, optp, st, octx, hist>>
view == <<wcfg, svc, owner, dead, ust, qclosed, stopped, hold, optp, st, octx>>

Ctxs == {"c1", "c2"}
OpIds == Workers \cup Waiters \cup {"s1", "cl", "pb"} \cup {"a:" \o u : u \in Units}
UCfgs == [kind : Kinds, mode : Modes]

Init == /\ wcfg \in {c \in [comp : Comps, units : [Units -> UCfgs], pre : Pres] :
                       /\ c.comp # "worker" => c.pre = "new"
                       /\ c.comp = "wait" => \A u \in Units : c.units[u].kind # "error"
                       /\ c.comp = "broker" => \A u \in Units : c.units[u] = [kind |-> "ok", mode |-> "gate"]
                       \* worker: the service is the first unit; the others are unused; a service started elsewhere is gated
                       /\ c.comp = "worker" => /\ \A u \in Units \ {"a"} : c.units[u] = [kind |-> "ok", mode |-> "gate"]
                                               /\ c.pre # "new" => c.units["a"].mode = "gate"}
        /\ svc = (IF wcfg.pre = "new" THEN "new" ELSE IF wcfg.pre = "running" THEN "run" ELSE "fin")
        /\ owner = (IF wcfg.pre = "new" THEN "none" ELSE "x")
        \* a service started elsewhere has had its Run invoked (and, finished, returned)
        /\ dead = {} /\ ust = [u \in Units |-> IF u = "a" /\ wcfg.pre = "running" THEN "in"
                                                ELSE IF u = "a" /\ wcfg.pre = "finished" THEN "ret" ELSE "idle"] /\ qclosed = FALSE /\ stopped = FALSE /\ hold = FALSE /\ optp = {}
        /\ st = [o \in OpIds |-> "idle"] /\ octx = [o \in Workers |-> "none"] /\ hist = <<>>

R(k) == [k |-> k, must |-> {}, forbid |-> {}, pan |-> "any"]
Toks == {"e:" \o u : u \in Units} \cup {"p:" \o u : u \in Units}
AggOpt(must, may) == [k |-> "agg", must |-> must, forbid |-> Toks \ (must \cup may),
                      pan |-> IF \E u \in Units : ("p:" \o u) \in must THEN "t"
                              ELSE IF \E u \in Units : ("p:" \o u) \in may THEN "any" ELSE "f"]
AggOf(must) == AggOpt(must, {})
\* worker: the service's own aggregate
SvcAgg == AggOf(IF wcfg.units["a"].kind = "error" THEN {"e:a"} ELSE IF wcfg.units["a"].kind = "panic" THEN {"p:a"} ELSE {})
\* wait: panics of the operations that have returned
WaitAgg(us, op2) == AggOpt({"p:" \o u : u \in {v \in Units : us[v] = "ret" /\ wcfg.units[v].kind = "panic" /\ v \notin op2}},
                           {"p:" \o u : u \in op2})

NoRes == [o \in OpIds |-> {}]

\* s2: op states after the step (pending ones resolved by Resolve), res2: results of ops that returned in this step
Commit(op, id, arg, svc2, owner2, dead2, us2, qc2, stop2, hold2, st2, octx2, res2, early) ==
  LET \* WaitPanicRace: the goroutine of an operation defers erc.Recover(ec) before wg.Done() (implementations.go:138-139),
      \* so a panicking operation signals "done" before its panic is in the collector: when its return is what lets the
      \* service finish, Cleanup's ec.Resolve() races with that Add and Wait() may miss the panic
      last == IF wcfg.comp = "wait" /\ WaitPanicRace # "doc" /\ svc # "fin" /\ svc2 = "fin"
                THEN {u \in Units : ust[u] = "in" /\ us2[u] = "ret" /\ wcfg.units[u].kind = "panic"} ELSE {}
      op2 == optp \cup last
      \* a pending Worker returns the context error once its context has ended, else the aggregate once the service has finished
      WRes(o) == IF octx2[o] \in dead2 THEN {R("ctxerr")} ELSE IF svc2 = "fin" /\ ~hold2 THEN {SvcAgg} ELSE {}
      \* a pending Wait() returns once the service has finished
      XRes(o) == IF svc2 = "fin" THEN {IF wcfg.comp = "wait" THEN WaitAgg(us2, op2) ELSE AggOf({})} ELSE {}
      PRes(o) == IF stop2 THEN {R("done")} ELSE {}
      Now(o) == IF o \in Workers THEN WRes(o) ELSE IF o \in Waiters THEN XRes(o) ELSE IF o = "pb" THEN PRes(o) ELSE {}
      st3 == [o \in OpIds |-> IF st2[o] = "pend" /\ Now(o) # {} THEN "done" ELSE st2[o]]
      Allow(o) == IF st3[o] = "pend" THEN {R("blocked")} \cup (IF o \in early THEN {R("notstarted")} ELSE {})
                  ELSE IF st2[o] = "pend" THEN Now(o) ELSE res2[o]
      listed == {o \in OpIds : st3[o] = "pend" \/ (st3[o] = "done" /\ st[o] # "done")}
      Cnt(u) == IF us2[u] \in {"in", "ret"} THEN 1 ELSE 0
  IN /\ svc' = svc2 /\ owner' = owner2 /\ dead' = dead2 /\ ust' = us2 /\ qclosed' = qc2 /\ stopped' = stop2
     /\ hold' = hold2 /\ optp' = op2 /\ st' = st3 /\ octx' = octx2 /\ wcfg' = wcfg
     /\ hist' = Append(hist, [op |-> op, id |-> id, arg |-> arg,
          exp |-> [ops |-> {[id |-> o, allow |-> Allow(o)] : o \in listed},
                   cnt |-> {[id |-> u, allow |-> {Cnt(u)}] : u \in Units},
                   inflight |-> Cardinality({u \in Units : us2[u] = "in"})]])

Pend(o) == [st EXCEPT ![o] = "pend"]
Done(o) == [st EXCEPT ![o] = "done"]
Res(o, as) == [NoRes EXCEPT ![o] = as]

(* ------------------------------------------------------------------ worker *)
IsW == wcfg.comp = "worker"
SMode == wcfg.units["a"].mode
\* the service's Run is unit "a"
Launch(c) == \* Start under context c: Run is invoked; under an ended context a ctx-mode Run returns at once
  IF c \in dead /\ SMode = "ctx" THEN <<"fin", [ust EXCEPT !["a"] = "ret"]>> ELSE <<"run", [ust EXCEPT !["a"] = "in"]>>

Work(k, c) ==
  /\ IsW /\ st[k] = "idle" /\ ~hold
  /\ LET oc == [octx EXCEPT ![k] = c]
     IN IF svc = "new"
          THEN LET l == Launch(c) IN Commit("work", k, c, l[1], c, dead, l[2], qclosed, stopped, FALSE, Pend(k), oc, NoRes, {})
          ELSE Commit("work", k, c, svc, owner, dead, ust, qclosed, stopped, FALSE, Pend(k), oc, NoRes, {})

\* the Worker's Start is parked inside the Once (yield point Start.launched): Run has been invoked, isStarted is not yet set
WorkHold(k, c) ==
  /\ IsW /\ Hook /\ st[k] = "idle" /\ svc = "new" /\ c \notin dead /\ ~hold
  /\ Commit("workhold", k, c, "run", c, dead, [ust EXCEPT !["a"] = "in"], qclosed, stopped, TRUE, Pend(k), [octx EXCEPT ![k] = c], NoRes, {})

\* a second Worker meanwhile: documented to wait; the code answers ErrServiceNotStarted (WorkerEarly)
WorkEarly(k, c) ==
  /\ IsW /\ hold /\ st[k] = "idle" /\ c \notin dead
  /\ LET oc == [octx EXCEPT ![k] = c]
     IN IF WorkerEarly = "doc" THEN Commit("work", k, c, svc, owner, dead, ust, qclosed, stopped, TRUE, Pend(k), oc, NoRes, {})
        ELSE IF WorkerEarly = "code" THEN Commit("work", k, c, svc, owner, dead, ust, qclosed, stopped, TRUE, Done(k), oc, Res(k, {R("notstarted")}), {})
        \* either: the model continues with the documented branch (the call stays pending) and accepts the code's answer
        ELSE Commit("work", k, c, svc, owner, dead, ust, qclosed, stopped, TRUE, Pend(k), oc, NoRes, {k})

RelHold == /\ IsW /\ hold
           /\ Commit("relhold", "none", "none", svc, owner, dead, ust, qclosed, stopped, FALSE, st, octx, NoRes, {})

(* ------------------------------------------------------------------ wait / broker *)
IsX == wcfg.comp \in {"wait", "broker"}
\* units in progress that honour their context return when it ends
CtxRet(us, dd) == [u \in Units |-> IF us[u] = "in" /\ wcfg.units[u].mode = "ctx" /\ "c1" \in dd THEN "ret" ELSE us[u]]
\* wait: the service ends when the input ended (queue closed and drained, or context ended) and no operation is in progress;
\* broker: when the context ended or the broker was stopped
Ends(us, qc, dd, sp) == IF wcfg.comp = "wait" THEN (qc \/ "c1" \in dd) /\ \A u \in Units : us[u] # "in"
                        ELSE "c1" \in dd \/ sp
Settle(sv, us, qc, dd, sp) ==
  LET us1 == CtxRet(us, dd)
      fin == sv = "run" /\ Ends(us1, qc, dd, sp)
  IN <<IF fin THEN "fin" ELSE sv, us1, IF fin /\ wcfg.comp = "broker" THEN TRUE ELSE sp>>

StartX ==
  /\ IsX /\ st["s1"] = "idle" /\ svc = "new"
  /\ LET us1 == [u \in Units |-> IF ust[u] = "queued" THEN (IF "c1" \in dead THEN "lost" ELSE "in") ELSE ust[u]]
         s == Settle("run", us1, qclosed, dead, stopped)
     IN Commit("start", "s1", "none", s[1], "c1", dead, s[2], qclosed, s[3], FALSE, Done("s1"), octx, Res("s1", {R("nil")}), {})

\* wait: queue.Add(operation)
AddX(u) ==
  /\ wcfg.comp = "wait" /\ ust[u] = "idle" /\ st["a:" \o u] = "idle"
  /\ IF qclosed THEN Commit("add", "a:" \o u, u, svc, owner, dead, ust, qclosed, stopped, FALSE, Done("a:" \o u), octx, Res("a:" \o u, {R("err")}), {})
     ELSE LET nu == IF svc = "new" THEN "queued" ELSE IF svc = "run" /\ "c1" \notin dead THEN "in" ELSE "lost"
          IN Commit("add", "a:" \o u, u, svc, owner, dead, [ust EXCEPT ![u] = nu], qclosed, stopped, FALSE,
                    Done("a:" \o u), octx, Res("a:" \o u, {R("nil")}), {})

CloseQ ==
  /\ wcfg.comp = "wait" /\ ~qclosed
  /\ LET s == Settle(svc, ust, TRUE, dead, stopped)
     IN Commit("closeq", "none", "none", s[1], owner, dead, s[2], TRUE, s[3], FALSE, st, octx, NoRes, {})

StopB ==
  /\ wcfg.comp = "broker" /\ ~stopped
  /\ LET s == Settle(svc, ust, qclosed, dead, TRUE)
     IN Commit("stop", "none", "none", s[1], owner, dead, s[2], qclosed, TRUE, FALSE, st, octx, NoRes, {})

ProbeB ==
  /\ wcfg.comp = "broker" /\ st["pb"] = "idle"
  /\ Commit("probe", "pb", "none", svc, owner, dead, ust, qclosed, stopped, FALSE, Pend("pb"), octx, NoRes, {})

\* Close() of the service (wait / broker): ends its context once it has been started
CloseX ==
  /\ IsX /\ st["cl"] = "idle"
  /\ LET dd == IF svc = "run" THEN dead \cup {"c1"} ELSE dead
         s == Settle(svc, ust, qclosed, dd, stopped)
     IN Commit("close", "cl", "none", s[1], owner, dd, s[2], qclosed, s[3], FALSE, Done("cl"), octx, Res("cl", {R("done")}), {})

WaitX(w) ==
  /\ IsX /\ st[w] = "idle" /\ svc # "new"
  /\ Commit("wait", w, "none", svc, owner, dead, ust, qclosed, stopped, FALSE, Pend(w), octx, NoRes, {})

(* ------------------------------------------------------------------ shared *)
Cancel(c) ==
  /\ c \notin dead /\ ~hold /\ (c = "c2" => IsW)
  /\ LET dd == dead \cup {c}
     IN IF IsW
          THEN LET ends == svc = "run" /\ owner = c /\ SMode = "ctx"
               IN Commit("cancel", "none", c, IF ends THEN "fin" ELSE svc, owner, dd,
                         IF ends THEN [ust EXCEPT !["a"] = "ret"] ELSE ust, qclosed, stopped, FALSE, st, octx, NoRes, {})
          ELSE LET s == Settle(svc, ust, qclosed, dd, stopped)
               IN Commit("cancel", "none", c, s[1], owner, dd, s[2], qclosed, s[3], FALSE, st, octx, NoRes, {})

\* the driver lets a gated unit in progress return
Finish(u) ==
  /\ ust[u] = "in" /\ ~hold /\ (wcfg.units[u].mode = "gate" \/ IsW)
  /\ (IsW => (u = "a" /\ (SMode = "gate" \/ owner = "x")))
  /\ LET us1 == [ust EXCEPT ![u] = "ret"]
     IN IF IsW THEN Commit("finish", "none", u, "fin", owner, dead, us1, qclosed, stopped, FALSE, st, octx, NoRes, {})
        ELSE LET s == Settle(svc, us1, qclosed, dead, stopped)
             IN Commit("finish", "none", u, s[1], owner, dead, s[2], qclosed, s[3], FALSE, st, octx, NoRes, {})

Step == \/ \E k \in Workers, c \in Ctxs : Work(k, c) \/ WorkHold(k, c) \/ WorkEarly(k, c)
        \/ RelHold \/ StartX \/ CloseQ \/ StopB \/ ProbeB \/ CloseX
        \/ \E u \in Units : AddX(u) \/ Finish(u)
        \/ \E w \in Waiters : WaitX(w)
        \/ \E c \in Ctxs : Cancel(c)
Next == Len(hist) < Depth /\ Step
Spec == Init /\ [][Next]_vars

Inv == /\ \A o \in Waiters : st[o] = "done" => (svc = "fin" /\ \A u \in Units : ust[u] # "in")   \* Wait returned => nothing in progress
       /\ \A o \in Workers : st[o] = "done" => (octx[o] \in dead \/ svc = "fin" \/ WorkerEarly = "code")
       /\ (wcfg.comp = "broker" /\ svc = "fin") => stopped
       /\ svc = "new" => \A u \in Units : ust[u] \in {"idle", "queued"}
       /\ (IsW /\ svc = "fin") => ust["a"] = "ret"
       /\ hold => (IsW /\ svc = "run")

UnitsOut == {[name |-> u, kind |-> wcfg.units[u].kind, mode |-> wcfg.units[u].mode] : u \in Units}
Beh(h) == [cfg |-> [comp |-> wcfg.comp, pre |-> wcfg.pre, units |-> UnitsOut], steps |-> h]
EmitAll  == (Len(hist) < Depth /\ ENABLED Step) \/ PrintT(<<"BEH", ToJson(Beh(hist))>>)
EmitEdge == PrintT(<<"BEH", ToJson(Beh(hist'))>>)
=============================================================================
