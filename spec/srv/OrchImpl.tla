----------------------------- MODULE OrchImpl -----------------------------
(* Implementation-shaped specification of the orchestrator's Run loop          *)
(* (/repo/srv/orchestrator.go:102-145), property C11.                          *)
(*                                                                            *)
(*   for { s, ok := input.Remove()                    LRemove                  *)
(*         if !ok { s, err = input.Wait(ctx)           LWait (an item wins over *)
(*                  if err != nil { break } }                 a cancelled ctx)  *)
(*         if s.Running()      { wg.Add(1); go { ec.Add(s.waitFor(ctx)) } }     *)
(*         else if s.isFinished{ ec.Add(s.Wait()) }     LClassify               *)
(*         else                { wg.Add(1); go { Start(ctx); ec.Add(s.Wait()) }}*)
(*   }                                                                          *)
(*   wg.Wait(); return ec.Resolve()                     LWgWait                 *)
(*                                                                            *)
(* A member service is abstracted to new / running / finished (C10 gives the   *)
(* meaning of Start, Wait and waitFor).  Client-controlled, hence External:    *)
(* or.Add, cancelling the orchestrator's context, and the return of a member's *)
(* Run (a member may ignore its context).  Members that the client started     *)
(* itself run on a context the orchestrator does not control.                  *)
(*                                                                            *)
(* FixAwaitRunning = FALSE is the code as pinned: a service found running is   *)
(* awaited with waitFor(ctx), i.e. only until the orchestrator's own context   *)
(* ends.  TRUE is the code with                                                *)
(* /verif/fixes/srv-orchestrator-awaits-running-service.diff (Close, then      *)
(* Wait).                                                                      *)
(***************************************************************************)
EXTENDS Integers, Sequences, FiniteSets, TLC

CONSTANTS Members, Pres, FixAwaitRunning

VARIABLES pre,      \* member -> "new" | "running" | "finished" when it is added
          svc,      \* member -> "new" | "running" | "finished"
          toadd,    \* members the client has not added yet
          queue,    \* or.input
          ctxDone,  \* the orchestrator's context
          lpc, cur, \* loop: "off" | "remove" | "wait" | "classify" | "wgwait" | "ret"
          gor,      \* member -> goroutine of the loop: "none" | "wrun" | "start" | "wait" | "done"
          wgc,      \* sync.WaitGroup counter
          nstart,   \* member -> number of times its Run was invoked
          collected \* members whose final Wait() result was added to ec

vars == <<pre, svc, toadd, queue, ctxDone, lpc, cur, gor, wgc, nstart, collected>>

Init == /\ pre \in [Members -> Pres] /\ svc = pre
        /\ toadd = Members /\ queue = <<>> /\ ctxDone = FALSE
        /\ lpc = "off" /\ cur = "none"
        /\ gor = [m \in Members |-> "none"] /\ wgc = 0
        /\ nstart = [m \in Members |-> IF pre[m] = "new" THEN 0 ELSE 1]
        /\ collected = {}

(* ------------------------------------------------------------ External *)
Add(m) == /\ m \in toadd /\ toadd' = toadd \ {m} /\ queue' = Append(queue, m)
          /\ UNCHANGED <<pre, svc, ctxDone, lpc, cur, gor, wgc, nstart, collected>>
OStart == /\ lpc = "off" /\ lpc' = "remove"
          /\ UNCHANGED <<pre, svc, toadd, queue, ctxDone, cur, gor, wgc, nstart, collected>>
Cancel == /\ ~ctxDone /\ ctxDone' = TRUE
          /\ UNCHANGED <<pre, svc, toadd, queue, lpc, cur, gor, wgc, nstart, collected>>
RunReturn(m) == /\ svc[m] = "running" /\ svc' = [svc EXCEPT ![m] = "finished"]
                /\ UNCHANGED <<pre, toadd, queue, ctxDone, lpc, cur, gor, wgc, nstart, collected>>
External == OStart \/ Cancel \/ \E m \in Members : Add(m) \/ RunReturn(m)

(* ------------------------------------------------------------ Internal *)
Pop == cur' = Head(queue) /\ queue' = Tail(queue) /\ lpc' = "classify"

LRemove == /\ lpc = "remove"
           /\ IF queue # <<>> THEN Pop ELSE lpc' = "wait" /\ UNCHANGED <<cur, queue>>
           /\ UNCHANGED <<pre, svc, toadd, ctxDone, gor, wgc, nstart, collected>>

LWait == /\ lpc = "wait" /\ (queue # <<>> \/ ctxDone)
         /\ IF queue # <<>> THEN Pop ELSE lpc' = "wgwait" /\ UNCHANGED <<cur, queue>>
         /\ UNCHANGED <<pre, svc, toadd, ctxDone, gor, wgc, nstart, collected>>

LClassify == /\ lpc = "classify" /\ lpc' = "remove"
             /\ IF svc[cur] = "running"
                  THEN wgc' = wgc + 1 /\ gor' = [gor EXCEPT ![cur] = "wrun"] /\ UNCHANGED collected
                ELSE IF svc[cur] = "finished"
                  THEN collected' = collected \cup {cur} /\ UNCHANGED <<wgc, gor>>
                ELSE wgc' = wgc + 1 /\ gor' = [gor EXCEPT ![cur] = "start"] /\ UNCHANGED collected
             /\ UNCHANGED <<pre, svc, toadd, queue, ctxDone, cur, nstart>>

\* go func(ss) { ec.Add(ss.Start(ctx)); ec.Add(ss.Wait()) }: Start launches the service unless somebody did
GStart(m) == /\ gor[m] = "start" /\ gor' = [gor EXCEPT ![m] = "wait"]
             /\ IF svc[m] = "new" THEN svc' = [svc EXCEPT ![m] = "running"] /\ nstart' = [nstart EXCEPT ![m] = @ + 1]
                                ELSE UNCHANGED <<svc, nstart>>
             /\ UNCHANGED <<pre, toadd, queue, ctxDone, lpc, cur, wgc, collected>>

GWait(m) == /\ gor[m] = "wait" /\ svc[m] = "finished"
            /\ gor' = [gor EXCEPT ![m] = "done"] /\ wgc' = wgc - 1 /\ collected' = collected \cup {m}
            /\ UNCHANGED <<pre, svc, toadd, queue, ctxDone, lpc, cur, nstart>>

\* go func(ss) { ec.Add(ss.waitFor(ctx)) }   resp. with the fix: waitFor(ctx); if ctx ended Close(); ec.Add(Wait())
GWaitRunning(m) == /\ gor[m] = "wrun" /\ (svc[m] = "finished" \/ ctxDone)
                   /\ IF svc[m] = "finished"
                        THEN gor' = [gor EXCEPT ![m] = "done"] /\ wgc' = wgc - 1 /\ collected' = collected \cup {m}
                      ELSE IF FixAwaitRunning
                        THEN gor' = [gor EXCEPT ![m] = "wait"] /\ UNCHANGED <<wgc, collected>>
                      ELSE gor' = [gor EXCEPT ![m] = "done"] /\ wgc' = wgc - 1 /\ UNCHANGED collected
                   /\ UNCHANGED <<pre, svc, toadd, queue, ctxDone, lpc, cur, nstart>>

LWgWait == /\ lpc = "wgwait" /\ wgc = 0 /\ lpc' = "ret"
           /\ UNCHANGED <<pre, svc, toadd, queue, ctxDone, cur, gor, wgc, nstart, collected>>

Internal == LRemove \/ LWait \/ LClassify \/ LWgWait \/ \E m \in Members : GStart(m) \/ GWait(m) \/ GWaitRunning(m)
Next == Internal \/ External
Spec == Init /\ [][Next]_vars /\ WF_vars(Internal)

(* ------------------------------------------------------------ properties (C11) *)
Quiescent == ~ENABLED Internal
Awaited == {m \in Members : gor[m] # "none"}

TypeOK == wgc \in 0..Cardinality(Members) /\ \A m \in Members : nstart[m] \in 0..2

\* every service is started at most once, by anyone
StartedAtMostOnce == \A m \in Members : nstart[m] <= 1

\* the orchestrator returns only after every service it started or found running has returned ...
AwaitedAll == lpc = "ret" => \A m \in Awaited : svc[m] = "finished"
\* ... and its result contains the final Wait() result of each of them and of those found finished
CollectsAll == lpc = "ret" => Awaited \subseteq collected
\* while the loop is alive and its context live, everything added has been picked up, and started if new
NoStranded == (Quiescent /\ lpc \in {"remove", "wait", "classify"} /\ ~ctxDone)
                 => (queue = <<>> /\ \A m \in Members \ toadd : svc[m] # "new")
\* a blocked orchestrator is justified: its context is live or an awaited service has not returned
WaitJustified == (Quiescent /\ lpc \in {"wait", "wgwait"}) => (~ctxDone \/ \E m \in Awaited : svc[m] # "finished")

Settles == <>[]Quiescent
=============================================================================
