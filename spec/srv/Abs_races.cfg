SPECIFICATION Spec
CONSTANTS
  Starters = {"s1", "s2"}
  Closers = {}
  Waiters = {"w1"}
  RunKinds = {"ok"}
  ShutKinds = {"absent"}
  CleanKinds = {"absent"}
  EhKinds = {"absent"}
  Modes = {"gate"}
  HoldFins = {FALSE, TRUE}
  Holds = {"none", "checked", "launched"}
  Depth = 12
INVARIANT Inv
VIEW view
ACTION_CONSTRAINT EmitEdge
CHECK_DEADLOCK FALSE
