---------------------------- MODULE CleanupAbs ----------------------------
(* Abstract, quiescence-stepped specification of the srv.Cleanup service over  *)
(* an unlimited pubsub.Queue (property C11).  Jobs are harness-supplied        *)
(* fun.Worker functions (gate mode: they return when the driver says so) with  *)
(* a scripted outcome.  Driver steps: add(j) = go queue.Add(job j); burst(s)   *)
(* = Add the jobs of the sequence s, in that order, and call Close() at once,  *)
(* without quiescence in between (Adds racing the shutdown); start = go        *)
(* c.Start(ctx);                                                               *)
(* cancel (possibly before start); close; finish(j); wait(w) = go c.Wait().    *)
(*                                                                            *)
(* Obligations (DESIGN 5.0: accepted = Add returned nil before the shutdown    *)
(* event in the global order): no accepted job runs before the shutdown event; *)
(* once the service has been started and shut down the accepted jobs are       *)
(* invoked exactly once each, in the order of acceptance, as many at a time as *)
(* the shutdown pool has workers (one per CPU, implementations.go:218: nw = 0  *)
(* stands for "at least as many CPUs as jobs", nw > 0 for a machine with nw    *)
(* CPUs - the harness pins itself to that many): at quiescence                 *)
(* min(accepted, returned + workers) jobs have been invoked, so a job that     *)
(* fails or panics - whatever its error is - never prevents the others, and    *)
(* one that does not return only occupies its worker; c.Wait() stays blocked   *)
(* until every accepted job returned and its result satisfies errors.Is for    *)
(* every job failure.                                                          *)
(*                                                                            *)
(* Outcome vocabulary (Kinds): ok, error (a plain error), panic, and the       *)
(* errors a worker group treats as "stop" signals when a processor returns     *)
(* them (fun.WorkerGroupConf.CanContinueOnError, opts.go:81-111): eof (wraps   *)
(* io.EOF), canceled (wraps context.Canceled), deadline (wraps                 *)
(* context.DeadlineExceeded).  For cleanup functions they are failures like    *)
(* any other.                                                                  *)
(*                                                                            *)
(* Jobs are interchangeable (a job is identified by its place in the order of  *)
(* acceptance, which the schedule chooses), so only outcome assignments that   *)
(* are sorted along the job names are explored.                                *)
(***************************************************************************)
EXTENDS Integers, Sequences, FiniteSets, TLC, Json

CONSTANTS Jobs, Waiters, Kinds, Workers, Depth

VARIABLES ucfg, nw, acc, fin, started, ended, st, hist
vars == <<ucfg, nw, acc, fin, started, ended, st, hist>>
\* with enough workers for all jobs the order of acceptance has no influence on what follows
view == <<ucfg, nw, IF nw = 0 THEN {acc[i] : i \in 1..Len(acc)} ELSE {<<i, acc[i]>> : i \in 1..Len(acc)}, fin, started, ended, st>>

KindOrd == <<"ok", "error", "panic", "eof", "canceled", "deadline">>
KIdx(k) == CHOOSE i \in 1..Len(KindOrd) : KindOrd[i] = k
NameOrd == <<"j1", "j2", "j3", "j4", "j5">>
NIdx(n) == CHOOSE i \in 1..Len(NameOrd) : NameOrd[i] = n
Sorted(u) == \A x, y \in Jobs : NIdx(x) < NIdx(y) => KIdx(u[x].kind) <= KIdx(u[y].kind)
ErrKinds == {"error", "eof", "canceled", "deadline"}
Range(s) == {s[i] : i \in 1..Len(s)}
Min(a, b) == IF a < b THEN a ELSE b

AddId(j) == "add_" \o j
OpIds == {AddId(j) : j \in Jobs} \cup Waiters \cup {"cs", "burst"}

Init == /\ ucfg \in {u \in [Jobs -> [kind : Kinds]] : Sorted(u)}
        /\ nw \in Workers
        /\ acc = <<>> /\ fin = {} /\ started = FALSE /\ ended = FALSE
        /\ st = [o \in OpIds |-> "idle"] /\ hist = <<>>

R(k) == [k |-> k, must |-> {}, pan |-> "any", nil |-> "any"]
Fail(j) == IF ucfg[j].kind \in ErrKinds THEN {"e:" \o j} ELSE IF ucfg[j].kind = "panic" THEN {"p:" \o j} ELSE {}
Agg(ac) == [k |-> "agg", must |-> UNION {Fail(j) : j \in Range(ac)},
            pan |-> IF \E j \in Range(ac) : ucfg[j].kind = "panic" THEN "t" ELSE "any", nil |-> "any"]
\* number of accepted jobs invoked at quiescence (a prefix of ac), and the jobs in flight
W == IF nw = 0 THEN Cardinality(Jobs) ELSE nw
NS(ac, fi, sd, en) == IF sd /\ en THEN Min(Len(ac), Cardinality(fi) + W) ELSE 0
InFlight == {acc[i] : i \in 1..NS(acc, fin, started, ended)} \ fin

Commit(op, id, arg, ac, fi, sd, en, st2, res2) ==
  LET shut  == sd /\ en                       \* the cleanup phase runs
      alld  == shut /\ Range(ac) \subseteq fi
      ns    == NS(ac, fi, sd, en)
      wdone == {w \in Waiters : st2[w] = "pend" /\ alld}
      st3   == [o \in OpIds |-> IF o \in wdone THEN "done" ELSE st2[o]]
      Allow(o) == IF o \in wdone THEN {Agg(ac)} ELSE IF st3[o] = "pend" THEN {R("blocked")} ELSE res2[o]
      listed == {o \in OpIds : st3[o] = "pend" \/ (st3[o] = "done" /\ st[o] # "done")}
  IN /\ acc' = ac /\ fin' = fi /\ started' = sd /\ ended' = en /\ st' = st3 /\ ucfg' = ucfg /\ nw' = nw
     /\ hist' = Append(hist, [op |-> op, id |-> id, arg |-> arg,
                  exp |-> [ops |-> {[id |-> o, allow |-> Allow(o)] : o \in listed},
                           cnt |-> {[id |-> j, allow |-> IF \E i \in 1..ns : ac[i] = j THEN {1} ELSE {0}] : j \in Jobs},
                           started |-> {}, seen |-> {}]])

NoRes == [o \in OpIds |-> {}]

\* an Add before the shutdown event is accepted (also before the service is started)
AddOp(j) == /\ j \notin Range(acc) /\ ~ended
            /\ Commit("add", AddId(j), j, Append(acc, j), fin, started, ended,
                      [st EXCEPT ![AddId(j)] = "done"], [NoRes EXCEPT ![AddId(j)] = {R("nil")}])

\* Adds racing the shutdown: every Add returns nil, in the order of the sequence s, before Close() is called
Seqs == {s \in UNION {[1..n -> Jobs] : n \in 1..Cardinality(Jobs)} : \A i, k \in DOMAIN s : i # k => s[i] # s[k]}
Names(s) == LET F[i \in 1..Len(s)] == IF i = 1 THEN s[1] ELSE F[i - 1] \o "," \o s[i] IN F[Len(s)]
BurstOp(s) == /\ started /\ ~ended /\ Range(s) \cap Range(acc) = {} /\ st["burst"] = "idle"
              /\ Commit("burst", "burst", Names(s), acc \o s, fin, started, TRUE,
                        [st EXCEPT !["burst"] = "done"], [NoRes EXCEPT !["burst"] = {R("nil")}])

StartOp == /\ ~started
           /\ Commit("start", "cs", "none", acc, fin, TRUE, ended, [st EXCEPT !["cs"] = "done"], [NoRes EXCEPT !["cs"] = {R("nil")}])

CancelOp == /\ ~ended /\ Commit("cancel", "none", "none", acc, fin, started, TRUE, st, NoRes)
CloseOp  == /\ ~ended /\ started /\ Commit("close", "none", "none", acc, fin, started, TRUE, st, NoRes)

FinishOp(j) == /\ started /\ ended /\ j \in InFlight
               /\ Commit("finish", "none", j, acc, fin \cup {j}, started, ended, st, NoRes)

WaitOp(w) == /\ started /\ st[w] = "idle"
             /\ Commit("wait", w, "none", acc, fin, started, ended, [st EXCEPT ![w] = "pend"], NoRes)

Step == \/ \E j \in Jobs : AddOp(j) \/ FinishOp(j)
        \/ \E s \in Seqs : BurstOp(s)
        \/ \E w \in Waiters : WaitOp(w)
        \/ StartOp \/ CancelOp \/ CloseOp
Next == Len(hist) < Depth /\ Step
Spec == Init /\ [][Next]_vars

Inv == fin \subseteq Range(acc) /\ (\A w \in Waiters : st[w] = "done" => Range(acc) \subseteq fin)

Units == {[name |-> j, kind |-> ucfg[j].kind, mode |-> "gate", pre |-> "new"] : j \in Jobs}
Beh(h) == [cfg |-> [comp |-> "cleanup", units |-> Units, workers |-> nw, cont |-> FALSE], steps |-> h]
EmitAll  == (Len(hist) < Depth /\ ENABLED Step) \/ PrintT(<<"BEH", ToJson(Beh(hist))>>)
EmitEdge == PrintT(<<"BEH", ToJson(Beh(hist'))>>)
=============================================================================
