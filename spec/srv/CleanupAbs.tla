---------------------------- MODULE CleanupAbs ----------------------------
(* Abstract, quiescence-stepped specification of the srv.Cleanup service over  *)
(* an unlimited pubsub.Queue (property C11).  Jobs are harness-supplied        *)
(* fun.Worker functions (gate mode: they return when the driver says so) with  *)
(* a scripted outcome.  Driver steps: add(j) = go queue.Add(job j); burst(js)  *)
(* = Add every job of js and call Close() at once, without waiting for         *)
(* quiescence in between (an Add racing the shutdown); start = go c.Start(ctx);*)
(* cancel (possibly before start); close; finish(j); wait(w) = go c.Wait().    *)
(*                                                                            *)
(* Obligations (DESIGN 5.0: accepted = Add returned nil before the shutdown    *)
(* event in the global order): no accepted job runs before the shutdown event; *)
(* once the service has been started and shut down every accepted job has been *)
(* invoked exactly once - concurrently, so a job that fails, panics or does    *)
(* not return never prevents the others; c.Wait() stays blocked until every    *)
(* accepted job returned and its result satisfies errors.Is for every job      *)
(* failure.                                                                    *)
(***************************************************************************)
EXTENDS Integers, Sequences, FiniteSets, TLC, Json

CONSTANTS Jobs, Waiters, Kinds, Depth

VARIABLES ucfg, acc, fin, started, ended, st, hist
vars == <<ucfg, acc, fin, started, ended, st, hist>>
view == <<ucfg, acc, fin, started, ended, st>>

AddId(j) == "add_" \o j
OpIds == {AddId(j) : j \in Jobs} \cup Waiters \cup {"cs", "burst"}

Init == /\ ucfg \in [Jobs -> [kind : Kinds]]
        /\ acc = {} /\ fin = {} /\ started = FALSE /\ ended = FALSE
        /\ st = [o \in OpIds |-> "idle"] /\ hist = <<>>

R(k) == [k |-> k, must |-> {}, pan |-> "any", nil |-> "any"]
Fail(j) == IF ucfg[j].kind = "error" THEN {"e:" \o j} ELSE IF ucfg[j].kind = "panic" THEN {"p:" \o j} ELSE {}
Agg(ac) == [k |-> "agg", must |-> UNION {Fail(j) : j \in ac},
            pan |-> IF \E j \in ac : ucfg[j].kind = "panic" THEN "t" ELSE "any", nil |-> "any"]

Commit(op, id, arg, ac, fi, sd, en, st2, res2) ==
  LET shut  == sd /\ en                       \* the cleanup phase runs
      alld  == shut /\ ac \subseteq fi
      wdone == {w \in Waiters : st2[w] = "pend" /\ alld}
      st3   == [o \in OpIds |-> IF o \in wdone THEN "done" ELSE st2[o]]
      Allow(o) == IF o \in wdone THEN {Agg(ac)} ELSE IF st3[o] = "pend" THEN {R("blocked")} ELSE res2[o]
      listed == {o \in OpIds : st3[o] = "pend" \/ (st3[o] = "done" /\ st[o] # "done")}
  IN /\ acc' = ac /\ fin' = fi /\ started' = sd /\ ended' = en /\ st' = st3 /\ ucfg' = ucfg
     /\ hist' = Append(hist, [op |-> op, id |-> id, arg |-> arg,
                  exp |-> [ops |-> {[id |-> o, allow |-> Allow(o)] : o \in listed},
                           cnt |-> {[id |-> j, allow |-> IF shut /\ j \in ac THEN {1} ELSE {0}] : j \in Jobs},
                           started |-> {}, seen |-> {}]])

NoRes == [o \in OpIds |-> {}]

\* an Add before the shutdown event is accepted (also before the service is started)
AddOp(j) == /\ j \notin acc /\ ~ended
            /\ Commit("add", AddId(j), j, acc \cup {j}, fin, started, ended,
                      [st EXCEPT ![AddId(j)] = "done"], [NoRes EXCEPT ![AddId(j)] = {R("nil")}])

\* Adds racing the shutdown: every Add returns nil before Close() is called
Names(js) == IF js = {"j1"} THEN "j1" ELSE IF js = {"j2"} THEN "j2" ELSE IF js = {"j3"} THEN "j3"
             ELSE IF js = {"j1", "j2"} THEN "j1,j2" ELSE IF js = {"j1", "j3"} THEN "j1,j3"
             ELSE IF js = {"j2", "j3"} THEN "j2,j3" ELSE "j1,j2,j3"
BurstOp(js) == /\ started /\ ~ended /\ js # {} /\ js \cap acc = {} /\ st["burst"] = "idle"
               /\ Commit("burst", "burst", Names(js), acc \cup js, fin, started, TRUE,
                         [st EXCEPT !["burst"] = "done"], [NoRes EXCEPT !["burst"] = {R("nil")}])

StartOp == /\ ~started
           /\ Commit("start", "cs", "none", acc, fin, TRUE, ended, [st EXCEPT !["cs"] = "done"], [NoRes EXCEPT !["cs"] = {R("nil")}])

CancelOp == /\ ~ended /\ Commit("cancel", "none", "none", acc, fin, started, TRUE, st, NoRes)
CloseOp  == /\ ~ended /\ started /\ Commit("close", "none", "none", acc, fin, started, TRUE, st, NoRes)

FinishOp(j) == /\ started /\ ended /\ j \in acc \ fin
               /\ Commit("finish", "none", j, acc, fin \cup {j}, started, ended, st, NoRes)

WaitOp(w) == /\ started /\ st[w] = "idle"
             /\ Commit("wait", w, "none", acc, fin, started, ended, [st EXCEPT ![w] = "pend"], NoRes)

Step == \/ \E j \in Jobs : AddOp(j) \/ FinishOp(j)
        \/ \E js \in SUBSET Jobs : BurstOp(js)
        \/ \E w \in Waiters : WaitOp(w)
        \/ StartOp \/ CancelOp \/ CloseOp
Next == Len(hist) < Depth /\ Step
Spec == Init /\ [][Next]_vars

Inv == fin \subseteq acc /\ (\A w \in Waiters : st[w] = "done" => acc \subseteq fin)

Units == {[name |-> j, kind |-> ucfg[j].kind, mode |-> "gate", pre |-> "new"] : j \in Jobs}
Beh(h) == [cfg |-> [comp |-> "cleanup", units |-> Units, workers |-> 0, cont |-> FALSE], steps |-> h]
EmitAll  == (Len(hist) < Depth /\ ENABLED Step) \/ PrintT(<<"BEH", ToJson(Beh(hist))>>)
EmitEdge == PrintT(<<"BEH", ToJson(Beh(hist'))>>)
=============================================================================
