SPECIFICATION Spec
CONSTANTS
  Modes = {"gate", "ctx"}
  Paces = {"zero", "never"}
  ShutKinds = {"error"}
  CleanKinds = {"absent"}
  EhKinds = {"ok"}
  CtxOuts = {"error"}
  FinKinds = {"ok", "error", "canceled", "panic"}
  MaxRuns = 3
  Waiters = {"w1"}
  Closers = {"c1"}
  Depth = 4
  Bursts = FALSE
  PanicLoses = "either"
  StaleTick = "doc"
INVARIANT Inv

CONSTRAINT EmitAll
CHECK_DEADLOCK FALSE
