SPECIFICATION Spec
CONSTANTS
  Modes = {"gate", "ctx"}
  Paces = {"zero", "never"}
  ShutKinds = {"error"}
  CleanKinds = {"absent"}
  EhKinds = {"ok"}
  CtxOuts = {"error"}
  FinKinds = {"ok", "error", "canceled", "panic"}
  MaxRuns = 3
  Waiters = {"w1"}
  Closers = {"c1"}
  Depth = 5
  Bursts = TRUE
  PanicLoses = "either"
  StaleTick = "either"
INVARIANT Inv
PROPERTY NoRestartAfterStop
CONSTRAINT EmitAll
CHECK_DEADLOCK FALSE
