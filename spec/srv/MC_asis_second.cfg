SPECIFICATION Spec
CONSTANTS
  Starters = {s1, s2}
  Closers = {}
  Waiters = {w1}
  RunKinds = {"ok"}
  ShutKinds = {"absent"}
  CleanKinds = {"absent"}
  EhKinds = {"absent"}
  ParentCancel = FALSE
  FixLateStore = TRUE
  FixSecondStart = FALSE
INVARIANTS TypeOK RunAtMostOnce ShutdownOnce CleanupOnce HandlerAtMostOnce AtMostOneStartNil ExactlyOneStartNil
           Ordered WaitCovers NotRunningAfterWait Complete WaitJustified
CHECK_DEADLOCK FALSE
