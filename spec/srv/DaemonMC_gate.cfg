SPECIFICATION Spec
CONSTANTS
  Mode = "gate"
  Pace = "zero"
  CtxOut = "error"
  FinKinds = {"ok", "error", "canceled", "panic"}
  MaxRuns = 4
  RecoverFix = TRUE
  StaleInit = FALSE
INVARIANT Inv
INVARIANT CollectedSurvive
PROPERTY Stops
CHECK_DEADLOCK FALSE
