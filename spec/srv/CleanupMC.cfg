SPECIFICATION Spec
CONSTANTS
  Jobs = {j1, j2, j3}
  FixDrain = TRUE
INVARIANTS AtMostOnce AllAcceptedRun Completes
PROPERTIES Settles
CHECK_DEADLOCK FALSE
