SPECIFICATION Spec
CONSTANTS
  Jobs = {"j1", "j2", "j3"}
  Procs = {p1, p2}
  Outcomes = {"ok", "fail", "stop"}
  Collect = TRUE
  FixDrain = TRUE
INVARIANTS AtMostOnce AllAcceptedRun AllSurfaced Completes
PROPERTIES Settles
CHECK_DEADLOCK FALSE
