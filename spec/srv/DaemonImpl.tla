----------------------------- MODULE DaemonImpl -----------------------------
(* Implementation-shaped model of srv.Daemon (implementations.go:376-429) and  *)
(* of the part of Service.Start (service.go:119-188) it runs under: the        *)
(* restart loop against Close / cancellation against the base run returning    *)
(* against the timer.  One action per step that another goroutine can observe. *)
(*                                                                            *)
(* Goroutines: the loop (= the daemon's Run, called by the Service's run        *)
(* goroutine), the Service's shutdown goroutine (<-ctx.Done(); Shutdown() which *)
(* calls the base Shutdown and closes shouldShutdown), the tail of the run      *)
(* goroutine (deferred s.cancel(), <-shutdownSignal, Cleanup, isFinished), the  *)
(* runtime timer.  External (client) actions: cancel of the context / Close,    *)
(* the base run returning with an outcome.  A base run in Mode "ctx" returns    *)
(* by itself (outcome CtxOut) once its context has ended (internal).            *)
(*                                                                            *)
(* Switches (fixed / as-is):                                                    *)
(*   RecoverFix  TRUE = proposed fixes/srv-daemon-keep-errors-on-panic.diff:    *)
(*               `defer erc.Recover(ec)` in Run; FALSE = code as it is: a panic *)
(*               of the base run leaves Run without a return value.             *)
(*   StaleInit   TRUE = code as it is (go.mod < 1.23): time.NewTimer(0) has     *)
(*               fired and its tick is never drained; FALSE = the documented    *)
(*               pacing (`<-timer.C` after NewTimer; not proposed as a patch:   *)
(*               srv's own TestDaemon/CloseTriggers relies on the stale tick).  *)
(***************************************************************************)
EXTENDS Integers, FiniteSets, TLC

CONSTANTS Mode, Pace, CtxOut, FinKinds, MaxRuns, RecoverFix, StaleInit

VARIABLES pc,        \* loop: "call" | "inrun" | "panic" | "check" | "select" | "ret" | "done"
          ctx,       \* the daemon service's context has ended
          tick,      \* a value is waiting in timer.C
          armed,     \* the timer will fire (minInterval 0)
          inrun,     \* a base run is in progress
          runs,      \* base runs invoked
          kind,      \* outcome of base run n ("none" while it has not returned)
          ec,        \* the loop's collector (tokens: n = error of run n, -n = panic of run n)
          result,    \* what the daemon's Run handed to the Service ("none" before)
          shutPc,    \* shutdown goroutine: "wait" | "called" | "done"
          shutClosed,\* close(shouldShutdown) executed
          mainPc,    \* run goroutine tail: "run" | "waitshut" | "fin"
          late,      \* base runs (other than the first) invoked after the context ended
          retLive,   \* runs that returned while the context was live
          chkLive    \* runs whose return value the loop examined (line 408) before the context ended
vars == <<pc, ctx, tick, armed, inrun, runs, kind, ec, result, shutPc, shutClosed, mainPc, late, retLive, chkLive>>

CtxErr == {"canceled", "deadline"}

Init == /\ pc = "call" /\ ctx \in BOOLEAN /\ tick = StaleInit /\ armed = FALSE
        /\ inrun = FALSE /\ runs = 0 /\ kind = [n \in 1..MaxRuns |-> "none"]
        /\ ec = {} /\ result = "none" /\ shutPc = "wait" /\ shutClosed = FALSE /\ mainPc = "run"
        /\ late = 0 /\ retLive = {} /\ chkLive = {}

(* ---- the loop ---- *)
\* line 403-407: tctx := WithCancel(ctx); baseRun(tctx)
Call == /\ pc = "call"
        /\ runs' = runs + 1 /\ inrun' = TRUE /\ pc' = "inrun"
        /\ late' = IF ctx /\ runs >= 1 THEN late + 1 ELSE late
        /\ UNCHANGED <<ctx, tick, armed, kind, ec, result, shutPc, shutClosed, mainPc, retLive, chkLive>>

Returned(k) == /\ inrun' = FALSE /\ kind' = [kind EXCEPT ![runs] = k]
               /\ retLive' = IF ctx THEN retLive ELSE retLive \cup {runs}
               /\ pc' = IF k = "panic" THEN "panic" ELSE "check"
               /\ UNCHANGED <<ctx, tick, armed, runs, ec, result, shutPc, shutClosed, mainPc, late, chkLive>>

\* external: the base run returns because it wants to
BaseReturn(k) == pc = "inrun" /\ Returned(k)
\* internal: a base run that honours its context returns once that context has ended
BaseCtxReturn == pc = "inrun" /\ Mode = "ctx" /\ ctx /\ Returned(CtxOut)

\* a panic of the base run unwinds Run: deferred `re = ec.Resolve()` runs but nothing is returned
\* (as is); with RecoverFix the panic is added to ec and Run returns the aggregate
Panic == /\ pc = "panic" /\ pc' = "done"
         /\ IF RecoverFix THEN ec' = ec \cup {0 - runs} /\ result' = ec'
                         ELSE ec' = ec /\ result' = {0 - runs}
         /\ UNCHANGED <<ctx, tick, armed, inrun, runs, kind, shutPc, shutClosed, mainPc, late, retLive, chkLive>>

\* line 408-413: stop on a context error or an ended context, else collect and re-arm the timer
\* (Reset does not drain timer.C)
Check == /\ pc = "check"
         /\ IF kind[runs] \in CtxErr \/ ctx
              THEN pc' = "ret" /\ UNCHANGED <<ec, armed, chkLive>>
              ELSE /\ ec' = IF kind[runs] = "error" THEN ec \cup {runs} ELSE ec
                   /\ chkLive' = chkLive \cup {runs}
                   /\ armed' = (Pace = "zero") /\ pc' = "select"
         /\ UNCHANGED <<ctx, tick, inrun, runs, kind, result, shutPc, shutClosed, mainPc, late, retLive>>

TimerFire == /\ armed /\ armed' = FALSE /\ tick' = TRUE
             /\ UNCHANGED <<pc, ctx, inrun, runs, kind, ec, result, shutPc, shutClosed, mainPc, late, retLive, chkLive>>

\* line 415-422: select takes any ready arm
SelectStop == /\ pc = "select" /\ (shutClosed \/ ctx) /\ pc' = "ret"
              /\ UNCHANGED <<ctx, tick, armed, inrun, runs, kind, ec, result, shutPc, shutClosed, mainPc, late, retLive, chkLive>>
\* (runs < MaxRuns: bound of the model - the timer arm is not taken any more, the others are)
SelectTick == /\ pc = "select" /\ tick /\ runs < MaxRuns /\ tick' = FALSE /\ pc' = "call"
              /\ UNCHANGED <<ctx, armed, inrun, runs, kind, ec, result, shutPc, shutClosed, mainPc, late, retLive, chkLive>>

Ret == /\ pc = "ret" /\ pc' = "done" /\ result' = ec
       /\ UNCHANGED <<ctx, tick, armed, inrun, runs, kind, ec, shutPc, shutClosed, mainPc, late, retLive, chkLive>>

(* ---- the Service around it ---- *)
Cancel == /\ ~ctx /\ ctx' = TRUE      \* external: parent cancelled, or Close()
          /\ UNCHANGED <<pc, tick, armed, inrun, runs, kind, ec, result, shutPc, shutClosed, mainPc, late, retLive, chkLive>>
\* service.go:183 deferred s.cancel() once Run returned
MainCancel == /\ mainPc = "run" /\ pc = "done" /\ mainPc' = "waitshut" /\ ctx' = TRUE
              /\ UNCHANGED <<pc, tick, armed, inrun, runs, kind, ec, result, shutPc, shutClosed, late, retLive, chkLive>>
\* service.go:146-154 <-ctx.Done(); shutdown() = base Shutdown, then close(shouldShutdown)
Shut1 == /\ shutPc = "wait" /\ ctx /\ shutPc' = "called"
         /\ UNCHANGED <<pc, ctx, tick, armed, inrun, runs, kind, ec, result, shutClosed, mainPc, late, retLive, chkLive>>
Shut2 == /\ shutPc = "called" /\ shutPc' = "done" /\ shutClosed' = TRUE
         /\ UNCHANGED <<pc, ctx, tick, armed, inrun, runs, kind, ec, result, mainPc, late, retLive, chkLive>>
\* service.go:170-178 <-shutdownSignal; Cleanup (base Cleanup); isFinished
MainFin == /\ mainPc = "waitshut" /\ shutPc = "done" /\ mainPc' = "fin"
           /\ UNCHANGED <<pc, ctx, tick, armed, inrun, runs, kind, ec, result, shutPc, shutClosed, late, retLive, chkLive>>

Internal == Call \/ BaseCtxReturn \/ Panic \/ Check \/ TimerFire \/ SelectStop \/ SelectTick \/ Ret
            \/ MainCancel \/ Shut1 \/ Shut2 \/ MainFin
External == Cancel \/ \E k \in FinKinds : BaseReturn(k)
Next == Internal \/ External
Spec == Init /\ [][Next]_vars /\ WF_vars(Internal)

Finished == mainPc = "fin"
Panicked == \E n \in 1..MaxRuns : kind[n] = "panic"

(* ---- invariants ---- *)
\* Wait() (returns when Finished) => the loop has returned, no base run is in progress, Shutdown was called
WaitCovers == Finished => (pc = "done" /\ ~inrun /\ shutPc = "done")
ShutdownAfterCtx == shutPc # "wait" => ctx
\* the loop never examines the context and then starts a run: at most one base run can be started
\* after the context ended - when cancel lands between line 408 and a select whose timer arm is ready
AtMostOneLate == late <= 1
LateOnlyWithTick == late = 1 => (Pace = "zero" \/ StaleInit)
\* as is, that one late start exists (the expected violation is the non-vacuity test of `late`)
NoLateStart == late = 0
\* D4: collected are exactly the errors of runs the loop examined while the context was live ...
CollectedExact == (pc = "done" /\ ~Panicked) =>
                    /\ result = {n \in chkLive : kind[n] = "error"}
                    /\ \A n \in 1..MaxRuns : (n \notin retLive \/ kind[n] \in CtxErr) => n \notin result
\* ... and they survive a later panic (documented; violated as is)
CollectedSurvive == (pc = "done" /\ Panicked) => {n \in chkLive : kind[n] = "error"} \subseteq result
PanicReported == (pc = "done" /\ Panicked) => \E n \in 1..MaxRuns : (0 - n) \in result
\* documented pacing at its extreme: with an interval that never elapses there is no restart
PacedRestart == Pace = "never" => runs <= 1
Inv == WaitCovers /\ ShutdownAfterCtx /\ AtMostOneLate /\ LateOnlyWithTick /\ CollectedExact /\ PanicReported

(* ---- liveness: after Close / cancellation the daemon ends unless a base run ignores its context ---- *)
Stops == ctx ~> (Finished \/ (Mode = "gate" /\ inrun))
Quiescent == ~ENABLED Internal
=============================================================================
