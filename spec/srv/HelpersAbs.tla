---------------------------- MODULE HelpersAbs ----------------------------
(* Extra check X03, part "helpers": the context helpers of package srv         *)
(* (/repo/srv/context.go) - SetShutdownSignal / GetShutdownSignal /            *)
(* HasShutdownSignal, SetBaseContext / GetBaseContext / HasBaseContext,        *)
(* WithOrchestrator / SetOrchestrator / GetOrchestrator / HasOrchestrator,     *)
(* WithCleanup / HasCleanup / AddCleanup / AddCleanupError.  The *doc          *)
(* comments* of these functions are the specification; an abstract,            *)
(* quiescence-stepped model of a small world of context slots.                 *)
(*                                                                            *)
(* World: slot "c0" is a cancellable root the harness makes with               *)
(* context.WithCancel(context.Background()); every helper that returns a       *)
(* context fills the next free derived slot (Slots, in the order of SlotOrd).  *)
(* A derived slot records its parent and what the helper attached to it; a     *)
(* lookup finds the attachment of the nearest ancestor-or-self (context.Value  *)
(* semantics); cancellation propagates to all descendants (context.WithCancel  *)
(* semantics) and never upwards.                                               *)
(*                                                                            *)
(* Driver steps (every step is followed by quiescence and an expectation):     *)
(*   setsig(src)->dst     dst := srv.SetShutdownSignal(src)                    *)
(*   sigcall(c)           srv.GetShutdownSignal(c)()    ok | panic (none set)  *)
(*   setbase(src)->dst    dst := srv.SetBaseContext(src)                       *)
(*   withorch(src)->dst   dst := srv.WithOrchestrator(src)  (new orchestrator) *)
(*   setorch(src,o)->dst  dst := srv.SetOrchestrator(src, o), o made earlier   *)
(*   withcleanup(src)->dst dst := srv.WithCleanup(src)                         *)
(*   addcleanup(c,j) / adderr(c,j)  srv.AddCleanup(c, job j) resp.             *)
(*                        srv.AddCleanupError(c, sentinel of j)  ok | panic    *)
(*   cancel               the root's CancelFunc                                *)
(*   owait(o)             go o.Service().Wait()  (the only operation that can  *)
(*                        block; its result is judged when it has returned)    *)
(* The query helpers are not steps: after EVERY step the harness probes        *)
(* Has{ShutdownSignal,BaseContext,Orchestrator,Cleanup}(c), GetBaseContext(c)  *)
(* (which slot, by ==, or panic) and GetOrchestrator(c) (which orchestrator,   *)
(* by ==, or panic) for every slot in use, ctx.Err() of every slot,            *)
(* o.Service().Running() of every orchestrator made so far, the invocation     *)
(* count of every cleanup job, and the pending Wait operations; the whole      *)
(* table is part of the expectation (exp) that TLC prints with the step.       *)
(*                                                                            *)
(* What the docs say (context.go) and how it is read here:                     *)
(*  - GetShutdownSignal (l.144-157): "To cancel all contexts that descend from *)
(*    the context created by SetShutdown callers must call the cancelfunction  *)
(*    returned"; panics with ErrInvariantViolation when none was set.  Read:   *)
(*    the context SetShutdownSignal returned and its descendants are           *)
(*    cancelled, its parent is not.                                            *)
(*  - GetBaseContext (l.180-193): returns the context SetBaseContext was       *)
(*    called with; panics (ErrInvariantViolation) when none is attached.       *)
(*  - WithOrchestrator (l.26-58): "creates a new *Orchestrator, starts the     *)
(*    associated service, and attaches it"; the orchestrator's service runs    *)
(*    until the context it was started with is cancelled, then Wait returns.   *)
(*  - SetOrchestrator (l.60-69): attaches; an orchestrator whose service runs  *)
(*    already is not started again (it keeps the context it was started with). *)
(*  - WithCleanup (l.95-107): adds a Cleanup service to the attached           *)
(*    orchestrator "or creates the orchestrator if needed".                    *)
(*  - AddCleanup (l.115-121): "Raises an invariant failure if the cleanup      *)
(*    service was not previously configured, or if you attempt to add a new    *)
(*    cleanup function while shutdown is running"; cleanup functions run       *)
(*    during shutdown, i.e. only after the context the orchestrator was        *)
(*    started with is cancelled, each exactly once.                            *)
(*  - AddCleanupError (l.123-129): the error "is returned when that service    *)
(*    shuts down": the orchestrator service's Wait reports it (errors.Is).     *)
(*                                                                            *)
(* Documented-vs-actual divergences (constants with values "doc" | "code" |    *)
(* "either"; the registered configurations use "either": both outcomes are     *)
(* allowed, the model continues with the code's, field `branch`):              *)
(*  NoopSecondSignal  SetShutdownSignal l.136-137 "If a shutdown function is   *)
(*     already set on this context, this operation is a noop"; the code        *)
(*     (l.138-142) always derives a new cancellable child whose CancelFunc     *)
(*     shadows the outer one.  Observable at sigcall(c) below two nested       *)
(*     SetShutdownSignal contexts: code cancels from the inner one, the        *)
(*     documented no-op would cancel from the outermost one.                   *)
(*  PanicSecondBase   SetBaseContext l.173-174 "If a base context is already   *)
(*     set on this context, this operation panics with an invariant            *)
(*     violation"; the code (l.175-178) shadows silently.                      *)
(*  PanicSecondOrch   WithOrchestrator l.52-53 / SetOrchestrator l.60-61 "If   *)
(*     an Orchestrator is already set on the context, this operation panics    *)
(*     with an invariant violation"; the code attaches a second orchestrator   *)
(*     that shadows the first.                                                 *)
(*                                                                            *)
(* Where the docs are silent - recorded as observed:                           *)
(*  FinishedOrch = "panic": SetOrchestrator with an orchestrator whose service *)
(*     has already returned panics (fun.Invariant.Must(svc.Start(ctx)) gets    *)
(*     ErrServiceReturned, context.go:63-66).                                  *)
(*  RunningAfterEnd = FALSE: Service().Running() is false once the service     *)
(*     returned (service.go:169).                                              *)
(*  A second WithCleanup below the first adds a second Cleanup service to the  *)
(*     same orchestrator; AddCleanup reaches the nearest one.                  *)
(*                                                                            *)
(* Deliberate restrictions (racy or covered elsewhere): orchestrators and      *)
(* cleanup services are only created from live (not cancelled) contexts and    *)
(* WithCleanup only below a running orchestrator - Orchestrator.Add on a       *)
(* finished orchestrator and Start with a cancelled context are the business   *)
(* of OrchAbs / CleanupAbs (C11).  Cleanup jobs are not gated (they return at  *)
(* once): the order / parallelism of the shutdown pool is CleanupAbs's.        *)
(* Jobs are added in the order of JobOrd (they are interchangeable).           *)
(***************************************************************************)
EXTENDS Integers, Sequences, FiniteSets, TLC, Json

CONSTANTS Slots, Orchs, Jobs, Kinds, Depth, OpSet,
          NoopSecondSignal, PanicSecondBase, PanicSecondOrch,
          FinishedOrch, RunningAfterEnd

ASSUME /\ NoopSecondSignal \in {"doc", "code", "either"}
       /\ PanicSecondBase \in {"doc", "code", "either"}
       /\ PanicSecondOrch \in {"doc", "code", "either"}
       /\ FinishedOrch \in {"panic", "ok"} /\ RunningAfterEnd \in BOOLEAN

VARIABLES ucfg, s, hist
vars == <<ucfg, s, hist>>
view == <<ucfg, s>>

SlotOrd == <<"c1", "c2", "c3", "c4">>
OrchOrd == <<"o1", "o2", "o3", "o4">>
JobOrd  == <<"j1", "j2", "j3">>
AllSlots == {"c0"} \cup Slots
NoAtt == [sig |-> FALSE, base |-> "none", orch |-> "none", cl |-> FALSE]

Init == /\ ucfg \in [Jobs -> Kinds]
        /\ s = [par  |-> [c \in Slots |-> "none"],        \* parent of a derived slot in use
                att  |-> [c \in AllSlots |-> NoAtt],      \* what the helper attached at the slot
                canc |-> {},                              \* cancelled slots
                octx |-> [o \in Orchs |-> "none"],        \* slot the orchestrator's service was started with
                clo  |-> [c \in AllSlots |-> "none"],     \* orchestrator the Cleanup service made at this slot was added to
                jq   |-> [j \in Jobs |-> "none"],         \* slot of the cleanup service that accepted the job
                ran  |-> [j \in Jobs |-> 0],              \* invocations of the job
                wst  |-> [o \in Orchs |-> "idle"]]        \* the Wait on the orchestrator's service
        /\ hist = <<>>

Par(x, c) == IF c = "c0" THEN "none" ELSE x.par[c]
Used(x, c) == c = "c0" \/ x.par[c] # "none"
UsedSlots(x) == {c \in AllSlots : Used(x, c)}
Made(x) == {o \in Orchs : x.octx[o] # "none"}
HasAt(x, c, k) == CASE k = "sig" -> x.att[c].sig
                    [] k = "base" -> x.att[c].base # "none"
                    [] k = "orch" -> x.att[c].orch # "none"
                    [] k = "cl" -> x.att[c].cl
RECURSIVE Find(_, _, _)
Find(x, c, k) == IF c = "none" THEN "none" ELSE IF HasAt(x, c, k) THEN c ELSE Find(x, Par(x, c), k)
RECURSIVE Anc(_, _)
Anc(x, c) == IF c = "none" THEN {} ELSE {c} \cup Anc(x, Par(x, c))
Desc(x, c) == {d \in UsedSlots(x) : c \in Anc(x, d)}
\* the outermost ancestor-or-self made by SetShutdownSignal (the only one that would exist under the documented no-op)
Outer(x, c) == CHOOSE f \in Anc(x, c) : x.att[f].sig /\ \A g \in Anc(x, f) \ {f} : ~x.att[g].sig

First(ord, S) == IF \E i \in 1..Len(ord) : ord[i] \in S
                 THEN ord[CHOOSE i \in 1..Len(ord) : ord[i] \in S /\ \A k \in 1..(i - 1) : ord[k] \notin S]
                 ELSE "none"
NextSlot(x) == First(SlotOrd, Slots \ UsedSlots(x))
NextOrch(x) == First(OrchOrd, Orchs \ Made(x))
NextJob(x)  == First(JobOrd, {j \in Jobs : x.jq[j] = "none"})

Ended(x, o) == x.octx[o] \in x.canc            \* the orchestrator's service has returned (at quiescence)
OrchOf(x, j) == x.clo[x.jq[j]]

\* a new derived slot: child of src, cancelled at once when src is
Derive(x, src, dst, a) == [x EXCEPT !.par[dst] = src, !.att[dst] = a,
                                    !.canc = IF src \in x.canc THEN x.canc \cup {dst} ELSE x.canc]

\* what follows from the cancellations between old and new: cleanup jobs of orchestrators that ended run (once);
\* pending Waits on them return
Settle(old, x) ==
  LET trig(j) == x.jq[j] # "none" /\ Ended(x, OrchOf(x, j)) /\ ~(old.jq[j] # "none" /\ Ended(old, OrchOf(old, j)))
  IN [x EXCEPT !.ran = [j \in Jobs |-> IF trig(j) THEN x.ran[j] + 1 ELSE x.ran[j]],
               !.wst = [o \in Orchs |-> IF x.wst[o] = "pend" /\ Ended(x, o) THEN "done" ELSE x.wst[o]]]

Fail(j) == IF ucfg[j] \in {"error", "errval"} THEN {"e:" \o j} ELSE IF ucfg[j] = "panic" THEN {"p:" \o j} ELSE {}
AllSent == UNION {{"e:" \o j, "p:" \o j} : j \in Jobs}
Agg(x, o) == LET mine == {j \in Jobs : x.jq[j] # "none" /\ OrchOf(x, j) = o}
                 must == UNION {Fail(j) : j \in mine}
             IN [k |-> "agg", must |-> must, forbid |-> AllSent \ must,
                 nil |-> IF must = {} THEN "t" ELSE "f",
                 pan |-> IF \E j \in mine : ucfg[j] = "panic" THEN "t" ELSE "f"]
Blocked == [k |-> "blocked", must |-> {}, forbid |-> {}, nil |-> "any", pan |-> "any"]

B(b) == IF b THEN "true" ELSE "false"
Probe(old, x) ==
  [has |-> {[c |-> c, sig |-> B(Find(x, c, "sig") # "none"), base |-> B(Find(x, c, "base") # "none"),
             orch |-> B(Find(x, c, "orch") # "none"), cl |-> B(Find(x, c, "cl") # "none")] : c \in UsedSlots(x)},
   getbase |-> {[c |-> c, r |-> IF Find(x, c, "base") = "none" THEN "panic" ELSE x.att[Find(x, c, "base")].base] : c \in UsedSlots(x)},
   getorch |-> {[c |-> c, r |-> IF Find(x, c, "orch") = "none" THEN "panic" ELSE x.att[Find(x, c, "orch")].orch] : c \in UsedSlots(x)},
   running |-> {[o |-> o, r |-> B(IF Ended(x, o) THEN RunningAfterEnd ELSE TRUE)] : o \in Made(x)},
   \* (an AddCleanupError "job" is the library's own closure: nothing the harness could count)
   cnt |-> {[id |-> j, allow |-> IF ucfg[j] = "errval" THEN {0} ELSE {x.ran[j]}] : j \in Jobs},
   ops |-> {[id |-> "w_" \o o, allow |-> IF x.wst[o] = "pend" THEN {Blocked} ELSE {Agg(x, o)}]
              : o \in {p \in Orchs : x.wst[p] = "pend" \/ (x.wst[p] = "done" /\ old.wst[p] # "done")}}]

Alt(r, x) == [res |-> r, canc |-> x.canc]

\* x = the state the model continues with (the code's outcome), r its result; alts = everything allowed
Commit(op, id, arg, arg2, x0, r, alts) ==
  LET x == Settle(s, x0)
  IN /\ s' = x /\ UNCHANGED ucfg
     /\ hist' = Append(hist, [op |-> op, id |-> id, arg |-> arg, arg2 |-> arg2,
                  exp |-> [alts |-> alts \cup {Alt(r, x)}, branch |-> Alt(r, x)] @@ Probe(s, x)])

Mode(m, second) == IF second THEN m ELSE "code"

SetSig(src) ==
  LET dst == NextSlot(s)
      m == Mode(NoopSecondSignal, Find(s, src, "sig") # "none")
      x == Derive(s, src, dst, [NoAtt EXCEPT !.sig = (m # "doc")])   \* doc: dst behaves exactly like src
  IN /\ "setsig" \in OpSet /\ dst # "none" /\ Commit("setsig", dst, src, "none", x, "ok", {})

SigCall(c) ==
  LET f == Find(s, c, "sig")
      xc == [s EXCEPT !.canc = s.canc \cup Desc(s, f)]
      xd == [s EXCEPT !.canc = s.canc \cup Desc(s, Outer(s, c))]
  IN /\ "sigcall" \in OpSet
     /\ IF f = "none" THEN Commit("sigcall", "none", c, "none", s, "panic", {})
        ELSE Commit("sigcall", "none", c, "none", xc, "ok",
                    IF NoopSecondSignal = "either" THEN {Alt("ok", xd)} ELSE {})

SetBase(src) ==
  LET dst == NextSlot(s)
      m == Mode(PanicSecondBase, Find(s, src, "base") # "none")
      x == Derive(s, src, dst, [NoAtt EXCEPT !.base = src])
  IN /\ "setbase" \in OpSet /\ dst # "none"
     /\ IF m = "doc" THEN Commit("setbase", "none", src, "none", s, "panic", {})
        ELSE Commit("setbase", dst, src, "none", x, "ok", IF m = "either" THEN {Alt("panic", s)} ELSE {})

WithOrch(src) ==
  LET dst == NextSlot(s)
      o == NextOrch(s)
      m == Mode(PanicSecondOrch, Find(s, src, "orch") # "none")
      x == [Derive(s, src, dst, [NoAtt EXCEPT !.orch = o]) EXCEPT !.octx[o] = src]
  IN /\ "withorch" \in OpSet /\ dst # "none" /\ o # "none" /\ src \notin s.canc
     /\ IF m = "doc" THEN Commit("withorch", "none", src, "none", s, "panic", {})
        ELSE Commit("withorch", dst, src, o, x, "ok", IF m = "either" THEN {Alt("panic", s)} ELSE {})

\* o was made before; a running one is not started again, a finished one cannot be started (as observed: panic)
SetOrch(src, o) ==
  LET dst == NextSlot(s)
      m == Mode(PanicSecondOrch, Find(s, src, "orch") # "none")
      x == Derive(s, src, dst, [NoAtt EXCEPT !.orch = o])
  IN /\ "setorch" \in OpSet /\ dst # "none" /\ o \in Made(s)
     /\ IF m = "doc" \/ (Ended(s, o) /\ FinishedOrch = "panic")
        THEN Commit("setorch", "none", src, o, s, "panic", {})
        ELSE Commit("setorch", dst, src, o, x, "ok", IF m = "either" THEN {Alt("panic", s)} ELSE {})

WithCleanup(src) ==
  LET dst == NextSlot(s)
      f == Find(s, src, "orch")
      o == IF f = "none" THEN NextOrch(s) ELSE s.att[f].orch
      a == IF f = "none" THEN [NoAtt EXCEPT !.orch = o, !.cl = TRUE] ELSE [NoAtt EXCEPT !.cl = TRUE]
      x == [Derive(s, src, dst, a) EXCEPT !.octx[o] = IF f = "none" THEN src ELSE @, !.clo[dst] = o]
  IN /\ "withcleanup" \in OpSet /\ dst # "none" /\ o # "none" /\ src \notin s.canc
     /\ (f # "none" => ~Ended(s, o))
     /\ Commit("withcleanup", dst, src, o, x, "ok", {})

AddJob(c) ==
  LET j == NextJob(s)
      f == Find(s, c, "cl")
      op == IF ucfg[j] = "errval" THEN "adderr" ELSE "addcleanup"
  IN /\ "add" \in OpSet /\ j # "none"
     /\ IF f = "none" \/ Ended(s, s.clo[f]) THEN Commit(op, j, c, "none", s, "panic", {})
        ELSE Commit(op, j, c, "none", [s EXCEPT !.jq[j] = f], "ok", {})

Cancel == /\ "cancel" \in OpSet /\ "c0" \notin s.canc
          /\ Commit("cancel", "none", "c0", "none", [s EXCEPT !.canc = UsedSlots(s)], "ok", {})

OWait(o) == /\ "owait" \in OpSet /\ o \in Made(s) /\ s.wst[o] = "idle"
            /\ Commit("owait", "w_" \o o, "none", o, [s EXCEPT !.wst[o] = "pend"], "ok", {})

Step == \/ \E c \in UsedSlots(s) : \/ SetSig(c) \/ SigCall(c) \/ SetBase(c) \/ WithOrch(c) \/ WithCleanup(c) \/ AddJob(c)
                                   \/ \E o \in Orchs : SetOrch(c, o)
        \/ Cancel
        \/ \E o \in Orchs : OWait(o)
Next == Len(hist) < Depth /\ Step
Spec == Init /\ [][Next]_vars

\* sanity of the abstract world
Inv == /\ \A c \in UsedSlots(s), d \in UsedSlots(s) : (c \in s.canc /\ c \in Anc(s, d)) => d \in s.canc   \* cancellation reaches every descendant
       /\ \A j \in Jobs : s.ran[j] <= 1                                                                  \* a job never runs twice
       /\ \A j \in Jobs : s.ran[j] = 1 => (s.jq[j] # "none" /\ Ended(s, OrchOf(s, j)))                   \* ... and only after shutdown began
       /\ \A j \in Jobs : (s.jq[j] # "none" /\ Ended(s, OrchOf(s, j))) => s.ran[j] = 1                   \* every accepted job ran once shutdown happened
       /\ \A o \in Orchs : s.wst[o] = "done" => Ended(s, o)                                              \* Wait returns only after the context ended
       /\ \A o \in Orchs : (s.wst[o] = "pend") => ~Ended(s, o)
       /\ \A c \in Slots : Used(s, c) => Used(s, s.par[c])
       /\ \A c \in AllSlots : s.clo[c] # "none" => (s.att[c].cl /\ s.clo[c] \in Made(s))

Cfg == [jobs |-> {[name |-> j, kind |-> ucfg[j]] : j \in Jobs},
        div |-> [NoopSecondSignal |-> NoopSecondSignal, PanicSecondBase |-> PanicSecondBase, PanicSecondOrch |-> PanicSecondOrch]]
Beh(h) == [cfg |-> Cfg, steps |-> h]
EmitAll  == (Len(hist) < Depth /\ ENABLED Step) \/ PrintT(<<"BEH", ToJson(Beh(hist))>>)
EmitEdge == PrintT(<<"BEH", ToJson(Beh(hist'))>>)
=============================================================================
