SPECIFICATION Spec
CONSTANTS
  Members = {a, b}
  Pres = {"new", "running"}
  FixAwaitRunning = FALSE
INVARIANTS TypeOK StartedAtMostOnce AwaitedAll CollectsAll NoStranded WaitJustified
CHECK_DEADLOCK FALSE
