SPECIFICATION Spec
CONSTANTS
  Members = {a, b, c}
  Pres = {"new", "running", "finished"}
  FixAwaitRunning = TRUE
INVARIANTS TypeOK StartedAtMostOnce AwaitedAll CollectsAll NoStranded WaitJustified
PROPERTIES Settles
CHECK_DEADLOCK FALSE
