SPECIFICATION Spec
CONSTANTS
  Slots = {"c1", "c2", "c3"}
  Orchs = {"o1", "o2"}
  Jobs = {"j1", "j2"}
  Kinds = {"error"}
  Depth = 8
  OpSet = {"setsig", "sigcall", "setbase", "withorch", "setorch", "withcleanup", "add", "cancel", "owait"}
  NoopSecondSignal = "either"
  PanicSecondBase = "either"
  PanicSecondOrch = "either"
  FinishedOrch = "panic"
  RunningAfterEnd = FALSE
INVARIANT Inv
VIEW view
ACTION_CONSTRAINT EmitEdge
CHECK_DEADLOCK FALSE
