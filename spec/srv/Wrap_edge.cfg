SPECIFICATION Spec
CONSTANTS
  Comps = {"worker", "wait", "broker"}
  Units = {"a", "b"}
  Kinds = {"ok", "error", "panic"}
  Modes = {"gate", "ctx"}
  Pres = {"new", "running", "finished"}
  Workers = {"k1", "k2"}
  Waiters = {"w1"}
  Depth = 9
  Hook = TRUE
  WorkerEarly = "either"
  WaitPanicRace = "either"
INVARIANT Inv
VIEW view
ACTION_CONSTRAINT EmitEdge
CHECK_DEADLOCK FALSE
