SPECIFICATION Spec
CONSTANTS
  Members = {"a", "b", "c", "d"}
  Waiters = {"w1", "w2"}
  Kinds = {"ok", "error", "panic", "eof", "canceled", "deadline"}
  Modes = {"gate", "ctx"}
  Pres = {"new", "running", "finished"}
  Depth = 14
INVARIANT Inv
CONSTRAINT EmitAll
CHECK_DEADLOCK FALSE
