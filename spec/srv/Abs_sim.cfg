SPECIFICATION Spec
CONSTANTS
  Starters = {"s1", "s2", "s3"}
  Closers = {"c1", "c2"}
  Waiters = {"w1", "w2"}
  RunKinds = {"absent", "ok", "error", "panic"}
  ShutKinds = {"absent", "ok", "error", "panic"}
  CleanKinds = {"absent", "ok", "error", "panic"}
  EhKinds = {"absent", "ok", "panic"}
  Modes = {"gate", "ctx"}
  HoldFins = {FALSE, TRUE}
  Holds = {"none", "checked", "launched"}
  Depth = 14
INVARIANT Inv
CONSTRAINT EmitAll
CHECK_DEADLOCK FALSE
