SPECIFICATION Spec
CONSTANTS
  Starters = {s1, s2}
  Closers = {}
  Waiters = {w1}
  RunKinds = {"ok", "panic"}
  ShutKinds = {"absent", "error"}
  CleanKinds = {"error"}
  EhKinds = {"absent", "ok"}
  ParentCancel = TRUE
  FixLateStore = TRUE
  FixSecondStart = TRUE
INVARIANTS TypeOK RunAtMostOnce ShutdownOnce CleanupOnce HandlerAtMostOnce AtMostOneStartNil ExactlyOneStartNil
           Ordered WaitCovers NotRunningAfterWait Complete WaitJustified
PROPERTIES Settles
CHECK_DEADLOCK FALSE
