---------------------------- MODULE CleanupImpl ----------------------------
(* Implementation-shaped specification of the srv.Cleanup service              *)
(* (/repo/srv/implementations.go:172-214), property C11.                       *)
(*                                                                            *)
(*   Run:      for { item, err := iter.ReadOne(ctx)   ReadOne returns ctx.Err() *)
(*                   if err != nil { return nil }     first (iterator.go:234),  *)
(*                   cache.PushBack(item) }            then Remove-else-Wait     *)
(*   Shutdown: pipe.Close()                            (after the context ended) *)
(*   Cleanup:  ParallelForEach(cache.PopIterator(), job, continue-on-error)      *)
(*             (after Run and Shutdown returned - C10)                           *)
(*                                                                            *)
(* External: queue.Add(job) by the client, cancelling the context.  FixDrain =  *)
(* FALSE is the code as pinned; TRUE is the code with                           *)
(* /verif/fixes/srv-cleanup-drops-queued-jobs.diff (Cleanup first moves what is *)
(* left in the closed queue to the cache).                                      *)
(***************************************************************************)
EXTENDS Integers, Sequences, FiniteSets, TLC

CONSTANTS Jobs, FixDrain

VARIABLES toadd, queue, cache, closed, ctxDone, accepted, ran,
          rpc,   \* Run: "off" | "check" | "pop" | "wait" | "ret"
          spc,   \* Shutdown goroutine: "off" | "waitctx" | "done"
          cpc    \* Cleanup: "off" | "run" | "done"
vars == <<toadd, queue, cache, closed, ctxDone, accepted, ran, rpc, spc, cpc>>

Init == /\ toadd = Jobs /\ queue = <<>> /\ cache = <<>> /\ closed = FALSE /\ ctxDone = FALSE
        /\ accepted = {} /\ ran = [j \in Jobs |-> 0] /\ rpc = "off" /\ spc = "off" /\ cpc = "off"

Range(s) == {s[i] : i \in 1..Len(s)}

(* External *)
Add(j) == /\ j \in toadd /\ toadd' = toadd \ {j}
          /\ IF closed THEN UNCHANGED <<queue, accepted>>
                       ELSE queue' = Append(queue, j) /\ accepted' = accepted \cup {j}
          /\ UNCHANGED <<cache, closed, ctxDone, ran, rpc, spc, cpc>>
Start == /\ rpc = "off" /\ rpc' = "check" /\ spc' = "waitctx"
         /\ UNCHANGED <<toadd, queue, cache, closed, ctxDone, accepted, ran, cpc>>
Cancel == /\ ~ctxDone /\ ctxDone' = TRUE
          /\ UNCHANGED <<toadd, queue, cache, closed, accepted, ran, rpc, spc, cpc>>
External == Start \/ Cancel \/ \E j \in Jobs : Add(j)

(* Internal *)
\* ReadOne: if err = ctx.Err(); err != nil { return }
RCheck == /\ rpc = "check" /\ rpc' = IF ctxDone THEN "ret" ELSE "pop"
          /\ UNCHANGED <<toadd, queue, cache, closed, ctxDone, accepted, ran, spc, cpc>>
Take == cache' = Append(cache, Head(queue)) /\ queue' = Tail(queue) /\ rpc' = "check"
\* Distributor pop: Remove, else Wait(ctx)
RPop == /\ rpc = "pop"
        /\ IF queue # <<>> THEN Take ELSE rpc' = "wait" /\ UNCHANGED <<queue, cache>>
        /\ UNCHANGED <<toadd, closed, ctxDone, accepted, ran, spc, cpc>>
\* Queue.Wait: an item wins; else closed or ctx ended -> error -> Run returns
RWait == /\ rpc = "wait" /\ (queue # <<>> \/ closed \/ ctxDone)
         /\ IF queue # <<>> THEN Take ELSE rpc' = "ret" /\ UNCHANGED <<queue, cache>>
         /\ UNCHANGED <<toadd, closed, ctxDone, accepted, ran, spc, cpc>>
Shut == /\ spc = "waitctx" /\ ctxDone /\ closed' = TRUE /\ spc' = "done"
        /\ UNCHANGED <<toadd, queue, cache, ctxDone, accepted, ran, rpc, cpc>>
\* Cleanup after Run and Shutdown returned
CStart == /\ cpc = "off" /\ rpc = "ret" /\ spc = "done" /\ cpc' = "run"
          /\ IF FixDrain THEN cache' = cache \o queue /\ queue' = <<>> ELSE UNCHANGED <<cache, queue>>
          /\ UNCHANGED <<toadd, closed, ctxDone, accepted, ran, rpc, spc>>
CRun == /\ cpc = "run"
        /\ IF cache = <<>> THEN cpc' = "done" /\ UNCHANGED <<cache, ran>>
           ELSE ran' = [ran EXCEPT ![Head(cache)] = @ + 1] /\ cache' = Tail(cache) /\ UNCHANGED cpc
        /\ UNCHANGED <<toadd, queue, closed, ctxDone, accepted, rpc, spc>>
Internal == RCheck \/ RPop \/ RWait \/ Shut \/ CStart \/ CRun
Next == Internal \/ External
Spec == Init /\ [][Next]_vars /\ WF_vars(Internal)

Quiescent == ~ENABLED Internal
\* no job runs before the shutdown, none runs twice
AtMostOnce == \A j \in Jobs : ran[j] <= 1 /\ (ran[j] = 1 => (ctxDone /\ j \in accepted))
\* every function whose Add returned nil has run exactly once when the cleanup is over
AllAcceptedRun == cpc = "done" => \A j \in accepted : ran[j] = 1
\* once started and cancelled the service completes
Completes == (Quiescent /\ rpc # "off" /\ ctxDone) => cpc = "done"
Settles == <>[]Quiescent
=============================================================================
