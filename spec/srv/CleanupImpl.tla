---------------------------- MODULE CleanupImpl ----------------------------
(* Implementation-shaped specification of the srv.Cleanup service              *)
(* (/repo/srv/implementations.go:172-214), property C11.                       *)
(*                                                                            *)
(*   Run:      for { item, err := iter.ReadOne(ctx)   ReadOne returns ctx.Err() *)
(*                   if err != nil { return nil }     first (iterator.go:234),  *)
(*                   cache.PushBack(item) }            then Remove-else-Wait     *)
(*   Shutdown: pipe.Close()                            (after the context ended) *)
(*   Cleanup:  ParallelForEach(cache.PopIterator(), job, continue-on-error,      *)
(*             continue-on-panic, one worker per CPU)                           *)
(*             (after Run and Shutdown returned - C10)                           *)
(*                                                                            *)
(* The shutdown pool (iterator.go:560-599): every worker repeats "context      *)
(* ended? -> stop; pop the next job; run it; hand the processor's result to     *)
(* CanContinueOnError (opts.go:81-111)".  A plain error or a panic is recorded  *)
(* and the worker continues; an error that wraps io.EOF or a context error is   *)
(* a stop signal: not recorded, the worker stops and cancels the group.  The    *)
(* processor of Cleanup therefore records the job's result itself and returns   *)
(* nil (Collect = TRUE, implementations.go:211-215); Collect = FALSE is the     *)
(* processor that returns the job's error and leaves it to the group.           *)
(*                                                                            *)
(* External: queue.Add(job) by the client, cancelling the context.  FixDrain =  *)
(* FALSE is the code as pinned; TRUE is the code with                           *)
(* /verif/fixes/srv-cleanup-drops-queued-jobs.diff (Cleanup first moves what is *)
(* left in the closed queue to the cache).                                      *)
(***************************************************************************)
EXTENDS Integers, Sequences, FiniteSets, TLC

CONSTANTS Jobs, FixDrain,
          Procs,     \* the workers of the shutdown pool
          Outcomes,  \* subset of {"ok", "fail", "stop"}: nil / plain error or panic / error wrapping io.EOF or a context error
          Collect    \* the processor records the job's error itself and returns nil

VARIABLES toadd, queue, cache, closed, ctxDone, accepted, ran,
          rpc,   \* Run: "off" | "check" | "pop" | "wait" | "ret"
          spc,   \* Shutdown goroutine: "off" | "waitctx" | "done"
          cpc,   \* Cleanup: "off" | "run" | "done"
          out,   \* job -> its outcome
          wk,    \* worker -> "idle" | "gone" | the job it runs
          gcan,  \* the group's context has been cancelled by a worker that stopped
          errs   \* jobs whose failure reached the collector that Wait() resolves
vars == <<toadd, queue, cache, closed, ctxDone, accepted, ran, rpc, spc, cpc, out, wk, gcan, errs>>
pool == <<out, wk, gcan, errs>>

\* jobs are interchangeable: outcome assignments up to renaming (sorted along the job names)
OutOrd == <<"ok", "fail", "stop">>
NameOrd == <<"j1", "j2", "j3", "j4">>
Idx(s, x) == CHOOSE i \in 1..Len(s) : s[i] = x
Sorted(o) == \A x, y \in Jobs : Idx(NameOrd, x) < Idx(NameOrd, y) => Idx(OutOrd, o[x]) <= Idx(OutOrd, o[y])

Init == /\ toadd = Jobs /\ queue = <<>> /\ cache = <<>> /\ closed = FALSE /\ ctxDone = FALSE
        /\ accepted = {} /\ ran = [j \in Jobs |-> 0] /\ rpc = "off" /\ spc = "off" /\ cpc = "off"
        /\ out \in {o \in [Jobs -> Outcomes] : Sorted(o)} /\ wk = [p \in Procs |-> "idle"] /\ gcan = FALSE /\ errs = {}

Range(s) == {s[i] : i \in 1..Len(s)}

(* External *)
Add(j) == /\ j \in toadd /\ toadd' = toadd \ {j}
          /\ IF closed THEN UNCHANGED <<queue, accepted>>
                       ELSE queue' = Append(queue, j) /\ accepted' = accepted \cup {j}
          /\ UNCHANGED <<cache, closed, ctxDone, ran, rpc, spc, cpc, pool>>
Start == /\ rpc = "off" /\ rpc' = "check" /\ spc' = "waitctx"
         /\ UNCHANGED <<toadd, queue, cache, closed, ctxDone, accepted, ran, cpc, pool>>
Cancel == /\ ~ctxDone /\ ctxDone' = TRUE
          /\ UNCHANGED <<toadd, queue, cache, closed, accepted, ran, rpc, spc, cpc, pool>>
External == Start \/ Cancel \/ \E j \in Jobs : Add(j)

(* Internal *)
\* ReadOne: if err = ctx.Err(); err != nil { return }
RCheck == /\ rpc = "check" /\ rpc' = IF ctxDone THEN "ret" ELSE "pop"
          /\ UNCHANGED <<toadd, queue, cache, closed, ctxDone, accepted, ran, spc, cpc, pool>>
Take == cache' = Append(cache, Head(queue)) /\ queue' = Tail(queue) /\ rpc' = "check"
\* Distributor pop: Remove, else Wait(ctx)
RPop == /\ rpc = "pop"
        /\ IF queue # <<>> THEN Take ELSE rpc' = "wait" /\ UNCHANGED <<queue, cache>>
        /\ UNCHANGED <<toadd, closed, ctxDone, accepted, ran, spc, cpc, pool>>
\* Queue.Wait: an item wins; else closed or ctx ended -> error -> Run returns
RWait == /\ rpc = "wait" /\ (queue # <<>> \/ closed \/ ctxDone)
         /\ IF queue # <<>> THEN Take ELSE rpc' = "ret" /\ UNCHANGED <<queue, cache>>
         /\ UNCHANGED <<toadd, closed, ctxDone, accepted, ran, spc, cpc, pool>>
Shut == /\ spc = "waitctx" /\ ctxDone /\ closed' = TRUE /\ spc' = "done"
        /\ UNCHANGED <<toadd, queue, cache, ctxDone, accepted, ran, rpc, cpc, pool>>
\* Cleanup after Run and Shutdown returned
CStart == /\ cpc = "off" /\ rpc = "ret" /\ spc = "done" /\ cpc' = "run"
          /\ IF FixDrain THEN cache' = cache \o queue /\ queue' = <<>> ELSE UNCHANGED <<cache, queue>>
          /\ UNCHANGED <<toadd, closed, ctxDone, accepted, ran, rpc, spc, pool>>
\* a worker: the context check comes first (Producer of the split, iterator.go:234), then the pop
WTake(p) == /\ cpc = "run" /\ wk[p] = "idle"
            /\ IF gcan \/ cache = <<>>
                 THEN wk' = [wk EXCEPT ![p] = "gone"] /\ UNCHANGED <<cache, ran>>
                 ELSE /\ wk' = [wk EXCEPT ![p] = Head(cache)] /\ cache' = Tail(cache)
                      /\ ran' = [ran EXCEPT ![Head(cache)] = @ + 1]
            /\ UNCHANGED <<toadd, queue, closed, ctxDone, accepted, rpc, spc, cpc, out, gcan, errs>>
\* the job returns; the processor's result goes through CanContinueOnError
WRet(p) == /\ cpc = "run" /\ wk[p] \in Jobs
           /\ LET j == wk[p]
              IN CASE out[j] = "ok"   -> wk' = [wk EXCEPT ![p] = "idle"] /\ UNCHANGED <<errs, gcan>>
                   [] out[j] = "fail" -> wk' = [wk EXCEPT ![p] = "idle"] /\ errs' = errs \cup {j} /\ UNCHANGED gcan
                   [] out[j] = "stop" -> IF Collect
                                           THEN wk' = [wk EXCEPT ![p] = "idle"] /\ errs' = errs \cup {j} /\ UNCHANGED gcan
                                           ELSE wk' = [wk EXCEPT ![p] = "gone"] /\ gcan' = TRUE /\ UNCHANGED errs
           /\ UNCHANGED <<toadd, queue, cache, closed, ctxDone, accepted, ran, rpc, spc, cpc, out>>
\* wg.Operation().Block(): every worker has stopped
CDone == /\ cpc = "run" /\ \A p \in Procs : wk[p] = "gone" /\ cpc' = "done"
         /\ UNCHANGED <<toadd, queue, cache, closed, ctxDone, accepted, ran, rpc, spc, pool>>
Internal == RCheck \/ RPop \/ RWait \/ Shut \/ CStart \/ CDone \/ \E p \in Procs : WTake(p) \/ WRet(p)
Next == Internal \/ External
Spec == Init /\ [][Next]_vars /\ WF_vars(Internal)

Quiescent == ~ENABLED Internal
\* no job runs before the shutdown, none runs twice
AtMostOnce == \A j \in Jobs : ran[j] <= 1 /\ (ran[j] = 1 => (ctxDone /\ j \in accepted))
\* every function whose Add returned nil has run exactly once when the cleanup is over
AllAcceptedRun == cpc = "done" => \A j \in accepted : ran[j] = 1
\* ... and Wait() reports the failure of every one of them that failed
AllSurfaced == cpc = "done" => \A j \in accepted : out[j] # "ok" => j \in errs
\* once started and cancelled the service completes
Completes == (Quiescent /\ rpc # "off" /\ ctxDone) => cpc = "done"
Settles == <>[]Quiescent
=============================================================================
