---------------------------- MODULE ServiceAbs ----------------------------
(* Abstract, quiescence-stepped specification of srv.Service: the meaning of   *)
(* property C10 as the conformance harness can observe it.  Every action is    *)
(* one driver step of harness/cmd/vh-srv (replay-svc) followed by "run to      *)
(* quiescence"; `hist` records the step together with the observations the     *)
(* property allows at that quiescent point.  All four user callbacks are       *)
(* supplied by the harness and are held in a gate until the driver lets them   *)
(* return (Run may instead return by itself when its context ends: mode        *)
(* "ctx"), so between two driver steps the service can only advance up to the  *)
(* next callback, which makes the quiescent state a function of the steps.     *)
(*                                                                            *)
(* Driver steps                                                                *)
(*   start(s, hold)  go Start(parent); hold = "checked" | "launched" parks the *)
(*                   caller at yield point srv.Service.Start.checked/.launched *)
(*   rel(s)          lets a parked Start caller continue                       *)
(*   close(c) / wait(w) / cancel        go Close() / go Wait() / cancel parent *)
(*   ret(fn)         the callback fn (run, shut, clean, eh) returns            *)
(*   relfin          releases the run goroutine parked at                      *)
(*                   srv.Service.run.finished (between isFinished.Store(true)  *)
(*                   and isRunning.Store(false)); armed iff cfg.holdfin        *)
(*                                                                            *)
(* Observations (exp): for every operation that has not been seen to return,   *)
(* the set of allowed outcomes (`blocked` or results); the number of           *)
(* invocations of each callback; `notrunning`: Running() must be false (a      *)
(* judged Wait has returned and no library goroutine is parked in a yield      *)
(* point, i.e. this is a quiescent point of the real code - DESIGN 5.0).       *)
(* A Wait is judged when it is invoked after a Start returned nil; other       *)
(* Waits are executed but carry no expectation.                                *)
(*                                                                            *)
(* Link to ServiceImpl: its invariants (AtMostOneStartNil, Ordered,            *)
(* WaitCovers, NotRunningAfterWait, Complete, WaitJustified) say that at every *)
(* quiescent state of the implementation-shaped spec the observations below    *)
(* hold.                                                                       *)
(***************************************************************************)
EXTENDS Integers, Sequences, FiniteSets, TLC, Json

CONSTANTS Starters, Closers, Waiters,                 \* string identities "s1", "c1", "w1", ...
          RunKinds, ShutKinds, CleanKinds, EhKinds,   \* outcomes explored
          Modes,                                      \* subset of {"gate", "ctx"}
          HoldFins,                                   \* subset of BOOLEAN
          Holds,                                      \* subset of {"none", "checked", "launched"}
          Depth

VARIABLES cfg,       \* [run, shut, clean, eh, mode, holdfin]
          r,         \* the service: context, callback phases, finished flag, collected errors, counters
          launched,  \* the doStart closure ran: the service goroutines exist
          owner,     \* the Start caller whose Swap succeeded first
          parent,    \* parent context cancelled
          st,        \* per operation: "idle" | "pend" | "done" | "free"
          hold,      \* per Start caller: yield point it is parked at
          nilret,    \* some Start has returned nil
          waitret,   \* some judged Wait has returned
          used,      \* yield-point windows exercised so far: <<point, service finished?, run goroutine parked?>>
                     \* at each release, and the steps taken while the run goroutine was parked (kept in
                     \* the VIEW: a state reached through a window is the same abstract state but a
                     \* different implementation path, and edge coverage must not merge the two)
          hist

vars == <<cfg, r, launched, owner, parent, st, hold, nilret, waitret, used, hist>>
view == <<cfg, r, launched, owner, parent, st, hold, nilret, waitret, used>>

Ops == Starters \cup Closers \cup Waiters
ETok == [run |-> "eRun", shut |-> "eShut", clean |-> "eClean", eh |-> "eEh"]
PTok == [run |-> "pRun", shut |-> "pShut", clean |-> "pClean", eh |-> "pEh"]
Tok(f) == IF cfg[f] = "error" THEN {ETok[f]} ELSE IF cfg[f] = "panic" THEN {PTok[f]} ELSE {}

Init == /\ cfg \in [run : RunKinds, shut : ShutKinds, clean : CleanKinds, eh : EhKinds, mode : Modes, holdfin : HoldFins]
        /\ r = [ctx |-> FALSE, run |-> "none", shut |-> "none", clean |-> "none", eh |-> "none",
                fin |-> FALSE, finarmed |-> cfg.holdfin, finheld |-> FALSE, alldone |-> FALSE, errs |-> {},
                cnt |-> [run |-> 0, shut |-> 0, clean |-> 0, eh |-> 0]]
        /\ launched = FALSE /\ owner = "none" /\ parent = FALSE
        /\ st = [o \in Ops |-> "idle"] /\ hold = [s \in Starters |-> "none"]
        /\ nilret = FALSE /\ waitret = FALSE /\ used = {} /\ hist = <<>>

(* ---- the service between two driver steps: advance until the next callback / gate ---- *)
Step1(x) ==
  IF x.run = "in" /\ cfg.mode = "ctx" /\ x.ctx                      \* Run returns because its context ended
    THEN [x EXCEPT !.run = "ret", !.errs = @ \cup Tok("run")]
  ELSE IF x.run = "ret" /\ ~x.ctx THEN [x EXCEPT !.ctx = TRUE]      \* deferred s.cancel()
  ELSE IF x.ctx /\ x.shut = "none"                                  \* shutdown goroutine: <-ctx.Done(); Shutdown()
    THEN IF cfg.shut = "absent" THEN [x EXCEPT !.shut = "ret"]
         ELSE [x EXCEPT !.shut = "in", !.cnt.shut = @ + 1]
  ELSE IF x.run = "ret" /\ x.shut = "ret" /\ x.clean = "none"       \* Cleanup after Run and Shutdown returned
    THEN IF cfg.clean = "absent" THEN [x EXCEPT !.clean = "ret"]
         ELSE [x EXCEPT !.clean = "in", !.cnt.clean = @ + 1]
  ELSE IF x.clean = "ret" /\ ~x.fin                                 \* isFinished.Store(true) [yield finished]
    THEN [x EXCEPT !.fin = TRUE, !.finheld = x.finarmed]
  ELSE IF x.fin /\ ~x.finheld /\ x.eh = "none"                      \* isRunning.Store(false); handler with non-nil aggregate
    THEN IF cfg.eh = "absent" \/ x.errs = {} THEN [x EXCEPT !.eh = "ret"]
         ELSE [x EXCEPT !.eh = "in", !.cnt.eh = @ + 1]
  ELSE IF x.eh = "ret" /\ ~x.alldone THEN [x EXCEPT !.alldone = TRUE]
  ELSE x
Settle(x) == Step1(Step1(Step1(Step1(Step1(Step1(Step1(Step1(x))))))))

(* ---- allowed observations ---- *)
R(k) == [k |-> k, must |-> {}, pan |-> "any", nil |-> "any"]
Blocked == R("blocked")
PhaseToks == {"eRun", "eShut", "eClean", "pRun", "pShut", "pClean"}
\* result of a judged Wait that returns when the collected errors are e
Agg(e) == [k |-> "agg", must |-> e \cap {"eRun", "eShut", "eClean"},
           pan |-> IF e \cap {"pRun", "pShut", "pClean"} # {} THEN "t" ELSE "any",
           nil |-> IF cfg.run = "absent" THEN "any" ELSE IF e \cap PhaseToks = {} THEN "t" ELSE "f"]

NoRes == [o \in Ops |-> {}]
Res(o, as) == [NoRes EXCEPT ![o] = as]

\* common tail of every step: judged Waits in the slow path return once all service goroutines are
\* done; record the step and what may be observed now
Commit(op, id, arg, r2, st2, res2, hold2, owner2, launched2, parent2, nil2) ==
  LET wdone  == {w \in Waiters : st2[w] = "pend" /\ r2.alldone}
      st3    == [o \in Ops |-> IF o \in wdone THEN "done" ELSE st2[o]]
      Allow(o) == IF o \in wdone THEN {Agg(r2.errs)}
                  ELSE IF st3[o] = "pend"
                         THEN IF o \in Waiters /\ r2.fin THEN {Blocked, Agg(r2.errs)} ELSE {Blocked}
                  ELSE res2[o]
      listed == {o \in Ops : st3[o] = "pend" \/ (st3[o] = "done" /\ st[o] # "done")}
      wr     == waitret \/ \E w \in Waiters : st3[w] = "done"
      quiet  == ~r2.finheld /\ \A s \in Starters : hold2[s] = "none"
  IN /\ r' = r2 /\ st' = st3 /\ hold' = hold2 /\ owner' = owner2 /\ launched' = launched2
     /\ parent' = parent2 /\ nilret' = nil2 /\ waitret' = wr /\ cfg' = cfg
     /\ used' = used \cup (IF op = "rel" THEN {<<hold[id], r.fin, r.finheld>>}
                          ELSE IF r.finheld THEN {<<op, TRUE, TRUE>>} ELSE {})
     /\ hist' = Append(hist, [op |-> op, id |-> id, arg |-> arg,
                              exp |-> [ops |-> {[id |-> o, allow |-> Allow(o)] : o \in listed},
                                       cnt |-> r2.cnt, notrunning |-> (wr /\ quiet)]])

Done(o) == [st EXCEPT ![o] = "done"]
Unheld(s) == [hold EXCEPT ![s] = "none"]

\* the isRunning.Swap and everything behind it, for Start caller s
Swap(op, s, h) ==
  IF r.fin /\ ~r.finheld /\ owner # "none" /\ hold[owner] = "launched" /\ \A t \in Starters : hold[t] # "once"
    THEN \* the Swap succeeds but the Once is still executing the owner's closure: s waits in doStart.Do
         Commit(op, s, h, r, [st EXCEPT ![s] = "pend"], NoRes, [hold EXCEPT ![s] = "once"], owner, launched, parent, nilret)
  ELSE IF r.fin
    THEN \* the service finished after this caller's isFinished check: it must not be told "nil"
         Commit(op, s, h, r, Done(s), Res(s, {R("already"), R("returned")}), Unheld(s), owner, launched, parent, nilret)
  ELSE IF owner # "none"
    THEN Commit(op, s, h, r, Done(s), Res(s, {R("already")}), Unheld(s), owner, launched, parent, nilret)
  ELSE LET \* a nil Run panics at the call; the recovered panic is in the collector (token pNil, not judged)
           r1 == IF cfg.run = "absent" THEN [r EXCEPT !.ctx = parent, !.run = "ret", !.errs = @ \cup {"pNil"}]
                 ELSE [r EXCEPT !.ctx = parent, !.run = "in", !.cnt.run = @ + 1]
           r2 == Settle(r1)
       IN IF h = "launched"
            THEN Commit(op, s, h, r2, [st EXCEPT ![s] = "pend"], NoRes, [hold EXCEPT ![s] = "launched"], s, TRUE, parent, nilret)
            ELSE Commit(op, s, h, r2, Done(s), Res(s, {R("nil")}), Unheld(s), s, TRUE, parent, TRUE)

StartOp(s, h) ==
  /\ st[s] = "idle"
  /\ IF r.fin THEN Commit("start", s, h, r, Done(s), Res(s, {R("returned")}), hold, owner, launched, parent, nilret)
     ELSE IF h = "checked"
       THEN Commit("start", s, h, r, [st EXCEPT ![s] = "pend"], NoRes, [hold EXCEPT ![s] = "checked"], owner, launched, parent, nilret)
     ELSE Swap("start", s, h)

\* releasing the owner from "launched" completes the Once: callers waiting in doStart.Do return too
Rel(s) ==
  /\ hold[s] \in {"checked", "launched"}
  /\ IF hold[s] = "checked" THEN Swap("rel", s, "none")
     ELSE LET late == {t \in Starters : hold[t] = "once"}
          IN Commit("rel", s, "none", r, [o \in Ops |-> IF o = s \/ o \in late THEN "done" ELSE st[o]],
                    [o \in Ops |-> IF o = s THEN {R("nil")} ELSE IF o \in late THEN {R("already"), R("returned")} ELSE {}],
                    [t \in Starters |-> IF t = s \/ t \in late THEN "none" ELSE hold[t]], owner, launched, parent, TRUE)

\* Close cancels the service context when the service has been launched (isRunning && cancel # nil)
CloseOp(c) ==
  /\ st[c] = "idle"
  /\ Commit("close", c, "none", IF launched THEN Settle([r EXCEPT !.ctx = TRUE]) ELSE r,
            Done(c), Res(c, {R("done")}), hold, owner, launched, parent, nilret)

CancelOp ==
  /\ ~parent
  /\ Commit("cancel", "none", "none", IF launched THEN Settle([r EXCEPT !.ctx = TRUE]) ELSE r,
            st, NoRes, hold, owner, launched, TRUE, nilret)

WaitOp(w) ==
  /\ st[w] = "idle"
  /\ IF ~nilret THEN Commit("wait", w, "none", r, [st EXCEPT ![w] = "free"], NoRes, hold, owner, launched, parent, nilret)
     ELSE IF r.fin THEN Commit("wait", w, "none", r, Done(w), Res(w, {Agg(r.errs)}), hold, owner, launched, parent, nilret)
     ELSE Commit("wait", w, "none", r, [st EXCEPT ![w] = "pend"], NoRes, hold, owner, launched, parent, nilret)

RetOp(f) ==
  /\ r[f] = "in" /\ (f = "run" => cfg.mode = "gate")
  /\ Commit("ret", "none", f, Settle([r EXCEPT ![f] = "ret", !.errs = @ \cup Tok(f)]),
            st, NoRes, hold, owner, launched, parent, nilret)

RelFin ==
  /\ r.finheld
  /\ Commit("relfin", "none", "none", Settle([r EXCEPT !.finheld = FALSE, !.finarmed = FALSE]),
            st, NoRes, hold, owner, launched, parent, nilret)

Step == \/ \E s \in Starters : (\E h \in Holds : StartOp(s, h)) \/ Rel(s)
        \/ \E c \in Closers : CloseOp(c)
        \/ \E w \in Waiters : WaitOp(w)
        \/ \E f \in {"run", "shut", "clean", "eh"} : RetOp(f)
        \/ CancelOp \/ RelFin

Next == Len(hist) < Depth /\ Step
Spec == Init /\ [][Next]_vars

\* sanity of the abstract spec itself (C10 read at quiescent points)
Inv == /\ \A f \in {"run", "shut", "clean", "eh"} : r.cnt[f] <= 1
       /\ r.shut # "none" => r.ctx
       /\ r.clean # "none" => (r.run = "ret" /\ r.shut = "ret")
       /\ r.eh = "in" => (r.clean = "ret" /\ r.errs # {})
       /\ (\E w \in Waiters : st[w] = "done") => r.fin
       /\ nilret => launched

Beh == [cfg |-> cfg, steps |-> hist]
EmitAll  == (Len(hist) < Depth /\ ENABLED Step) \/ PrintT(<<"BEH", ToJson(Beh)>>)
EmitEdge == PrintT(<<"BEH", ToJson([cfg |-> cfg, steps |-> hist'])>>)
=============================================================================
