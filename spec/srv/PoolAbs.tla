----------------------------- MODULE PoolAbs -----------------------------
(* Abstract, quiescence-stepped specification of srv.WorkerPool and            *)
(* srv.HandlerWorkerPool over an unlimited pubsub.Queue (property C11).  Jobs  *)
(* are harness-supplied fun.Worker functions that count their invocations,     *)
(* wait for the driver (gate) or their context (ctx) and end with a scripted   *)
(* outcome.  Driver steps: add(j) = go queue.Add(job j); start = go p.Start;   *)
(* finish(j); cancel / close; wait(w) = go p.Wait().                           *)
(*                                                                            *)
(* Obligations (DESIGN 5.0: they hold while the pool's Run has not returned):  *)
(* no job ever runs twice; while the pool is running (started, context live,   *)
(* and - without continue-on-error - no job has failed yet) the number of jobs *)
(* invoked at quiescence is min(accepted, completed + workers), i.e. every     *)
(* accepted job runs as soon as a worker is free; p.Wait() stays blocked while *)
(* the context is live or a job that ignores its context has not returned.     *)
(* With continue-on-error the errors of completed jobs are in p.Wait()'s       *)
(* result (WorkerPool) resp. were passed to the observer (HandlerWorkerPool).  *)
(* After the shutdown event or an abort nothing but "at most once" is judged.  *)
(*                                                                            *)
(* Outcome kinds: ok, error (plain), panic, and eof / canceled / deadline - a  *)
(* job error that wraps io.EOF, context.Canceled or context.DeadlineExceeded.  *)
(* A worker group documents those as stop signals that are never observed      *)
(* (fun.WorkerGroupConf.CanContinueOnError, opts.go:73-111: "Neither io.EOF    *)
(* nor ErrIteratorSkip errors are ever observed ... Context cancellation       *)
(* errors are observed only when configured"), and WorkerPool "follows the     *)
(* semantics configured by the options".  Reading (weakest obligation): a job  *)
(* ending with such an error ends the regime in which "the pool keeps running" *)
(* - with or without continue-on-error, for both kinds of pool - and           *)
(* WorkerPool's Wait() is not required to report it; HandlerWorkerPool passes  *)
(* every job's error to the observer, so the observer must have seen it.       *)
(*                                                                            *)
(* Jobs are interchangeable (identified by their place in the order of         *)
(* acceptance, which the schedule chooses): only job configurations sorted     *)
(* along the job names are explored.                                           *)
(***************************************************************************)
EXTENDS Integers, Sequences, FiniteSets, TLC, Json

CONSTANTS Jobs, Waiters, Kinds, Modes, Comps, Workers, Conts, Depth

VARIABLES pcfg,     \* [comp, workers, cont]
          ucfg,     \* job -> [kind, mode]
          acc,      \* accepted jobs in order
          nstart,   \* number of accepted jobs that have been invoked (a prefix of acc while the pool runs)
          fin,      \* jobs that returned
          started, ended, aborted, st, hist
vars == <<pcfg, ucfg, acc, nstart, fin, started, ended, aborted, st, hist>>
view == <<pcfg, ucfg, acc, nstart, fin, started, ended, aborted, st>>

AddId(j) == "add_" \o j
OpIds == {AddId(j) : j \in Jobs} \cup Waiters \cup {"ps"}

KindOrd == <<"ok", "error", "panic", "eof", "canceled", "deadline">>
ModeOrd == <<"gate", "ctx">>
NameOrd == <<"j1", "j2", "j3", "j4", "j5">>
Idx(s, x) == CHOOSE i \in 1..Len(s) : s[i] = x
Rank(c) == Idx(ModeOrd, c.mode) * 10 + Idx(KindOrd, c.kind)
Sorted(u) == \A x, y \in Jobs : Idx(NameOrd, x) < Idx(NameOrd, y) => Rank(u[x]) <= Rank(u[y])
TermKinds == {"eof", "canceled", "deadline"}

Init == /\ pcfg \in [comp : Comps, workers : Workers, cont : Conts]
        /\ ucfg \in {u \in [Jobs -> [kind : Kinds, mode : Modes]] : Sorted(u)}
        /\ acc = <<>> /\ nstart = 0 /\ fin = {} /\ started = FALSE /\ ended = FALSE /\ aborted = FALSE
        /\ st = [o \in OpIds |-> "idle"] /\ hist = <<>>

Range(s) == {s[i] : i \in 1..Len(s)}
Min(a, b) == IF a < b THEN a ELSE b
Running == started /\ ~ended /\ ~aborted
InFlight(ns, fi) == {acc[i] : i \in 1..ns} \ fi

R(k) == [k |-> k, must |-> {}, pan |-> "any", nil |-> "any"]
Fail(j) == IF ucfg[j].kind = "error" THEN {"e:" \o j} ELSE IF ucfg[j].kind = "panic" THEN {"p:" \o j} ELSE {}
ErrOnly(j) == IF ucfg[j].kind \in {"error"} \cup TermKinds THEN {"e:" \o j} ELSE {}
Agg(fi) == [k |-> "agg", must |-> IF pcfg.comp = "pool" /\ pcfg.cont THEN UNION {Fail(j) : j \in fi} ELSE {},
            pan |-> IF pcfg.comp = "pool" /\ pcfg.cont /\ \E j \in fi : ucfg[j].kind = "panic" THEN "t" ELSE "any", nil |-> "any"]

\* ac, ns, fi, sd, en, ab: accepted, invoked prefix, finished, started, ended, aborted after the step
Commit(op, id, arg, ac, ns, fi, sd, en, ab, st2, res2) ==
  LET judged  == sd /\ ~en /\ ~ab
      infl    == {ac[i] : i \in 1..ns} \ fi
      gates   == {j \in infl : ucfg[j].mode = "gate"}
      \* p.Wait(): blocked while the pool certainly still runs, may return once it may have ended
      WAllow  == (IF judged \/ gates # {} \/ ab THEN {R("blocked")} ELSE {})
                 \cup (IF (en \/ ab) /\ gates = {} THEN {Agg(fi)} ELSE {})
      wdone   == {w \in Waiters : st2[w] = "pend" /\ en /\ ~ab /\ gates = {}}
      st3     == [o \in OpIds |-> IF o \in wdone THEN "done" ELSE st2[o]]
      Allow(o) == IF o \in Waiters /\ st2[o] = "pend" THEN WAllow ELSE res2[o]
      listed  == {o \in OpIds : st2[o] = "pend" \/ (st3[o] = "done" /\ st[o] # "done")}
  IN /\ acc' = ac /\ nstart' = ns /\ fin' = fi /\ started' = sd /\ ended' = en /\ aborted' = ab /\ st' = st3
     /\ pcfg' = pcfg /\ ucfg' = ucfg
     /\ hist' = Append(hist, [op |-> op, id |-> id, arg |-> arg,
                  exp |-> [ops |-> {[id |-> o, allow |-> Allow(o)] : o \in listed},
                           cnt |-> {[id |-> j, allow |-> {0, 1}] : j \in Jobs},
                           started |-> IF judged THEN {ns} ELSE IF sd THEN {} ELSE {0},
                           seen |-> IF pcfg.comp = "hpool" /\ pcfg.cont /\ sd /\ ~en
                                      THEN {[id |-> "observer", allow |-> {[k |-> "agg", must |-> UNION {ErrOnly(j) : j \in fi}, pan |-> "any", nil |-> "any"]}]}
                                      ELSE {}]])

NoRes == [o \in OpIds |-> {}]
Fill(ac, fi, sd, en, ab) == IF sd /\ ~en /\ ~ab THEN Min(Len(ac), Cardinality(fi) + pcfg.workers) ELSE nstart

AddOp(j) == /\ j \notin Range(acc) /\ st[AddId(j)] = "idle" /\ ~ended /\ ~aborted
            /\ LET ac == Append(acc, j)
               IN Commit("add", AddId(j), j, ac, Fill(ac, fin, started, ended, aborted), fin, started, ended, aborted,
                         [st EXCEPT ![AddId(j)] = "done"], [NoRes EXCEPT ![AddId(j)] = {R("nil")}])

StartOp == /\ ~started /\ ~ended
           /\ Commit("start", "ps", "none", acc, Fill(acc, fin, TRUE, ended, aborted), fin, TRUE, ended, aborted,
                     [st EXCEPT !["ps"] = "done"], [NoRes EXCEPT !["ps"] = {R("nil")}])

\* job j returns; without continue-on-error a failure ends the judged regime, a stop-signal error always does
FinishOp(j) == /\ j \in InFlight(nstart, fin) /\ ucfg[j].mode = "gate"
               /\ LET fi == fin \cup {j}
                      ab == aborted \/ (~pcfg.cont /\ ucfg[j].kind # "ok") \/ ucfg[j].kind \in TermKinds
                  IN Commit("finish", "none", j, acc, Fill(acc, fi, started, ended, ab), fi, started, ended, ab, st, NoRes)

\* the shutdown event: jobs waiting for their context return
EndOp(op) == /\ started /\ ~ended
             /\ LET fi == fin \cup {j \in InFlight(nstart, fin) : ucfg[j].mode = "ctx"}
                IN Commit(op, "none", "none", acc, nstart, fi, started, TRUE, aborted, st, NoRes)

WaitOp(w) == /\ started /\ st[w] = "idle"
             /\ Commit("wait", w, "none", acc, nstart, fin, started, ended, aborted, [st EXCEPT ![w] = "pend"], NoRes)

Step == \/ \E j \in Jobs : AddOp(j) \/ FinishOp(j)
        \/ \E w \in Waiters : WaitOp(w)
        \/ StartOp \/ EndOp("cancel") \/ EndOp("close")
Next == Len(hist) < Depth /\ Step
Spec == Init /\ [][Next]_vars

Inv == nstart <= Len(acc) /\ fin \subseteq Range(acc)

Units == {[name |-> j, kind |-> ucfg[j].kind, mode |-> ucfg[j].mode, pre |-> "new"] : j \in Jobs}
Beh(h) == [cfg |-> [comp |-> pcfg.comp, units |-> Units, workers |-> pcfg.workers, cont |-> pcfg.cont], steps |-> h]
EmitAll  == (Len(hist) < Depth /\ ENABLED Step) \/ PrintT(<<"BEH", ToJson(Beh(hist))>>)
EmitEdge == PrintT(<<"BEH", ToJson(Beh(hist'))>>)
=============================================================================
