SPECIFICATION Spec
CONSTANTS
  Modes = {"gate", "ctx"}
  Paces = {"zero", "never"}
  ShutKinds = {"absent", "ok", "error"}
  CleanKinds = {"absent", "error", "panic"}
  EhKinds = {"absent", "ok", "late"}
  CtxOuts = {"ok", "error", "canceled"}
  FinKinds = {"ok", "error", "canceled", "deadline", "panic"}
  MaxRuns = 3
  Waiters = {"w1"}
  Closers = {"c1"}
  Depth = 9
  Bursts = TRUE
  PanicLoses = "either"
  StaleTick = "either"
INVARIANT Inv
VIEW view
ACTION_CONSTRAINT EmitEdge
CHECK_DEADLOCK FALSE
