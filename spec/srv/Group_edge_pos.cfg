SPECIFICATION Spec
CONSTANTS
  Members = {"a", "b"}
  Waiters = {"w1"}
  Kinds = {"ok", "error", "panic"}
  Modes = {"gate", "ctx"}
  Pres = {"new", "running", "finished"}
  Depth = 10
  Hook = TRUE
  Sym = FALSE
INVARIANT Inv
VIEW view
ACTION_CONSTRAINT EmitEdge
CHECK_DEADLOCK FALSE
