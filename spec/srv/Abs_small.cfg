SPECIFICATION Spec
CONSTANTS
  Starters = {"s1", "s2"}
  Closers = {"c1"}
  Waiters = {"w1"}
  RunKinds = {"error"}
  ShutKinds = {"panic"}
  CleanKinds = {"absent"}
  EhKinds = {"ok"}
  Modes = {"gate"}
  HoldFins = {TRUE}
  Holds = {"none", "checked", "launched"}
  Depth = 16
INVARIANT Inv
VIEW view
ACTION_CONSTRAINT EmitEdge
CHECK_DEADLOCK FALSE
