----------------------------- MODULE OrchAbs -----------------------------
(* Abstract, quiescence-stepped specification of srv.Orchestrator (property    *)
(* C11, readings of DESIGN 5.0).  Members are harness-supplied services whose  *)
(* Run counts its invocations, then waits for the driver (mode "gate") or for  *)
(* its context (mode "ctx") and ends with a scripted outcome (ok / error /     *)
(* panic).  A member is new, or was started by the client with its own         *)
(* context and is still running when it is added ("running" - such members     *)
(* are gate mode, i.e. they return only when the driver says so), or had       *)
(* already finished ("finished").                                              *)
(*                                                                            *)
(* Driver steps: add(m) = go or.Add(m);  start = go or.Start(ctx);             *)
(* cancel = cancel ctx;  wait(w) = go or.Wait();  finish(m) = m's Run returns. *)
(*                                                                            *)
(* Obligations at quiescence: every member is started at most once (by         *)
(* anyone); a member added while the orchestrator's loop is alive has been     *)
(* started (if new); or.Wait() stays blocked until every member the            *)
(* orchestrator started or found running has returned and the orchestrator's   *)
(* context has ended; its result satisfies errors.Is for the failure of every  *)
(* member it started, found running or found finished.  A member added after   *)
(* the context ended carries no obligation (count 0 or 1, nothing else).       *)
(***************************************************************************)
EXTENDS Integers, Sequences, FiniteSets, TLC, Json

CONSTANTS Members, Waiters, Kinds, Modes, Pres, Depth

VARIABLES ucfg,      \* member -> [kind, mode, pre]
          added,     \* members handed to or.Add, in order
          loop,      \* the orchestrator's Run loop: "off" | "on" | "exited"
          octx,      \* the orchestrator's context has been cancelled
          proc,      \* members the loop has picked up
          mst,       \* member -> "idle" | "in" | "ret"
          awaited,   \* members the orchestrator started or found running
          collected, \* members whose Wait result the orchestrator collects (awaited or found finished)
          free,      \* members added after the context ended: no obligation
          st,        \* per operation id: "idle" | "pend" | "done"
          hist

vars == <<ucfg, added, loop, octx, proc, mst, awaited, collected, free, st, hist>>
view == <<ucfg, added, loop, octx, proc, mst, awaited, collected, free, st>>

AddId(m) == "add_" \o m
OpIds == {AddId(m) : m \in Members} \cup Waiters \cup {"os"}

Init == /\ ucfg \in [Members -> {c \in [kind : Kinds, mode : Modes, pre : Pres] : c.pre = "running" => c.mode = "gate"}]
        /\ added = <<>> /\ loop = "off" /\ octx = FALSE /\ proc = {}
        /\ mst = [m \in Members |-> IF ucfg[m].pre = "running" THEN "in" ELSE IF ucfg[m].pre = "finished" THEN "ret" ELSE "idle"]
        /\ awaited = {} /\ collected = {} /\ free = {}
        /\ st = [o \in OpIds |-> "idle"] /\ hist = <<>>

Range(s) == {s[i] : i \in 1..Len(s)}
Started(m, ms) == ms[m] # "idle"

\* what the loop does with everything queued (it removes before it looks at its context), then
\* members running on the orchestrator's context end with it, then the loop ends with the context
Norm(ad, fr, lp, cx, pr, ms, aw, co) ==
  LET new  == IF lp = "on" THEN (Range(ad) \ fr) \ pr ELSE {}
      ms1  == [m \in Members |-> IF m \in new /\ ms[m] = "idle" THEN "in" ELSE ms[m]]
      aw1  == aw \cup {m \in new : ms[m] \in {"idle", "in"}}
      co1  == co \cup new
      orch == {m \in aw1 : ucfg[m].pre = "new"}           \* running on the orchestrator's context
      ms2  == [m \in Members |-> IF m \in orch /\ ms1[m] = "in" /\ ucfg[m].mode = "ctx" /\ cx THEN "ret" ELSE ms1[m]]
      lp1  == IF lp = "on" /\ cx THEN "exited" ELSE lp
  IN [loop |-> lp1, proc |-> pr \cup new, mst |-> ms2, awaited |-> aw1, collected |-> co1]

Done == loop = "exited" /\ \A m \in awaited : mst[m] = "ret"
DoneIn(n) == n.loop = "exited" /\ \A m \in n.awaited : n.mst[m] = "ret"

R(k) == [k |-> k, must |-> {}, pan |-> "any", nil |-> "any"]
\* a failure is a failure whatever it wraps: plain, io.EOF, context.Canceled, context.DeadlineExceeded
ErrKinds == {"error", "eof", "canceled", "deadline"}
Fail(m) == IF ucfg[m].kind \in ErrKinds THEN {"e:" \o m} ELSE IF ucfg[m].kind = "panic" THEN {"p:" \o m} ELSE {}
Agg(n) == [k |-> "agg", must |-> UNION {Fail(m) : m \in n.collected},
           pan |-> IF \E m \in n.collected : ucfg[m].kind = "panic" THEN "t" ELSE "any", nil |-> "any"]

Commit(op, id, arg, n, cx, add2, free2, st2, res2) ==
  LET wdone == {w \in Waiters : st2[w] = "pend" /\ DoneIn(n)}
      st3   == [o \in OpIds |-> IF o \in wdone THEN "done" ELSE st2[o]]
      Allow(o) == IF o \in wdone THEN {Agg(n)} ELSE IF st3[o] = "pend" THEN {R("blocked")} ELSE res2[o]
      listed == {o \in OpIds : st3[o] = "pend" \/ (st3[o] = "done" /\ st[o] # "done")}
      Cnt(m) == IF m \in free2 /\ n.mst[m] = "idle" THEN {0, 1} ELSE IF n.mst[m] = "idle" THEN {0} ELSE {1}
  IN /\ loop' = n.loop /\ proc' = n.proc /\ mst' = n.mst /\ awaited' = n.awaited /\ collected' = n.collected
     /\ octx' = cx /\ added' = add2 /\ free' = free2 /\ st' = st3 /\ ucfg' = ucfg
     /\ hist' = Append(hist, [op |-> op, id |-> id, arg |-> arg,
                  exp |-> [ops |-> {[id |-> o, allow |-> Allow(o)] : o \in listed},
                           cnt |-> {[id |-> m, allow |-> Cnt(m)] : m \in Members},
                           started |-> {}, seen |-> {}]])

NoRes == [o \in OpIds |-> {}]

\* go or.Add(m): always accepted (the queue is unlimited and never closed)
AddOp(m) ==
  /\ m \notin Range(added)
  /\ LET add2  == Append(added, m)
         free2 == IF octx /\ loop # "off" THEN free \cup {m} ELSE free
     IN Commit("add", AddId(m), m, Norm(add2, free2, loop, octx, proc, mst, awaited, collected), octx, add2, free2,
               [st EXCEPT ![AddId(m)] = "done"], [NoRes EXCEPT ![AddId(m)] = {R("nil")}])

\* go or.Start(ctx): the loop picks up everything queued, even if ctx is already cancelled
StartOp ==
  /\ loop = "off"
  /\ LET n == Norm(added, free, "on", octx, proc, mst, awaited, collected)
     IN Commit("start", "os", "none", n, octx, added, free, [st EXCEPT !["os"] = "done"], [NoRes EXCEPT !["os"] = {R("nil")}])

CancelOp ==
  /\ ~octx
  /\ Commit("cancel", "none", "none", Norm(added, free, loop, TRUE, proc, mst, awaited, collected), TRUE, added, free, st, NoRes)

WaitOp(w) ==
  /\ st[w] = "idle" /\ loop # "off"
  /\ Commit("wait", w, "none", [loop |-> loop, proc |-> proc, mst |-> mst, awaited |-> awaited, collected |-> collected],
            octx, added, free, [st EXCEPT ![w] = "pend"], NoRes)

\* the gate-mode member m returns
FinishOp(m) ==
  /\ mst[m] = "in" /\ ucfg[m].mode = "gate"
  /\ Commit("finish", "none", m, [loop |-> loop, proc |-> proc, mst |-> [mst EXCEPT ![m] = "ret"], awaited |-> awaited, collected |-> collected],
            octx, added, free, st, NoRes)

Step == \/ \E m \in Members : AddOp(m) \/ FinishOp(m)
        \/ \E w \in Waiters : WaitOp(w)
        \/ StartOp \/ CancelOp

Next == Len(hist) < Depth /\ Step
Spec == Init /\ [][Next]_vars

Inv == /\ awaited \subseteq collected /\ collected \subseteq proc
       /\ \A w \in Waiters : st[w] = "done" => Done

Units == {[name |-> m, kind |-> ucfg[m].kind, mode |-> ucfg[m].mode, pre |-> ucfg[m].pre] : m \in Members}
Beh(h) == [cfg |-> [comp |-> "orch", units |-> Units, workers |-> 0, cont |-> FALSE], steps |-> h]
EmitAll  == (Len(hist) < Depth /\ ENABLED Step) \/ PrintT(<<"BEH", ToJson(Beh(hist))>>)
EmitEdge == PrintT(<<"BEH", ToJson(Beh(hist'))>>)
=============================================================================
