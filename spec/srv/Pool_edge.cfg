SPECIFICATION Spec
CONSTANTS
  Jobs = {"j1", "j2", "j3"}
  Waiters = {"w1"}
  Kinds = {"ok", "error", "panic", "eof", "canceled", "deadline"}
  Modes = {"gate"}
  Comps = {"pool", "hpool"}
  Workers = {1, 2}
  Conts = {TRUE, FALSE}
  Depth = 12
INVARIANT Inv
VIEW view
ACTION_CONSTRAINT EmitEdge
CHECK_DEADLOCK FALSE
