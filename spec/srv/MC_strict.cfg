SPECIFICATION Spec
CONSTANTS
  Starters = {s1}
  Closers = {}
  Waiters = {w1}
  RunKinds = {"ok"}
  ShutKinds = {"absent"}
  CleanKinds = {"absent"}
  EhKinds = {"absent"}
  ParentCancel = FALSE
  FixLateStore = TRUE
  FixSecondStart = TRUE
INVARIANTS NotRunningAfterWaitStrict
CHECK_DEADLOCK FALSE
