SPECIFICATION Spec
CONSTANTS
  Members = {"a", "b", "c", "d"}
  Waiters = {"w1", "w2"}
  Kinds = {"ok", "error", "panic"}
  Modes = {"gate", "ctx"}
  Depth = 12
  Hook = TRUE
INVARIANT Inv
CONSTRAINT EmitAll
CHECK_DEADLOCK FALSE
