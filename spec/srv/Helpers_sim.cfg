SPECIFICATION Spec
CONSTANTS
  Slots = {"c1", "c2", "c3", "c4"}
  Orchs = {"o1", "o2", "o3"}
  Jobs = {"j1", "j2", "j3"}
  Kinds = {"ok", "error", "panic", "errval"}
  Depth = 14
  OpSet = {"setsig", "sigcall", "setbase", "withorch", "setorch", "withcleanup", "add", "cancel", "owait"}
  NoopSecondSignal = "either"
  PanicSecondBase = "either"
  PanicSecondOrch = "either"
  FinishedOrch = "panic"
  RunningAfterEnd = FALSE
INVARIANT Inv
CONSTRAINT EmitAll
CHECK_DEADLOCK FALSE
