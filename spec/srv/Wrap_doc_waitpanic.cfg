SPECIFICATION Spec
CONSTANTS
  Comps = {"wait"}
  Units = {"a", "b"}
  Kinds = {"ok", "panic"}
  Modes = {"gate", "ctx"}
  Pres = {"new", "running", "finished"}
  Workers = {"k1", "k2"}
  Waiters = {"w1"}
  Depth = 4
  Hook = TRUE
  WorkerEarly = "either"
  WaitPanicRace = "doc"
INVARIANT Inv
VIEW view
ACTION_CONSTRAINT EmitEdge
CHECK_DEADLOCK FALSE
