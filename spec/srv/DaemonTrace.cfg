SPECIFICATION Spec
CONSTANTS
  PanicLoses = "either"
  StaleTick = "either"
CONSTRAINT HighWater
POSTCONDITION Accepted
CHECK_DEADLOCK FALSE
