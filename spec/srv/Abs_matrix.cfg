SPECIFICATION Spec
CONSTANTS
  Starters = {"s1"}
  Closers = {"c1"}
  Waiters = {"w1"}
  RunKinds = {"absent", "ok", "error", "panic"}
  ShutKinds = {"absent", "ok", "error", "panic"}
  CleanKinds = {"absent", "ok", "error", "panic"}
  EhKinds = {"absent", "ok", "panic"}
  Modes = {"gate", "ctx"}
  HoldFins = {FALSE}
  Holds = {"none", "launched"}
  Depth = 12
INVARIANT Inv
VIEW view
ACTION_CONSTRAINT EmitEdge
CHECK_DEADLOCK FALSE
