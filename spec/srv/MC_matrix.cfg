SPECIFICATION Spec
CONSTANTS
  Starters = {s1}
  Closers = {c1}
  Waiters = {w1}
  RunKinds = {"absent", "ok", "error", "panic"}
  ShutKinds = {"absent", "ok", "error", "panic"}
  CleanKinds = {"absent", "ok", "error", "panic"}
  EhKinds = {"absent", "ok", "panic"}
  ParentCancel = TRUE
  FixLateStore = TRUE
  FixSecondStart = TRUE
INVARIANTS TypeOK RunAtMostOnce ShutdownOnce CleanupOnce HandlerAtMostOnce AtMostOneStartNil ExactlyOneStartNil
           Ordered WaitCovers NotRunningAfterWait Complete WaitJustified
PROPERTIES Settles
CHECK_DEADLOCK FALSE
