SPECIFICATION Spec
CONSTANTS
  Jobs = {"j1", "j2", "j3", "j4"}
  Waiters = {"w1", "w2"}
  Kinds = {"ok", "error", "panic", "eof", "canceled", "deadline"}
  Modes = {"gate", "ctx"}
  Comps = {"pool", "hpool"}
  Workers = {1, 2, 3}
  Conts = {TRUE, FALSE}
  Depth = 14
INVARIANT Inv
CONSTRAINT EmitAll
CHECK_DEADLOCK FALSE
