SPECIFICATION Spec
CONSTANTS
  Modes = {"gate", "ctx"}
  Paces = {"zero", "never"}
  ShutKinds = {"absent", "ok", "error", "panic"}
  CleanKinds = {"absent", "ok", "error", "panic"}
  EhKinds = {"absent", "ok", "late"}
  CtxOuts = {"ok", "error", "canceled", "deadline"}
  FinKinds = {"ok", "error", "canceled", "deadline", "panic"}
  MaxRuns = 6
  Waiters = {"w1", "w2"}
  Closers = {"c1", "c2"}
  Depth = 14
  Bursts = TRUE
  PanicLoses = "either"
  StaleTick = "either"
INVARIANT Inv
CONSTRAINT EmitAll
CHECK_DEADLOCK FALSE
