----------------------------- MODULE DaemonAbs -----------------------------
(* Abstract, quiescence-stepped specification of srv.Daemon (extra check X03). *)
(* No listed property governs it: the doc comment of Daemon                   *)
(* (implementations.go:346-375) is the specification.  The daemon IS a         *)
(* Service, so its lifecycle (context end -> Shutdown, Run and Shutdown         *)
(* returned -> Cleanup, handler with the non-nil aggregate, Wait) is the        *)
(* automaton of ServiceAbs.tla, instantiated below (S!Settle); this module      *)
(* adds the restart loop that is the daemon's Run.                              *)
(*                                                                            *)
(* World: one base service supplied by the harness.  Its Run counts its        *)
(* invocations and is parked until the driver lets it return with a chosen     *)
(* outcome (finish(k)); in mode "ctx" it also returns by itself, with outcome  *)
(* cfg.ctxout, when the context it was given ends.  Base Shutdown / Cleanup    *)
(* return at once with a scripted outcome; the handler counts its calls.       *)
(* Time is not modelled; pacing is driven at its two extremes:                 *)
(*   pace = "zero"  minInterval 0: a restart is immediate,                     *)
(*   pace = "never" minInterval 1h: "the Daemon service will wait until at     *)
(*                  least that interval has passed" - no restart is observable *)
(*                  at any quiescent point, the loop stays parked in its select*)
(*                                                                            *)
(* Documented (D) and as-observed (O) choices                                  *)
(*  D1 a base run that returns nil ("early termination") or a plain error      *)
(*     while the context is live is followed by a restart; the error is        *)
(*     collected for Wait().                                                   *)
(*  D2 an error rooted in context.Canceled / DeadlineExceeded stops the daemon *)
(*     and is not collected.                                                   *)
(*  D3 after the context passed to the daemon ended (cancel of the parent, or  *)
(*     Close) the daemon returns once the base run returns; an error returned  *)
(*     then is not collected.                                                  *)
(*  D4 errors collected are exactly D1's (plus what base Shutdown / Cleanup    *)
(*     report through the Service machinery, C10).                             *)
(*  O1 (docs silent) a panic of a base run is not recovered by the loop: the   *)
(*     daemon stops and Wait() reports the panic.                              *)
(*  O2 (docs silent) base Shutdown and Cleanup run once, when the daemon       *)
(*     ends - not once per base run; the first base run is invoked even when   *)
(*     the daemon is started with a context that has already ended.            *)
(*  O3 (docs: "modifications to the base service are not reflected") a handler *)
(*     set on the base service after Daemon() is never called (eh = "late").   *)
(* Documented-vs-actual divergences (constants, "doc" | "code" | "either";     *)
(* the registered configurations use "either", which accepts both and lets     *)
(* the model continue along the code's branch):                                *)
(*  PanicLoses  doc: "All errors encountered, except [D2, D3] are collected    *)
(*              and aggregated to the Daemon services Wait() response";        *)
(*              code: when a later base run panics, the errors collected from  *)
(*              earlier runs are lost (the deferred `re = ec.Resolve()` cannot *)
(*              return a value through a panic, implementations.go:398).       *)
(*  StaleTick   doc: a restart happens no earlier than minInterval after the   *)
(*              previous start; code: time.NewTimer(0) (implementations.go:399)*)
(*              leaves an unread tick in timer.C which Reset does not drain    *)
(*              (go.mod < 1.23), so the FIRST restart is immediate whatever    *)
(*              minInterval is.                                                *)
(***************************************************************************)
EXTENDS Integers, Sequences, FiniteSets, TLC, Json

CONSTANTS Modes, Paces, ShutKinds, CleanKinds, EhKinds, CtxOuts, FinKinds,
          MaxRuns, Waiters, Closers, Depth, Bursts, PanicLoses, StaleTick

VARIABLES dcfg,     \* [mode, pace, shut, clean, eh, ctxout]
          r,        \* lifecycle record of the daemon service (ServiceAbs)
          loop,     \* "idle" | "run" (a base run is in progress) | "parked" (select, timer never fires) | "done" |
                    \* "fuzzy" (after a burst, until drain: which of the allowed interleavings happened is open)
          runs,     \* base runs invoked so far
          kept,     \* tokens of the errors the loop has collected (D1)
          opt,      \* tokens Wait() may or may not report (divergence PanicLoses = "either")
          dropped,  \* tokens Wait() must not report (D2, D3)
          stale,    \* an unread tick sits in timer.C
          alt,      \* after a burst: further counts the race allows, [run, eh] (sets)
          parent, started, st, hist

vars == <<dcfg, r, loop, runs, kept, opt, dropped, stale, alt, parent, started, st, hist>>
view == <<dcfg, r, loop, runs, kept, opt, dropped, stale, alt, parent, started, st>>

Ops == Waiters \cup Closers \cup {"s1"}

\* the Service the daemon is: Run = the loop (never absent; ends when this module says so),
\* Shutdown / Cleanup = the base service's, handler = the one captured at creation
scfg == [run |-> "ok", shut |-> dcfg.shut, clean |-> dcfg.clean,
         eh |-> IF dcfg.eh = "late" THEN "absent" ELSE dcfg.eh, mode |-> "gate", holdfin |-> FALSE]

S == INSTANCE ServiceAbs WITH
       cfg <- scfg, r <- r, launched <- started, owner <- "none", parent <- parent, st <- st,
       hold <- <<>>, nilret <- started, waitret <- FALSE, used <- {}, hist <- hist,
       Starters <- {"s1"}, Closers <- Closers, Waiters <- Waiters, RunKinds <- {"ok"},
       ShutKinds <- ShutKinds, CleanKinds <- CleanKinds, EhKinds <- EhKinds \ {"late"},
       Modes <- {"gate"}, HoldFins <- {FALSE}, Holds <- {"none"}, Depth <- Depth

ETok(n) == "e" \o ToString(n)
PTok(n) == "p" \o ToString(n)
PhaseToks == {"eShut", "pShut", "eClean", "pClean"}
AllToks == {ETok(n) : n \in 1..MaxRuns} \cup {PTok(n) : n \in 1..MaxRuns} \cup PhaseToks
PanToks == {PTok(n) : n \in 1..MaxRuns} \cup {"pShut", "pClean"}

Init == /\ dcfg \in {c \in [mode : Modes, pace : Paces, shut : ShutKinds, clean : CleanKinds, eh : EhKinds, ctxout : CtxOuts] :
                       c.mode = "gate" => c.ctxout = "ok"}
        /\ r = [ctx |-> FALSE, run |-> "none", shut |-> "none", clean |-> "none", eh |-> "none",
                fin |-> FALSE, finarmed |-> FALSE, finheld |-> FALSE, alldone |-> FALSE, errs |-> {},
                cnt |-> [run |-> 0, shut |-> 0, clean |-> 0, eh |-> 0]]
        /\ loop = "idle" /\ runs = 0 /\ kept = {} /\ opt = {} /\ dropped = {}
        /\ stale = (StaleTick # "doc") /\ alt = [run |-> {}, eh |-> {}]
        /\ parent = FALSE /\ started = FALSE
        /\ st = [o \in Ops |-> "idle"] /\ hist = <<>>

(* ---- the Service machinery: base Shutdown / Cleanup / handler return at once ---- *)
RetCb(x) ==
  LET x1 == IF x.shut = "in" THEN [x EXCEPT !.shut = "ret", !.errs = @ \cup S!Tok("shut")] ELSE x
      x2 == IF x1.clean = "in" THEN [x1 EXCEPT !.clean = "ret", !.errs = @ \cup S!Tok("clean")] ELSE x1
  IN IF x2.eh = "in" THEN [x2 EXCEPT !.eh = "ret"] ELSE x2
Adv(x) == S!Settle(RetCb(S!Settle(RetCb(S!Settle(RetCb(S!Settle(x)))))))

(* ---- the restart loop (implementations.go:396-424) as a function on the world ---- *)
W == [r |-> r, loop |-> loop, runs |-> runs, kept |-> kept, opt |-> opt, dropped |-> dropped, stale |-> stale]

\* the daemon's Run returns its aggregate (deferred re = ec.Resolve(), line 398)
Stop(w) == [w EXCEPT !.loop = "done", !.r = Adv([w.r EXCEPT !.run = "ret", !.errs = @ \cup w.kept])]

\* base run number w.runs returns outcome k
Return(w, k) ==
  LET n == w.runs IN
  IF k = "panic"
    THEN \* O1: propagates through the loop into the Service's recover (service.go:181); PanicLoses
         [w EXCEPT !.loop = "done",
                   !.opt = IF PanicLoses = "either" THEN w.kept ELSE {},
                   !.dropped = IF PanicLoses = "code" THEN @ \cup w.kept ELSE @,
                   !.r = Adv([w.r EXCEPT !.run = "ret",
                                         !.errs = @ \cup {PTok(n)} \cup (IF PanicLoses = "doc" THEN w.kept ELSE {})])]
  ELSE IF k \in {"canceled", "deadline"} \/ w.r.ctx
    THEN \* D2 / D3: line 408 `if ers.IsExpiredContext(err) || ctx.Err() != nil { return nil }`
         Stop([w EXCEPT !.dropped = IF k = "ok" THEN @ ELSE @ \cup {ETok(n)}])
  ELSE \* D1: line 411 ec.Add(err), then the select of line 415 with the timer
       LET w1 == [w EXCEPT !.kept = IF k = "error" THEN @ \cup {ETok(n)} ELSE @]
       IN IF dcfg.pace = "zero" \/ w.stale
            THEN [w1 EXCEPT !.runs = n + 1, !.loop = "run", !.stale = FALSE]
            ELSE [w1 EXCEPT !.loop = "parked"]

\* the daemon's context ends (parent cancelled or Close): Shutdown is called (Service); a base run
\* that honours its context returns cfg.ctxout; a parked loop leaves its select
CtxEnd(w) ==
  LET w1 == [w EXCEPT !.r = [@ EXCEPT !.ctx = TRUE]]
  IN IF w.r.ctx THEN w
     ELSE IF w.loop = "run" /\ dcfg.mode = "ctx" THEN Return(w1, dcfg.ctxout)
     ELSE IF w.loop = "parked" THEN Stop(w1)
     ELSE [w1 EXCEPT !.r = Adv(w1.r)]

(* ---- allowed observations ---- *)
R(k) == [k |-> k, must |-> {}, forbid |-> {}, pan |-> "any", nil |-> "any"]
Agg(w) == LET must == w.r.errs \ w.opt
              may  == must \cup w.opt
          IN [k |-> "agg", must |-> must, forbid |-> AllToks \ may,
              pan |-> IF must \cap PanToks # {} THEN "t" ELSE "f",
              nil |-> IF may = {} THEN "t" ELSE IF must # {} THEN "f" ELSE "any"]

NoRes == [o \in Ops |-> {}]

\* x: further observations allowed at this step only, [run, clean, eh, infl : sets of counts, blocked : BOOLEAN]
\* (divergence StaleTick: the count of base runs the documentation has; bursts: what the race allows).
\* branch = the count the model continues with (-1: no single one; the replayer then never truncates)
NoX == [run |-> {}, clean |-> {}, eh |-> {}, infl |-> {}, blocked |-> FALSE, fin |-> <<>>]
Commit(op, id, arg, w, st2, res2, x, alt2) ==
  LET wdone == {o \in Waiters : st2[o] = "pend" /\ w.r.alldone /\ w.loop = "done"}
      st3   == [o \in Ops |-> IF o \in wdone THEN "done" ELSE st2[o]]
      Allow(o) == IF o \in wdone THEN {Agg(w)}
                  ELSE IF st3[o] = "pend" THEN {R("blocked")} \cup (IF x.blocked THEN {Agg(x.fin)} ELSE {})
                  ELSE res2[o]
      listed == {o \in Ops : st3[o] = "pend" \/ (st3[o] = "done" /\ st[o] # "done")}
      C(name, n, more) == [id |-> name, allow |-> {n} \cup more, branch |-> IF more \subseteq {n} THEN n ELSE IF op = "finish" THEN n ELSE 0 - 1]
  IN /\ r' = w.r /\ loop' = w.loop /\ runs' = w.runs /\ kept' = w.kept /\ opt' = w.opt
     /\ dropped' = w.dropped /\ stale' = w.stale /\ alt' = alt2
     /\ st' = st3 /\ dcfg' = dcfg
     /\ hist' = Append(hist, [op |-> op, id |-> id, arg |-> arg,
          exp |-> [ops |-> {[id |-> o, allow |-> Allow(o)] : o \in listed},
                   cnt |-> {C("run", w.runs, x.run \cup alt2.run), C("shut", w.r.cnt.shut, {}),
                            C("clean", w.r.cnt.clean, x.clean), C("eh", w.r.cnt.eh, x.eh \cup alt2.eh),
                            C("inflight", IF w.loop = "run" THEN 1 ELSE 0, x.infl)},
                   \* "The base Service's Run function is passed a context that is always canceled after that
                   \* instance of the Run invocation returns"; the context of the run in progress is the daemon's
                   pastctx |-> "ended",
                   curctx |-> IF w.loop \in {"run", "fuzzy"} THEN (IF w.r.ctx THEN "ended" ELSE "live") ELSE "none"]])

StartOp ==
  /\ ~started /\ started' = TRUE /\ UNCHANGED parent
  /\ LET w1 == [W EXCEPT !.r = [@ EXCEPT !.ctx = parent, !.run = "in", !.cnt.run = 1], !.loop = "run", !.runs = 1]
         \* O2: the first base run is invoked whatever the state of the context
         w2 == IF parent THEN (IF dcfg.mode = "ctx" THEN Return(w1, dcfg.ctxout) ELSE [w1 EXCEPT !.r = Adv(w1.r)]) ELSE w1
     IN Commit("start", "s1", "none", w2, [st EXCEPT !["s1"] = "done"], [NoRes EXCEPT !["s1"] = {R("nil")}], NoX, alt)

CancelOp ==
  /\ ~parent /\ parent' = TRUE /\ UNCHANGED started
  /\ Commit("cancel", "none", "none", IF started THEN CtxEnd(W) ELSE W, st, NoRes, NoX, alt)

CloseOp(c) ==
  /\ st[c] = "idle" /\ loop # "fuzzy" /\ UNCHANGED <<parent, started>>
  /\ Commit("close", c, "none", IF started /\ ~r.fin THEN CtxEnd(W) ELSE W,
            [st EXCEPT ![c] = "done"], [NoRes EXCEPT ![c] = {R("done")}], NoX, alt)

\* the driver lets the base run in progress return outcome k
FinishOp(k) ==
  /\ loop = "run" /\ UNCHANGED <<parent, started>>
  /\ LET restart == k \in {"ok", "error"} /\ ~r.ctx /\ (dcfg.pace = "zero" \/ stale)
         w2 == Return(W, k)
         \* StaleTick = "either": the documentation has the loop parked here, the code restarts
         altr == IF restart /\ dcfg.pace = "never" /\ StaleTick = "either" THEN {runs} ELSE {}
     IN /\ restart => runs < MaxRuns
        /\ Commit("finish", "none", k, w2, st, NoRes, [NoX EXCEPT !.run = altr], alt)

WaitOp(x) ==
  /\ started /\ st[x] = "idle" /\ loop # "fuzzy" /\ UNCHANGED <<parent, started>>
  /\ Commit("wait", x, "none", W, [st EXCEPT ![x] = "pend"], NoRes, NoX, alt)

(* ---- bursts: two driver actions with no quiescent point between them ---- *)
\* burst(k): the base run in progress returns k \in {ok, error} and the context is cancelled at once.  The
\* loop's examination of the context (line 408) and its select (line 415) race with the cancellation
\* (DaemonImpl.tla): the error may or may not be collected ("errors that occur after the context has
\* been canceled" - this one occurred before, and was examined before or after); when the timer arm is
\* ready the select may take it: one more base run is then invoked with a context that has already ended
\* (DaemonImpl!AtMostOneLate).  Nothing else is allowed.  The following step is drain: every base run in
\* progress is let return (ok) until none is; then the outcome is exact again up to those two choices.
BurstOp(k) ==
  /\ Bursts /\ loop = "run" /\ ~r.ctx /\ ~parent /\ runs < MaxRuns /\ parent' = TRUE /\ UNCHANGED started
  /\ LET lateP == dcfg.pace = "zero" \/ stale
         w2 == [W EXCEPT !.loop = "fuzzy", !.r = Adv([@ EXCEPT !.ctx = TRUE]),
                         !.opt = IF k = "error" THEN @ \cup {ETok(runs)} ELSE @]
         fin == Stop(w2)
     IN Commit("burst", "none", k, w2, st, NoRes,
               [run |-> IF lateP THEN {runs + 1} ELSE {}, clean |-> {fin.r.cnt.clean}, eh |-> {0, 1},
                infl |-> IF lateP /\ dcfg.mode = "gate" THEN {1} ELSE {}, blocked |-> TRUE, fin |-> fin],
               [run |-> IF lateP THEN {runs + 1} ELSE {}, eh |-> {}])

DrainOp ==
  /\ loop = "fuzzy" /\ UNCHANGED <<parent, started>>
  /\ LET w2 == Stop(W)
         ehAlt == IF scfg.eh # "absent" /\ w2.r.errs = {} /\ opt # {} THEN {1} ELSE {}
     IN Commit("drain", "none", "none", w2, st, NoRes, NoX, [alt EXCEPT !.eh = ehAlt])

Step == \/ StartOp \/ CancelOp
        \/ \E c \in Closers : CloseOp(c)
        \/ \E k \in FinKinds : FinishOp(k)
        \/ \E k \in FinKinds \cap {"ok", "error"} : BurstOp(k)
        \/ DrainOp
        \/ \E x \in Waiters : WaitOp(x)
Next == Len(hist) < Depth /\ Step
Spec == Init /\ [][Next]_vars

(* sanity of the abstract spec itself: the documented contract read at quiescent points *)
Inv == /\ (\E x \in Waiters : st[x] = "done") => (loop = "done" /\ r.alldone)   \* Wait returned => no base run in progress
       /\ loop = "run" => (runs >= 1 /\ r.run = "in")
       /\ loop = "parked" => (dcfg.pace = "never" /\ ~r.ctx)
       /\ loop = "done" <=> r.run = "ret"
       /\ loop = "fuzzy" => (r.ctx /\ parent)
       /\ kept \cap dropped = {} \/ PanicLoses = "code"
       /\ (r.run = "ret" /\ opt = {} /\ PanicLoses # "code") => kept \subseteq r.errs
       /\ r.errs \cap dropped = {}
       /\ \A f \in {"shut", "clean", "eh"} : r.cnt[f] <= 1
       /\ r.cnt.shut = 1 => r.ctx                       \* base Shutdown only after the context ended
       /\ r.cnt.clean = 1 => loop = "done"              \* base Cleanup only after the loop returned
       /\ (r.ctx /\ dcfg.mode = "ctx") => loop \in {"idle", "done", "fuzzy"}   \* a base that honours its context is not left running
       /\ runs <= MaxRuns

\* "a base run is never started after the stop was observable" (other than the first, O2)
NoRestartAfterStop == [][(runs' > runs /\ runs >= 1) => (~r.ctx /\ ~r'.ctx)]_vars

Beh(h) == [cfg |-> dcfg, steps |-> h]
EmitAll  == (Len(hist) < Depth /\ ENABLED Step) \/ PrintT(<<"BEH", ToJson(Beh(hist))>>)
EmitEdge == PrintT(<<"BEH", ToJson(Beh(hist'))>>)
=============================================================================
