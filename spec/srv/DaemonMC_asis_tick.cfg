SPECIFICATION Spec
CONSTANTS
  Mode = "gate"
  Pace = "never"
  CtxOut = "error"
  FinKinds = {"ok", "error", "canceled", "panic"}
  MaxRuns = 4
  RecoverFix = FALSE
  StaleInit = TRUE
INVARIANT PacedRestart
CHECK_DEADLOCK FALSE
