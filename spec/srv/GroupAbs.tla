----------------------------- MODULE GroupAbs -----------------------------
(* Abstract, quiescence-stepped specification of srv.Group (property C11).     *)
(* Members are harness-supplied services (gate / ctx mode, outcome ok / error  *)
(* / panic).  Driver steps: start = go g.Start(ctx); cancel; close = g.Close();*)
(* finish(m); wait(w) = go g.Wait(); starthold / relhold = start the group     *)
(* while one member is parked inside its own Start (yield point                *)
(* srv.Service.Start.launched, its Run already invoked), resp. release it.     *)
(*                                                                            *)
(* Pre-states (Pres): a member is new, or somebody else - the client, with a   *)
(* context of its own - started it before the group does and it is still       *)
(* running ("running": such members return only when the driver says so, gate  *)
(* mode) or has already returned ("finished").  g.Start then finds it started  *)
(* (Service.Start answers ErrServiceAlreadyStarted / ErrServiceReturned) and   *)
(* does not start it again; "awaits them all" covers it like the orchestrator  *)
(* clause of C11 does: g.Wait() stays blocked while it has not returned and    *)
(* collects its failure.  A running member may also return before the group    *)
(* is started.  Outcome kinds as in CleanupAbs (plain error, panic, errors     *)
(* wrapping io.EOF / a context error).                                         *)
(*                                                                            *)
(* Sym = TRUE explores member configurations up to renaming only (sorted along *)
(* the member names); the position of a member in the group's input then is    *)
(* not varied, which the random schedules (Group_sim) and the thorough tier    *)
(* (Sym = FALSE) do.                                                           *)
(*                                                                            *)
(* Reading (DESIGN 4: weakest obligation): "the group's own context" ends when *)
(* the group's Run returns (C10's vocabulary), which the code does as soon as  *)
(* every member was started.  Hence a ctx-mode member may or may not have      *)
(* returned once the group is started; nothing is demanded of it until the     *)
(* group is closed / cancelled.  Judged: every member is started exactly once  *)
(* by g.Start; g.Wait() stays blocked while a member that ignores its context  *)
(* (gate mode) has not returned; when it returns its result satisfies          *)
(* errors.Is for every member failure.                                         *)
(***************************************************************************)
EXTENDS Integers, Sequences, FiniteSets, TLC, Json

CONSTANTS Members, Waiters, Kinds, Modes, Pres, Depth, Hook, Sym

VARIABLES ucfg, started, ended, held, mst, st, hist
vars == <<ucfg, started, ended, held, mst, st, hist>>
view == <<ucfg, started, ended, held, mst, st>>

OpIds == Waiters \cup {"gs"}

KindOrd == <<"ok", "error", "panic", "eof", "canceled", "deadline">>
ModeOrd == <<"gate", "ctx">>
PreOrd  == <<"new", "running", "finished">>
NameOrd == <<"a", "b", "c", "d", "e">>
Idx(s, x) == CHOOSE i \in 1..Len(s) : s[i] = x
Rank(c) == Idx(PreOrd, c.pre) * 100 + Idx(ModeOrd, c.mode) * 10 + Idx(KindOrd, c.kind)
Sorted(u) == \A x, y \in Members : Idx(NameOrd, x) < Idx(NameOrd, y) => Rank(u[x]) <= Rank(u[y])
ErrKinds == {"error", "eof", "canceled", "deadline"}

\* members somebody else started run on that owner's context: gate mode
Cfgs == {c \in [kind : Kinds, mode : Modes, pre : Pres] : c.pre # "new" => c.mode = "gate"}
Init == /\ ucfg \in {u \in [Members -> Cfgs] : Sym => Sorted(u)}
        /\ started = FALSE /\ ended = FALSE /\ held = FALSE
        /\ mst = [m \in Members |-> IF ucfg[m].pre = "running" THEN "in" ELSE IF ucfg[m].pre = "finished" THEN "ret" ELSE "idle"]
        /\ st = [o \in OpIds |-> "idle"] /\ hist = <<>>

R(k) == [k |-> k, must |-> {}, pan |-> "any", nil |-> "any"]
Fail(m) == IF ucfg[m].kind \in ErrKinds THEN {"e:" \o m} ELSE IF ucfg[m].kind = "panic" THEN {"p:" \o m} ELSE {}
Agg == [k |-> "agg", must |-> UNION {Fail(m) : m \in Members},
        pan |-> IF \E m \in Members : ucfg[m].kind = "panic" THEN "t" ELSE "any", nil |-> "any"]

\* members that certainly have not returned / that may not have returned
Must(ms) == {m \in Members : ms[m] = "in" /\ ucfg[m].mode = "gate"}
May(ms, en) == Must(ms) \cup {m \in Members : ms[m] = "in" /\ ucfg[m].mode = "ctx" /\ ~en}

Commit(op, id, arg, ms, en, hd, st2, res2) ==
  LET WAllow == (IF May(ms, en) # {} \/ hd THEN {R("blocked")} ELSE {}) \cup (IF Must(ms) = {} /\ ~hd THEN {Agg} ELSE {})
      wdone == {w \in Waiters : st2[w] = "pend" /\ May(ms, en) = {} /\ ~hd}
      st3   == [o \in OpIds |-> IF o \in wdone THEN "done" ELSE st2[o]]
      Allow(o) == IF o \in Waiters /\ st2[o] = "pend" THEN WAllow ELSE res2[o]
      listed == {o \in OpIds : st2[o] = "pend" \/ (st3[o] = "done" /\ st[o] # "done")}
  IN /\ mst' = ms /\ ended' = en /\ held' = hd /\ st' = st3 /\ ucfg' = ucfg
     /\ hist' = Append(hist, [op |-> op, id |-> id, arg |-> arg,
                  exp |-> [ops |-> {[id |-> o, allow |-> Allow(o)] : o \in listed},
                           cnt |-> {[id |-> m, allow |-> IF ms[m] = "idle" THEN {0} ELSE {1}] : m \in Members},
                           started |-> {}, seen |-> {}]])

NoRes == [o \in OpIds |-> {}]
AllIn == [m \in Members |-> IF mst[m] = "idle" THEN "in" ELSE mst[m]]

StartOp == /\ ~started /\ started' = TRUE
           /\ Commit("start", "gs", "none", AllIn, ended, FALSE, [st EXCEPT !["gs"] = "done"], [NoRes EXCEPT !["gs"] = {R("nil")}])

\* all members ignore their context here, so the observations do not depend on which member is parked
StartHold == /\ Hook /\ ~started /\ started' = TRUE /\ \A m \in Members : ucfg[m].mode = "gate" /\ ucfg[m].pre = "new"
             /\ Commit("starthold", "gs", "none", AllIn, ended, TRUE, [st EXCEPT !["gs"] = "done"], [NoRes EXCEPT !["gs"] = {R("nil")}])

RelHold == /\ held /\ UNCHANGED started
           /\ Commit("relhold", "none", "none", mst, ended, FALSE, st, NoRes)

EndOp(op) == /\ started /\ ~ended /\ UNCHANGED started
             /\ Commit(op, "none", "none", mst, TRUE, held, st, NoRes)

\* (not while a member is parked: which member that is is not controlled, so no member may differ from the others)
FinishOp(m) == /\ mst[m] = "in" /\ ucfg[m].mode = "gate" /\ ~held /\ UNCHANGED started
               /\ Commit("finish", "none", m, [mst EXCEPT ![m] = "ret"], ended, held, st, NoRes)

WaitOp(w) == /\ started /\ st[w] = "idle" /\ UNCHANGED started
             /\ Commit("wait", w, "none", mst, ended, held, [st EXCEPT ![w] = "pend"], NoRes)

Step == \/ StartOp \/ StartHold \/ RelHold \/ EndOp("cancel") \/ EndOp("close")
        \/ \E m \in Members : FinishOp(m)
        \/ \E w \in Waiters : WaitOp(w)
Next == Len(hist) < Depth /\ Step
Spec == Init /\ [][Next]_vars

Inv == \A w \in Waiters : st[w] = "done" => Must(mst) = {}

Units == {[name |-> m, kind |-> ucfg[m].kind, mode |-> ucfg[m].mode, pre |-> ucfg[m].pre] : m \in Members}
Beh(h) == [cfg |-> [comp |-> "group", units |-> Units, workers |-> 0, cont |-> FALSE], steps |-> h]
EmitAll  == (Len(hist) < Depth /\ ENABLED Step) \/ PrintT(<<"BEH", ToJson(Beh(hist))>>)
EmitEdge == PrintT(<<"BEH", ToJson(Beh(hist'))>>)
=============================================================================
