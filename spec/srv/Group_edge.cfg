SPECIFICATION Spec
CONSTANTS
  Members = {"a", "b", "c"}
  Waiters = {"w1"}
  Kinds = {"ok", "error", "panic"}
  Modes = {"gate", "ctx"}
  Depth = 10
  Hook = TRUE
INVARIANT Inv
VIEW view
ACTION_CONSTRAINT EmitEdge
CHECK_DEADLOCK FALSE
