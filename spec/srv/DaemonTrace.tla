---------------------------- MODULE DaemonTrace ----------------------------
(* Code -> model: validates event histories recorded from the real srv.Daemon  *)
(* (vh-srv record-x03d: free-running base runs that return by themselves after *)
(* random yields, Wait / Close / cancel from other goroutines; and the logs of  *)
(* every replay-x03d behaviour) against the documented contract of Daemon read  *)
(* as a property automaton over the global event order (DaemonAbs D1-D4, O1-O3, *)
(* the interleaving freedom of DaemonImpl.tla).                                 *)
(*                                                                            *)
(* Events: cfg; call / ret of start | close | wait; cb_enter / cb_exit of the   *)
(* base run (n = its number) and of shut | clean | eh; act cancel (logged       *)
(* BEFORE the parent context is cancelled), act cancelled (logged AFTER the     *)
(* cancel function returned); end.  cb_enter is the first, cb_exit the last     *)
(* statement of a callback.  Hence                                              *)
(*   stopDone (a `cancelled`, or the ret of a close) precedes cb_exit(run n)    *)
(*       => the loop examined the context after it had ended: the error of run  *)
(*          n is not collected and no further base run is invoked;              *)
(*   cb_enter(run n+1) precedes stopBegun (`cancel`, call of close)             *)
(*       => the loop examined run n while the context was live: a plain error   *)
(*          of run n is collected;                                              *)
(*   anything between leaves both outcomes open (DaemonImpl: Check vs Cancel).  *)
(* The automaton only requires orders the contract demands of every execution,  *)
(* so it cannot reject a conforming one.                                        *)
(*                                                                            *)
(* PanicLoses / StaleTick as in DaemonAbs ("either" in the registered cfg).     *)
(***************************************************************************)
EXTENDS Integers, Sequences, FiniteSets, TLC, Json

CONSTANTS PanicLoses, StaleTick

Trace == ndJsonDeserialize("trace.ndjson")

VARIABLES l, cfg, started, stopBegun, stopDone, nruns, running, outk, noMore, sure, gone, nin, exited, outs, jw
vars == <<l, cfg, started, stopBegun, stopDone, nruns, running, outk, noMore, sure, gone, nin, exited, outs, jw>>

Ev == Trace[l]
More == l <= Len(Trace)
Fns == {"shut", "clean", "eh"}
NoCfg == [mode |-> "gate", pace |-> "zero", shut |-> "absent", clean |-> "absent", eh |-> "absent"]
CtxErr == {"canceled", "deadline"}

Start0 == /\ cfg' = NoCfg /\ started' = FALSE /\ stopBegun' = FALSE /\ stopDone' = FALSE /\ nruns' = 0
          /\ running' = FALSE /\ outk' = <<>> /\ noMore' = FALSE /\ sure' = {} /\ gone' = {}
          /\ nin' = [f \in Fns |-> 0] /\ exited' = {} /\ outs' = [f \in Fns |-> "-"] /\ jw' = {}
Init == /\ l = 1 /\ cfg = NoCfg /\ started = FALSE /\ stopBegun = FALSE /\ stopDone = FALSE /\ nruns = 0
        /\ running = FALSE /\ outk = <<>> /\ noMore = FALSE /\ sure = {} /\ gone = {}
        /\ nin = [f \in Fns |-> 0] /\ exited = {} /\ outs = [f \in Fns |-> "-"] /\ jw = {}

Reset == /\ More /\ Ev.ev = "reset" /\ Start0 /\ l' = l + 1

Cfg == /\ More /\ Ev.ev = "cfg"
       /\ cfg' = [mode |-> Ev.mode, pace |-> Ev.pace, shut |-> Ev.shut, clean |-> Ev.clean, eh |-> Ev.eh]
       /\ l' = l + 1 /\ UNCHANGED <<started, stopBegun, stopDone, nruns, running, outk, noMore, sure, gone, nin, exited, outs, jw>>

Call == /\ More /\ Ev.ev = "call"
        /\ stopBegun' = (stopBegun \/ (Ev.op = "close" /\ started))
        /\ jw' = IF Ev.op = "wait" /\ started THEN jw \cup {Ev.id} ELSE jw
        /\ l' = l + 1 /\ UNCHANGED <<cfg, started, stopDone, nruns, running, outk, noMore, sure, gone, nin, exited, outs>>

Act == /\ More /\ Ev.ev = "act"
       /\ stopBegun' = TRUE
       /\ stopDone' = (stopDone \/ Ev.what = "cancelled")
       /\ l' = l + 1 /\ UNCHANGED <<cfg, started, nruns, running, outk, noMore, sure, gone, nin, exited, outs, jw>>

RetStart == /\ More /\ Ev.ev = "ret" /\ Ev.op = "start" /\ Ev.res = "nil" /\ ~started
            /\ started' = TRUE
            /\ l' = l + 1 /\ UNCHANGED <<cfg, stopBegun, stopDone, nruns, running, outk, noMore, sure, gone, nin, exited, outs, jw>>

\* a Close that returned after the daemon was started has ended its context
RetClose == /\ More /\ Ev.ev = "ret" /\ Ev.op = "close"
            /\ stopDone' = (stopDone \/ (started /\ stopBegun))
            /\ l' = l + 1 /\ UNCHANGED <<cfg, started, stopBegun, nruns, running, outk, noMore, sure, gone, nin, exited, outs, jw>>

(* ---- the base runs ---- *)
\* one at a time, numbered consecutively; none after a run that returned a context error, panicked, or
\* returned after the context had certainly ended (D2, D3, O1); with an interval that never elapses
\* there is no restart (StaleTick: but for the first)
MaxNever == IF StaleTick = "doc" THEN 1 ELSE 2
RunEnter == /\ More /\ Ev.ev = "cb_enter" /\ Ev.fn = "run"
            /\ ~running /\ Ev.n = nruns + 1 /\ ~noMore
            /\ cfg.pace = "never" => Ev.n <= MaxNever
            /\ nruns' = Ev.n /\ running' = TRUE
            \* the previous run was examined under a live context: its plain error is certainly collected
            /\ sure' = IF Ev.n > 1 /\ ~stopBegun /\ outk[Ev.n - 1] = "error" THEN sure \cup {Ev.n - 1} ELSE sure
            /\ l' = l + 1 /\ UNCHANGED <<cfg, started, stopBegun, stopDone, outk, noMore, gone, nin, exited, outs, jw>>

RunExit == /\ More /\ Ev.ev = "cb_exit" /\ Ev.fn = "run"
           /\ running /\ Ev.n = nruns
           /\ running' = FALSE /\ outk' = Append(outk, Ev.out)
           /\ noMore' = (Ev.out \in CtxErr \cup {"panic"} \/ stopDone)
           \* returned after the context had certainly ended, or a context error: certainly not collected
           /\ gone' = IF stopDone \/ Ev.out \in CtxErr THEN gone \cup {Ev.n} ELSE gone
           /\ l' = l + 1 /\ UNCHANGED <<cfg, started, stopBegun, stopDone, nruns, sure, nin, exited, outs, jw>>

(* ---- base Shutdown / Cleanup / handler (the Service machinery, C10) ---- *)
Present(f) == cfg[f] \notin {"absent", "late"}
Gone(f) == ~Present(f) \/ f \in exited
LoopMayBeOver == ~running /\ nruns >= 1 /\ (noMore \/ stopBegun)
CbEnter == /\ More /\ Ev.ev = "cb_enter" /\ Ev.fn \in Fns
           /\ nin[Ev.fn] = 0 /\ Present(Ev.fn)
           /\ Ev.fn = "shut" => (stopBegun \/ noMore)            \* only after the context ended (O2: once)
           /\ Ev.fn = "clean" => (LoopMayBeOver /\ Gone("shut"))  \* only after the loop returned
           /\ Ev.fn = "eh" => (LoopMayBeOver /\ Gone("shut") /\ Gone("clean") /\ Ev.argnil = 0)
           /\ nin' = [nin EXCEPT ![Ev.fn] = 1]
           /\ l' = l + 1 /\ UNCHANGED <<cfg, started, stopBegun, stopDone, nruns, running, outk, noMore, sure, gone, exited, outs, jw>>

CbExit == /\ More /\ Ev.ev = "cb_exit" /\ Ev.fn \in Fns
          /\ exited' = exited \cup {Ev.fn} /\ outs' = [outs EXCEPT ![Ev.fn] = Ev.out]
          /\ l' = l + 1 /\ UNCHANGED <<cfg, started, stopBegun, stopDone, nruns, running, outk, noMore, sure, gone, nin, jw>>

(* ---- Wait ---- *)
IsSet == {Ev.is[i] : i \in 1..Len(Ev.is)}
Panicked == \E n \in 1..Len(outk) : outk[n] = "panic"
ETok(n) == "e" \o ToString(n)
PTok(n) == "p" \o ToString(n)
PhaseTok == [shut |-> [error |-> "eShut", panic |-> "pShut"], clean |-> [error |-> "eClean", panic |-> "pClean"]]
PhaseToks == {PhaseTok[f][outs[f]] : f \in {g \in {"shut", "clean"} : outs[g] \in {"error", "panic"}}}
\* tokens Wait() must report: the panic, the phases' failures, the errors certainly collected (unless a
\* later panic loses them - PanicLoses)
Must == PhaseToks \cup {PTok(n) : n \in {m \in 1..Len(outk) : outk[m] = "panic"}}
        \cup (IF Panicked /\ PanicLoses # "doc" THEN {} ELSE {ETok(n) : n \in sure})
\* tokens it may report
May == Must \cup (IF Panicked /\ PanicLoses = "code" THEN {}
                  ELSE {ETok(n) : n \in {m \in 1..Len(outk) : outk[m] = "error" /\ m \notin gone}})
RetWait == /\ More /\ Ev.ev = "ret" /\ Ev.op = "wait"
           /\ Ev.id \in jw =>
                /\ Ev.res = "agg"
                /\ LoopMayBeOver /\ Gone("shut") /\ Gone("clean")     \* no base run in progress
                /\ Must \subseteq IsSet /\ IsSet \subseteq May          \* exactly the documented errors
                /\ (Ev.pan = 1) <=> (Must \cap ({PTok(n) : n \in 1..Len(outk)} \cup {"pShut", "pClean"}) # {})
                /\ Must # {} => Ev.nil = 0
                /\ (Ev.nil = 1) <=> (IsSet = {} /\ Ev.pan = 0)
           /\ l' = l + 1 /\ UNCHANGED <<cfg, started, stopBegun, stopDone, nruns, running, outk, noMore, sure, gone, nin, exited, outs, jw>>

\* the history is over: the daemon (if started) was cancelled, closed, every base run let return, all awaited
End == /\ More /\ Ev.ev = "end"
       /\ (Ev.complete = 1 /\ started) =>
            /\ ~running /\ nruns >= 1
            /\ \A f \in {"shut", "clean"} : Present(f) => (nin[f] = 1 /\ f \in exited)
            /\ cfg.eh = "late" => nin["eh"] = 0
       /\ l' = l + 1 /\ UNCHANGED <<cfg, started, stopBegun, stopDone, nruns, running, outk, noMore, sure, gone, nin, exited, outs, jw>>

Normal == Reset \/ Cfg \/ Call \/ Act \/ RetStart \/ RetClose \/ RunEnter \/ RunExit \/ CbEnter \/ CbExit \/ RetWait \/ End

NextReset == LET S == {j \in (l + 1)..Len(Trace) : Trace[j].ev = "reset"}
             IN IF S = {} THEN Len(Trace) + 1 ELSE CHOOSE j \in S : \A k \in S : j <= k
Skip == /\ More /\ ~ENABLED Normal
        /\ PrintT(<<"REJECTED", ToJson([at |-> l, event |-> Ev])>>)
        /\ l' = NextReset
        /\ UNCHANGED <<cfg, started, stopBegun, stopDone, nruns, running, outk, noMore, sure, gone, nin, exited, outs, jw>>

Next == Normal \/ Skip
Spec == Init /\ [][Next]_vars

HighWater == TLCSet(1, IF TLCGet(1) < l THEN l ELSE TLCGet(1))
Accepted == \/ TLCGet(1) = Len(Trace) + 1
            \/ PrintT(<<"STUCK", ToJson([at |-> TLCGet(1)])>>) /\ FALSE
ASSUME TLCSet(1, 0)
=============================================================================
