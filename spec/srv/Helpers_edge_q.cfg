SPECIFICATION Spec
CONSTANTS
  Slots = {"c1", "c2"}
  Orchs = {"o1", "o2"}
  Jobs = {"j1"}
  Kinds = {"error", "errval"}
  Depth = 8
  OpSet = {"setsig", "sigcall", "setbase", "withorch", "setorch", "withcleanup", "add", "cancel", "owait"}
  NoopSecondSignal = "either"
  PanicSecondBase = "either"
  PanicSecondOrch = "either"
  FinishedOrch = "panic"
  RunningAfterEnd = FALSE
INVARIANT Inv
VIEW view
ACTION_CONSTRAINT EmitEdge
CHECK_DEADLOCK FALSE
