SPECIFICATION Spec
CONSTANTS
  Members = {"a", "b", "c"}
  Waiters = {"w1"}
  Kinds = {"ok", "error", "panic"}
  Modes = {"gate", "ctx"}
  Pres = {"new", "running", "finished"}
  Depth = 10
  Hook = TRUE
  Sym = TRUE
INVARIANT Inv
VIEW view
ACTION_CONSTRAINT EmitEdge
CHECK_DEADLOCK FALSE
