SPECIFICATION Spec
CONSTANTS
  Mode = "ctx"
  Pace = "never"
  CtxOut = "error"
  FinKinds = {"ok", "error", "canceled", "panic"}
  MaxRuns = 4
  RecoverFix = TRUE
  StaleInit = FALSE
INVARIANT Inv
INVARIANT CollectedSurvive
INVARIANT PacedRestart
PROPERTY Stops
CHECK_DEADLOCK FALSE
