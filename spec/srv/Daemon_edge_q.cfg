SPECIFICATION Spec
CONSTANTS
  Modes = {"gate", "ctx"}
  Paces = {"zero", "never"}
  ShutKinds = {"error"}
  CleanKinds = {"absent", "error"}
  EhKinds = {"ok", "late"}
  CtxOuts = {"error", "canceled"}
  FinKinds = {"ok", "error", "canceled", "panic"}
  MaxRuns = 3
  Waiters = {"w1"}
  Closers = {"c1"}
  Depth = 8
  Bursts = TRUE
  PanicLoses = "either"
  StaleTick = "either"
INVARIANT Inv
VIEW view
ACTION_CONSTRAINT EmitEdge
CHECK_DEADLOCK FALSE
