SPECIFICATION Spec
CONSTANTS
  Comps = {"worker"}
  Units = {"a", "b"}
  Kinds = {"ok", "error", "panic"}
  Modes = {"gate", "ctx"}
  Pres = {"new"}
  Workers = {"k1", "k2"}
  Waiters = {"w1"}
  Depth = 4
  Hook = TRUE
  WorkerEarly = "doc"
  WaitPanicRace = "either"
INVARIANT Inv
VIEW view
ACTION_CONSTRAINT EmitEdge
CHECK_DEADLOCK FALSE
