--------------------------- MODULE QueueLinTrace ---------------------------
(* Code -> model: a history recorded from the real pubsub.Queue must be a     *)
(* linearizable history of QueueCore, consistent with real-time order (C05),  *)
(* and at every `quiescent` event no pending operation may be enabled (C07).  *)
(* Events: reset(kind,hard,soft,credit) / call(id,op,arg) / ret(id,res) /     *)
(* cancel(id) / quiescent(blocked,len).                                       *)
(***************************************************************************)
EXTENDS QueueCore, FiniteSets, Json

Trace == ndJsonDeserialize("trace.ndjson")

\* TRUE: also judge the blocking obligations of C07 at quiescent events (nothing enabled stays
\* blocked); FALSE: linearizability only (C05) - a blocked operation merely has had no effect.
CONSTANT StrictQuiet

VARIABLES l, q, pend, cancelled
vars == <<l, q, pend, cancelled>>

Ev == Trace[l]
More == l <= Len(Trace)

Init == l = 1 /\ q = QNew(NoLimit) /\ pend = {} /\ cancelled = {}

MkTracker(e) == IF e.kind = "nolimit" THEN NoLimit ELSE Quota(e.hard, e.soft, e.credit)

Reset == /\ More /\ Ev.ev = "reset"
         /\ q' = QNew(MkTracker(Ev)) /\ pend' = {} /\ cancelled' = {} /\ l' = l + 1

Call == /\ More /\ Ev.ev = "call"
        /\ pend' = pend \cup {[id |-> Ev.id, op |-> Ev.op, arg |-> Ev.arg, lin |-> FALSE, res |-> "-"]}
        /\ l' = l + 1 /\ UNCHANGED <<q, cancelled>>

Lin == \E p \in pend :
         /\ ~p.lin
         /\ \E o \in Apply(q, p.op, p.arg, p.id \in cancelled) :
              /\ q' = o.q
              /\ pend' = (pend \ {p}) \cup {[p EXCEPT !.lin = TRUE, !.res = o.res]}
         /\ UNCHANGED <<l, cancelled>>

Ret == /\ More /\ Ev.ev = "ret"
       /\ \E p \in pend : p.id = Ev.id /\ p.lin /\ p.res = Ev.res /\ pend' = pend \ {p}
       /\ l' = l + 1 /\ UNCHANGED <<q, cancelled>>

Cancel == /\ More /\ Ev.ev = "cancel"
          /\ cancelled' = cancelled \cup {Ev.id}
          /\ l' = l + 1 /\ UNCHANGED <<q, pend>>

\* nothing is running: whatever is still pending is a blocking operation that has not taken
\* effect and is not enabled in the abstract state; Len() is the number of queued items
Quiet == /\ More /\ Ev.ev = "quiescent"
         /\ \A p \in pend : ~p.lin /\ IsBlocking(p.op)
         /\ StrictQuiet => \A p \in pend : ~Enabled(q, p.op, p.arg, p.id \in cancelled)
         /\ {p.id : p \in pend} = {Ev.blocked[i] : i \in 1..Len(Ev.blocked)}
         /\ Ev.len = Len(q.items)
         /\ l' = l + 1 /\ UNCHANGED <<q, pend, cancelled>>

Next == Reset \/ Call \/ Lin \/ Ret \/ Cancel \/ Quiet
Spec == Init /\ [][Next]_vars

Inv == QOK(q)

HighWater == TLCSet(1, IF TLCGet(1) < l THEN l ELSE TLCGet(1))
Accepted == \/ TLCGet(1) = Len(Trace) + 1
            \/ PrintT(<<"REJECTED", ToJson([at |-> TLCGet(1), event |-> Trace[TLCGet(1)]])>>) /\ FALSE
ASSUME TLCSet(1, 0)
=============================================================================
