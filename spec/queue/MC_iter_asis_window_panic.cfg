SPECIFICATION Spec
CONSTANTS
  Iters = {i1}
  Producers = {}
  MaxAdds = 2
  MaxCalls = 2
  Budget = 3
  SoftCap = 100
  AllowRemove = TRUE
  OneSection = FALSE
  AddBroadcasts = TRUE
INVARIANTS NoPanic

CHECK_DEADLOCK FALSE
