SPECIFICATION Spec
CONSTANTS
  Consumers = {c1, c2}
  Producers = {p1, p2}
  Cap = 1
  Budget = 3
  HelperLocked = TRUE
  BAddChecksClosed = TRUE
INVARIANTS TypeOK NoStuck NoLeak ResultsOK
PROPERTIES Settles
CHECK_DEADLOCK FALSE
