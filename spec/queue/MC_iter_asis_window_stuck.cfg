SPECIFICATION Spec
CONSTANTS
  Iters = {i1}
  Producers = {}
  MaxAdds = 2
  MaxCalls = 2
  Budget = 2
  SoftCap = 100
  AllowRemove = FALSE
  OneSection = FALSE
  AddBroadcasts = TRUE
INVARIANTS NoStuckIter

CHECK_DEADLOCK FALSE
