----------------------------- MODULE QueueCore -----------------------------
(* Sequential meaning of pubsub.Queue (property C05) as pure operators.       *)
(* A queue value is [items, closed, tr]; every operator returns the SET of    *)
(* allowed outcomes [q, res, amb] (more than one only where float rounding    *)
(* of the burst credit makes the Go result legitimately ambiguous, see        *)
(* Tracker.tla).  Results are strings: "ok" "full" "nocredit" "closed"        *)
(* "none" "ctx", an item value, or a decimal length.                          *)
(*                                                                            *)
(* Blocking operations (Wait, BlockingAdd, Distributor.Receive) have an       *)
(* enabling condition (property C07): they complete exactly when it holds.    *)
(***************************************************************************)
EXTENDS Tracker, Sequences, TLC

QNew(tr) == [items |-> <<>>, closed |-> FALSE, tr |-> tr]

Out(q, r, a) == [q |-> q, res |-> r, amb |-> a]

\* Add / Distributor.Send
QAdd(q, v) ==
  IF q.closed THEN {Out(q, "closed", FALSE)}
  ELSE {IF o.res = "ok" THEN Out([q EXCEPT !.items = Append(@, v), !.tr = o.t], "ok", o.amb)
                        ELSE Out(q, o.res, o.amb) : o \in TrAdd(q.tr)}

\* Remove: items queued before Close remain removable
QRemove(q) ==
  IF q.items = <<>> THEN {Out(q, "none", FALSE)}
  ELSE {Out([q EXCEPT !.items = Tail(@), !.tr = TrRemove(@)], Head(q.items), FALSE)}

QLen(q) == {Out(q, ToString(Len(q.items)), FALSE)}

QClose(q) == {Out([q EXCEPT !.closed = TRUE], "ok", FALSE)}

\* Wait / Distributor.Receive: an item whenever non-empty; ErrQueueClosed when empty and closed;
\* a context error (no effect) when its context is cancelled
QWait(q, cancelled) ==
  (IF q.items # <<>> THEN QRemove(q) ELSE {})
  \cup (IF q.items = <<>> /\ q.closed THEN {Out(q, "closed", FALSE)} ELSE {})
  \cup (IF cancelled THEN {Out(q, "ctx", FALSE)} ELSE {})

\* BlockingAdd: like Add once cap() > len(); ErrQueueClosed when closed; ctx error when cancelled
QBlockingAdd(q, v, cancelled) ==
  (IF q.closed THEN {Out(q, "closed", FALSE)} ELSE {})
  \cup (IF ~q.closed /\ TrCap(q.tr) > TrLen(q.tr) THEN QAdd(q, v) ELSE {})
  \cup (IF cancelled THEN {Out(q, "ctx", FALSE)} ELSE {})

IsBlocking(op) == op \in {"wait", "drecv", "badd"}

\* outcomes of operation [op, arg] on q
Apply(q, op, arg, cancelled) ==
  CASE op \in {"add", "dsend"} -> QAdd(q, arg)
    [] op = "remove"           -> QRemove(q)
    [] op \in {"len", "dlen"}  -> QLen(q)
    [] op = "close"            -> QClose(q)
    [] op \in {"wait", "drecv"} -> QWait(q, cancelled)
    [] op = "badd"             -> QBlockingAdd(q, arg, cancelled)

Enabled(q, op, arg, cancelled) == Apply(q, op, arg, cancelled) # {}

\* C05 state invariants
QOK(q) == /\ TrOK(q.tr)
          /\ TrLen(q.tr) = Len(q.items)
=============================================================================
