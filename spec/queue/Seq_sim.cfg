SPECIFICATION Spec
CONSTANTS
  Scale = 60
  Depth = 40
  Configs <- CfgAll
INVARIANTS Inv LenBound
CONSTRAINT EmitAll
CHECK_DEADLOCK FALSE
