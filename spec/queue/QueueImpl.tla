----------------------------- MODULE QueueImpl -----------------------------
(* Implementation-shaped specification of the blocking side of pubsub.Queue   *)
(* (/repo/pubsub/queue.go), for property C07: no missed wake-up.              *)
(*                                                                            *)
(*   Consumers  run Wait           queue.go:182-213  (unsafeWaitWhileEmpty)   *)
(*   Producers  run BlockingAdd    queue.go:139-165                           *)
(*   helpers    the per-call goroutine `<-ctx.Done(); cond.Broadcast()`       *)
(*   External   Add, Remove, Close (each one critical section), Start, Cancel *)
(*                                                                            *)
(* Two condition variables on one mutex: nempty (consumers) and nupdates      *)
(* (producers, iterators).  doAdd signals nempty only when the length         *)
(* becomes 1 and always signals nupdates; popFront broadcasts nupdates;       *)
(* Close broadcasts both.  Item values are irrelevant for wake-ups, only the  *)
(* length is kept (FIFO order is the subject of QueueCore / C05).             *)
(*                                                                            *)
(* Switches (TRUE = the code after the corresponding fix: commit):            *)
(*   HelperLocked  helper goroutines take the mutex around Broadcast          *)
(*   BAddChecksClosed  BlockingAdd's wait loop returns ErrQueueClosed         *)
(***************************************************************************)
EXTENDS Integers, Sequences, FiniteSets, TLC

CONSTANTS Consumers, Producers, Cap, Budget, HelperLocked, BAddChecksClosed

Thr == Consumers \cup Producers
Free == "free"
NE == "nempty"
NU == "nupdates"

VARIABLES len, closed, mu, waitq, woken, pc, done, helper, budget, res

vars == <<len, closed, mu, waitq, woken, pc, done, helper, budget, res>>

Init == /\ len = 0 /\ closed = FALSE /\ mu = Free
        /\ waitq = [c \in {NE, NU} |-> <<>>] /\ woken = {}
        /\ pc = [t \in Thr |-> "idle"] /\ done = [t \in Thr |-> FALSE]
        /\ helper = [t \in Thr |-> "none"] /\ budget = Budget
        /\ res = [t \in Thr |-> "-"]

SeqToSet(s) == {s[i] : i \in 1..Len(s)}
CondOf(t) == IF t \in Consumers THEN NE ELSE NU

\* cond operations as data: <<waitq', woken'>>
Sig(wq, wk, c) == IF wq[c] = <<>> THEN <<wq, wk>>
                  ELSE <<[wq EXCEPT ![c] = Tail(@)], wk \cup {Head(wq[c])}>>
Bc(wq, wk, c)  == <<[wq EXCEPT ![c] = <<>>], wk \cup SeqToSet(wq[c])>>

\* doAdd's notifications (queue.go:121-126): nempty.Signal() if len = 1; nupdates.Signal()
AfterAdd(newlen) == LET a == IF newlen = 1 THEN Sig(waitq, woken, NE) ELSE <<waitq, woken>>
                    IN Sig(a[1], a[2], NU)
\* popFront's notification (queue.go:262): nupdates.Broadcast()
AfterPop == Bc(waitq, woken, NU)

(* ------------------------------------------------------------ External *)
Start(t) == /\ pc[t] = "idle" /\ pc' = [pc EXCEPT ![t] = "enter"]
            /\ UNCHANGED <<len, closed, mu, waitq, woken, done, helper, budget, res>>

Cancel(t) == /\ ~done[t] /\ done' = [done EXCEPT ![t] = TRUE]
             /\ UNCHANGED <<len, closed, mu, waitq, woken, pc, helper, budget, res>>

Add == /\ budget > 0 /\ mu = Free /\ budget' = budget - 1
       /\ IF closed \/ len >= Cap THEN UNCHANGED <<len, waitq, woken>>
          ELSE /\ len' = len + 1
               /\ waitq' = AfterAdd(len + 1)[1] /\ woken' = AfterAdd(len + 1)[2]
       /\ UNCHANGED <<closed, mu, pc, done, helper, res>>

Remove == /\ budget > 0 /\ mu = Free /\ budget' = budget - 1
          /\ IF len = 0 THEN UNCHANGED <<len, waitq, woken>>
             ELSE /\ len' = len - 1 /\ waitq' = AfterPop[1] /\ woken' = AfterPop[2]
          /\ UNCHANGED <<closed, mu, pc, done, helper, res>>

Close == /\ budget > 0 /\ mu = Free /\ budget' = budget - 1 /\ ~closed
         /\ closed' = TRUE
         /\ LET a == Bc(waitq, woken, NU) b == Bc(a[1], a[2], NE) IN waitq' = b[1] /\ woken' = b[2]
         /\ UNCHANGED <<len, mu, pc, done, helper, res>>

External == Add \/ Remove \/ Close \/ \E t \in Thr : Start(t) \/ Cancel(t)

(* ------------------------------------------------------------ Internal *)
Ret(t, r) == pc' = [pc EXCEPT ![t] = "ret"] /\ res' = [res EXCEPT ![t] = r]

\* Wait: lock; derive ctx + helper; enter the loop
CEnter(c) == /\ pc[c] = "enter" /\ mu = Free /\ mu' = c
             /\ helper' = [helper EXCEPT ![c] = "armed"]
             /\ pc' = [pc EXCEPT ![c] = "loop"]
             /\ UNCHANGED <<len, closed, waitq, woken, done, budget, res>>

\* for len == 0 { if closed -> ErrQueueClosed; select ctx.Done -> ctx.Err(); default -> Wait } ; popFront
CLoop(c) == /\ pc[c] = "loop" /\ mu = c
            /\ IF len > 0
                 THEN /\ len' = len - 1 /\ waitq' = AfterPop[1] /\ woken' = AfterPop[2]
                      /\ Ret(c, "item") /\ mu' = Free
                 ELSE /\ UNCHANGED <<len, waitq, woken>>
                      /\ IF closed THEN Ret(c, "closed") /\ mu' = Free
                         ELSE IF done[c] THEN Ret(c, "ctx") /\ mu' = Free
                         ELSE pc' = [pc EXCEPT ![c] = "prepark"] /\ UNCHANGED <<mu, res>>
            /\ UNCHANGED <<closed, done, helper, budget>>

\* BlockingAdd: lock; closed -> error; capacity -> doAdd; else derive ctx + helper, loop
PEnter(p) == /\ pc[p] = "enter" /\ mu = Free
             /\ IF closed THEN Ret(p, "closed") /\ UNCHANGED <<len, mu, waitq, woken, helper>>
                ELSE IF Cap > len
                  THEN /\ len' = len + 1 /\ waitq' = AfterAdd(len + 1)[1] /\ woken' = AfterAdd(len + 1)[2]
                       /\ Ret(p, "ok") /\ UNCHANGED <<mu, helper>>
                  ELSE /\ mu' = p /\ helper' = [helper EXCEPT ![p] = "armed"]
                       /\ pc' = [pc EXCEPT ![p] = "loop"] /\ UNCHANGED <<len, waitq, woken, res>>
             /\ UNCHANGED <<closed, done, budget>>

\* for cap <= len { [closed -> error]; select ctx.Done -> ctx.Err(); default -> Wait } ; doAdd
PLoop(p) == /\ pc[p] = "loop" /\ mu = p
            /\ IF Cap <= len
                 THEN /\ UNCHANGED <<len, waitq, woken>>
                      /\ IF BAddChecksClosed /\ closed THEN Ret(p, "closed") /\ mu' = Free
                         ELSE IF done[p] THEN Ret(p, "ctx") /\ mu' = Free
                         ELSE pc' = [pc EXCEPT ![p] = "prepark"] /\ UNCHANGED <<mu, res>>
                 ELSE /\ mu' = Free
                      /\ IF closed THEN Ret(p, "closed") /\ UNCHANGED <<len, waitq, woken>>
                         ELSE /\ len' = len + 1 /\ waitq' = AfterAdd(len + 1)[1] /\ woken' = AfterAdd(len + 1)[2]
                              /\ Ret(p, "ok")
            /\ UNCHANGED <<closed, done, helper, budget>>

\* cond.Wait(): join the notify list and release the mutex (yield point pubsub.wait.before-cond-wait
\* sits between the loop step and this one)
Park(t) == /\ pc[t] = "prepark" /\ mu = t
           /\ waitq' = [waitq EXCEPT ![CondOf(t)] = Append(@, t)] /\ mu' = Free
           /\ pc' = [pc EXCEPT ![t] = "parked"]
           /\ UNCHANGED <<len, closed, woken, done, helper, budget, res>>

Wake(t) == /\ pc[t] = "parked" /\ t \in woken /\ mu = Free
           /\ woken' = woken \ {t} /\ mu' = t /\ pc' = [pc EXCEPT ![t] = "loop"]
           /\ UNCHANGED <<len, closed, waitq, done, helper, budget, res>>

\* helper goroutine: fires on cancellation or on return (defer cancel()), broadcasts its cond
HelperFire(t) == /\ helper[t] = "armed" /\ (done[t] \/ pc[t] = "ret")
                 /\ HelperLocked => mu = Free
                 /\ helper' = [helper EXCEPT ![t] = "fired"]
                 /\ waitq' = Bc(waitq, woken, CondOf(t))[1] /\ woken' = Bc(waitq, woken, CondOf(t))[2]
                 /\ UNCHANGED <<len, closed, mu, pc, done, budget, res>>

Internal == \/ \E c \in Consumers : CEnter(c) \/ CLoop(c)
            \/ \E p \in Producers : PEnter(p) \/ PLoop(p)
            \/ \E t \in Thr : Park(t) \/ Wake(t) \/ HelperFire(t)

Next == Internal \/ External
Spec == Init /\ [][Next]_vars /\ WF_vars(Internal)

(* ------------------------------------------------------------ Properties *)
TypeOK == len \in 0..Cap /\ mu \in Thr \cup {Free} /\ woken \subseteq Thr

Quiescent == ~ENABLED Internal

InCall(t) == pc[t] \in {"enter", "loop", "prepark", "parked"}
EnabledAbs(t) == IF t \in Consumers THEN len > 0 \/ closed \/ done[t]
                 ELSE Cap > len \/ closed \/ done[t]

\* C07: at quiescence no operation is blocked whose condition is satisfied
NoStuck == Quiescent => \A t \in Thr : InCall(t) => ~EnabledAbs(t)
NoLeak == Quiescent => mu = Free /\ \A t \in Thr : pc[t] = "ret" => helper[t] # "armed"
\* results are justified: an item/ok only with the matching effect is by construction; closed/ctx need their cause
ResultsOK == \A t \in Thr : /\ res[t] = "ctx" => done[t]
                            /\ res[t] = "closed" => closed
Settles == <>[]Quiescent
=============================================================================
