SPECIFICATION Spec
CONSTANTS
  Scale = 60
  StrictQuiet = TRUE
INVARIANT Inv
CONSTRAINT HighWater
POSTCONDITION Accepted
CHECK_DEADLOCK FALSE
