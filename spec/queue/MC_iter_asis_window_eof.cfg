SPECIFICATION Spec
CONSTANTS
  Iters = {i1}
  Producers = {}
  MaxAdds = 2
  MaxCalls = 2
  Budget = 3
  SoftCap = 100
  AllowRemove = FALSE
  OneSection = FALSE
  AddBroadcasts = TRUE
INVARIANTS ResultsOK

CHECK_DEADLOCK FALSE
