SPECIFICATION Spec
CONSTANTS
  Consumers = {c1, c2}
  Producers = {p1, p2}
  Cap = 1
  Budget = 3
  HelperLocked = FALSE
  BAddChecksClosed = TRUE
INVARIANTS TypeOK NoStuck NoLeak ResultsOK

CHECK_DEADLOCK FALSE
