SPECIFICATION Spec
CONSTANTS
  Consumers = {c1, c2}
  Producers = {p1, p2}
  Cap = 2
  Budget = 4
  HelperLocked = TRUE
  BAddChecksClosed = TRUE
INVARIANTS TypeOK NoStuck NoLeak ResultsOK
PROPERTIES Settles
CHECK_DEADLOCK FALSE
