SPECIFICATION Spec
CONSTANTS
  MaxBurst = 2
  Scale = 60
  Depth = 14
  MaxBlocked = 3
  Configs <- CfgStep
INVARIANT Inv
VIEW view
ACTION_CONSTRAINT EmitEdge
CHECK_DEADLOCK FALSE
