SPECIFICATION Spec
CONSTANTS
  Scale = 60
  StrictQuiet = FALSE
INVARIANT Inv
CONSTRAINT HighWater
POSTCONDITION Accepted
CHECK_DEADLOCK FALSE
