SPECIFICATION Spec
CONSTANTS
  Iters = {i1, i2}
  Producers = {p1}
  MaxAdds = 2
  MaxCalls = 2
  Budget = 2
  SoftCap = 1
  AllowRemove = TRUE
  OneSection = TRUE
  AddBroadcasts = TRUE
INVARIANTS TypeOK ShapeOK NoPanic YieldsAreAdded InOrderNoSkip NoStuckIter NoStuckAdd ResultsOK NoLeak
PROPERTIES Settles
CHECK_DEADLOCK FALSE
