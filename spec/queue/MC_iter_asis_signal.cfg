SPECIFICATION Spec
CONSTANTS
  Iters = {i1}
  Producers = {p1}
  MaxAdds = 3
  MaxCalls = 2
  Budget = 3
  SoftCap = 1
  AllowRemove = FALSE
  OneSection = TRUE
  AddBroadcasts = FALSE
INVARIANTS NoStuckIter

CHECK_DEADLOCK FALSE
