SPECIFICATION Spec
CONSTANTS
  Scale = 60
  Depth = 5
  Configs <- CfgSmall
INVARIANTS Inv LenBound
CONSTRAINT EmitAll
CHECK_DEADLOCK FALSE
