SPECIFICATION Spec
CONSTANTS
  Iters = {i1}
  Producers = {}
  MaxAdds = 3
  MaxCalls = 3
  Budget = 4
  SoftCap = 100
  AllowRemove = TRUE
  OneSection = TRUE
  AddBroadcasts = TRUE
INVARIANTS TypeOK ShapeOK NoPanic YieldsAreAdded InOrderNoSkip NoStuckIter NoStuckAdd ResultsOK NoLeak
PROPERTIES Settles
CHECK_DEADLOCK FALSE
