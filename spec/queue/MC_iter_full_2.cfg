SPECIFICATION Spec
CONSTANTS
  Iters = {i1, i2}
  Producers = {}
  MaxAdds = 2
  MaxCalls = 3
  Budget = 3
  SoftCap = 100
  AllowRemove = TRUE
  OneSection = TRUE
  AddBroadcasts = TRUE
INVARIANTS TypeOK ShapeOK NoPanic YieldsAreAdded InOrderNoSkip NoStuckIter NoStuckAdd ResultsOK NoLeak
PROPERTIES Settles
CHECK_DEADLOCK FALSE
