----------------------------- MODULE QueueStep -----------------------------
(* Quiescence-stepped driver schedules for pubsub.Queue (C07, C05).           *)
(* The abstract state is the queue of QueueCore plus the set of blocked       *)
(* operations.  A driver step (start an operation, cancel a context) is       *)
(* taken only when the system is settled - no blocked operation is enabled -  *)
(* which is the spec counterpart of rt.Quiesce in the harness; Resolve(p)     *)
(* completes an enabled blocked operation (several resolution orders are      *)
(* explored).  `hist` is the schedule: the harness executes it against the    *)
(* real Queue, records call/ret/cancel/quiescent events, and TLC validates    *)
(* that history with QueueLinTrace (which demands that nothing enabled is     *)
(* still blocked at a quiescent point).                                       *)
(***************************************************************************)
EXTENDS QueueCore, FiniteSets, Json

CONSTANTS Configs, Depth, MaxBlocked, MaxBurst

CfgStep == {NoLimit, Quota(1, 0, 0), Quota(2, 0, 0), Quota(2, 1, 0), Quota(3, 2, 1), Quota(3, 1, 0)}

VARIABLES q, blocked, cancelled, held, hist, blen
vars == <<q, blocked, cancelled, held, hist, blen>>

\* item names and ids do not influence enabling: abstract them away for edge coverage
view == <<Len(q.items), q.closed, q.tr, {<<p.op, p.id \in cancelled>> : p \in blocked}, Cardinality(blocked), held # 0, blen>>

Init == \E tr \in {c \in Configs : c.kind # "quota" \/ c.soft <= c.hard} :
          /\ q = QNew(tr) /\ blocked = {} /\ cancelled = {} /\ held = 0 /\ blen = 0
          /\ hist = <<[op |-> "new", arg |-> tr.kind, target |-> 0, window |-> FALSE, burst |-> FALSE,
                       hard |-> tr.hard, soft |-> tr.soft, credit |-> tr.credit \div Scale]>>

Id == Len(hist) + 1
Val == "v" \o ToString(Id)
Sched(op, arg, target, window, burst) ==
  hist' = Append(hist, [op |-> op, arg |-> arg, target |-> target, window |-> window, burst |-> burst,
                        hard |-> 0, soft |-> 0, credit |-> 0])

IsCancelled(p) == p.id \in cancelled
En(p) == Enabled(q, p.op, p.arg, IsCancelled(p))
Settled == \A p \in blocked : ~En(p)

\* a non-blocking operation: applied at once
\* A BURST step (b = TRUE) is issued by the driver right after the previous step, WITHOUT waiting for
\* quiescence: blocked operations that the previous steps enabled may or may not have run in between
\* (Resolve is independent), so "two Adds before any waiter runs", "Add then Cancel before the woken
\* waiter re-acquires the lock", "Remove then Close before the parked producer runs" are all schedules.
\* The harness runs the steps of a burst synchronously from one goroutine (with GOMAXPROCS=1 the whole
\* burst is atomic with respect to the parked goroutines; with more procs the other orders are sampled).
CanBurst == blen < MaxBurst /\ Len(hist) > 1 /\ held = 0
NB(op, b) == /\ (b \/ Settled) /\ (b => CanBurst) /\ held = 0
          /\ LET arg == IF op \in {"add", "dsend"} THEN Val ELSE "" IN
             /\ \E o \in Apply(q, op, arg, FALSE) : q' = o.q
             /\ Sched(op, arg, 0, FALSE, b)
          /\ blen' = (IF b THEN blen + 1 ELSE 0)
          /\ UNCHANGED <<blocked, cancelled, held>>

\* a blocking operation is started; it joins `blocked` and may be resolved at once
StartB(op, window) ==
  /\ Settled /\ held = 0 /\ Cardinality(blocked) < MaxBlocked
  /\ LET arg == IF op = "badd" THEN Val ELSE "" IN
     /\ window => ~Enabled(q, op, arg, FALSE)    \* it reaches the yield point only if it is about to park
     /\ blocked' = blocked \cup {[id |-> Id, op |-> op, arg |-> arg]}
     /\ Sched(op, arg, 0, window, FALSE)
  /\ held' = (IF window THEN Id ELSE 0) /\ blen' = 0
  /\ UNCHANGED <<q, cancelled>>

\* cancel the context of a blocked operation (in the window: of the held one)
Cancel(p, b) == /\ (b \/ Settled) /\ (b => CanBurst) /\ p \in blocked /\ ~IsCancelled(p)
                /\ held # 0 => p.id = held
                /\ cancelled' = cancelled \cup {p.id} /\ held' = 0
                /\ Sched("cancel", "", p.id, FALSE, b)
                /\ blen' = (IF b THEN blen + 1 ELSE 0)
                /\ UNCHANGED <<q, blocked>>

\* an enabled blocked operation completes (not a schedule step)
Resolve(p) == /\ p \in blocked /\ En(p) /\ held = 0
              /\ \E o \in Apply(q, p.op, p.arg, IsCancelled(p)) : q' = o.q
              /\ blocked' = blocked \ {p}
              /\ UNCHANGED <<cancelled, held, hist, blen>>

Driver == \/ \E op \in {"add", "dsend", "remove", "len", "dlen", "close"} , b \in BOOLEAN : NB(op, b)
          \/ \E op \in {"wait", "drecv", "badd"}, w \in BOOLEAN : StartB(op, w)
          \/ \E p \in blocked, b \in BOOLEAN : Cancel(p, b)

Next == \/ Len(hist) < Depth /\ Driver
        \/ \E p \in blocked : Resolve(p)
Spec == Init /\ [][Next]_vars

Inv == QOK(q) /\ (held # 0 => \E p \in blocked : p.id = held)

EmitAll == Len(hist) < Depth \/ PrintT(<<"BEH", ToJson(hist)>>)
EmitEdge == hist' = hist \/ PrintT(<<"BEH", ToJson(hist')>>)
=============================================================================
