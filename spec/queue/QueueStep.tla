----------------------------- MODULE QueueStep -----------------------------
(* Quiescence-stepped driver schedules for pubsub.Queue (C07, C05).           *)
(* The abstract state is the queue of QueueCore plus the set of blocked       *)
(* operations.  A driver step (start an operation, cancel a context) is       *)
(* taken only when the system is settled - no blocked operation is enabled -  *)
(* which is the spec counterpart of rt.Quiesce in the harness; Resolve(p)     *)
(* completes an enabled blocked operation (several resolution orders are      *)
(* explored).  `hist` is the schedule: the harness executes it against the    *)
(* real Queue, records call/ret/cancel/quiescent events, and TLC validates    *)
(* that history with QueueLinTrace (which demands that nothing enabled is     *)
(* still blocked at a quiescent point).                                       *)
(***************************************************************************)
EXTENDS QueueCore, FiniteSets, Json

CONSTANTS Configs, Depth, MaxBlocked

CfgStep == {NoLimit, Quota(1, 0, 0), Quota(2, 0, 0), Quota(2, 1, 0), Quota(3, 2, 1), Quota(3, 1, 0)}

VARIABLES q, blocked, cancelled, held, hist
vars == <<q, blocked, cancelled, held, hist>>

\* item names and ids do not influence enabling: abstract them away for edge coverage
view == <<Len(q.items), q.closed, q.tr, {<<p.op, p.id \in cancelled>> : p \in blocked}, Cardinality(blocked), held # 0>>

Init == \E tr \in {c \in Configs : c.kind # "quota" \/ c.soft <= c.hard} :
          /\ q = QNew(tr) /\ blocked = {} /\ cancelled = {} /\ held = 0
          /\ hist = <<[op |-> "new", arg |-> tr.kind, target |-> 0, window |-> FALSE,
                       hard |-> tr.hard, soft |-> tr.soft, credit |-> tr.credit \div Scale]>>

Id == Len(hist) + 1
Val == "v" \o ToString(Id)
Sched(op, arg, target, window) ==
  hist' = Append(hist, [op |-> op, arg |-> arg, target |-> target, window |-> window,
                        hard |-> 0, soft |-> 0, credit |-> 0])

IsCancelled(p) == p.id \in cancelled
En(p) == Enabled(q, p.op, p.arg, IsCancelled(p))
Settled == \A p \in blocked : ~En(p)

\* a non-blocking operation: applied at once
NB(op) == /\ Settled /\ held = 0
          /\ LET arg == IF op \in {"add", "dsend"} THEN Val ELSE "" IN
             /\ \E o \in Apply(q, op, arg, FALSE) : q' = o.q
             /\ Sched(op, arg, 0, FALSE)
          /\ UNCHANGED <<blocked, cancelled, held>>

\* a blocking operation is started; it joins `blocked` and may be resolved at once
StartB(op, window) ==
  /\ Settled /\ held = 0 /\ Cardinality(blocked) < MaxBlocked
  /\ LET arg == IF op = "badd" THEN Val ELSE "" IN
     /\ window => ~Enabled(q, op, arg, FALSE)    \* it reaches the yield point only if it is about to park
     /\ blocked' = blocked \cup {[id |-> Id, op |-> op, arg |-> arg]}
     /\ Sched(op, arg, 0, window)
  /\ held' = IF window THEN Id ELSE 0
  /\ UNCHANGED <<q, cancelled>>

\* cancel the context of a blocked operation (in the window: of the held one)
Cancel(p) == /\ Settled /\ p \in blocked /\ ~IsCancelled(p)
             /\ held # 0 => p.id = held
             /\ cancelled' = cancelled \cup {p.id} /\ held' = 0
             /\ Sched("cancel", "", p.id, FALSE)
             /\ UNCHANGED <<q, blocked>>

\* an enabled blocked operation completes (not a schedule step)
Resolve(p) == /\ p \in blocked /\ En(p) /\ held = 0
              /\ \E o \in Apply(q, p.op, p.arg, IsCancelled(p)) : q' = o.q
              /\ blocked' = blocked \ {p}
              /\ UNCHANGED <<cancelled, held, hist>>

Driver == \/ \E op \in {"add", "dsend", "remove", "len", "dlen", "close"} : NB(op)
          \/ \E op \in {"wait", "drecv", "badd"}, w \in BOOLEAN : StartB(op, w)
          \/ \E p \in blocked : Cancel(p)

Next == \/ Len(hist) < Depth /\ Driver
        \/ \E p \in blocked : Resolve(p)
Spec == Init /\ [][Next]_vars

Inv == QOK(q) /\ (held # 0 => \E p \in blocked : p.id = held)

EmitAll == Len(hist) < Depth \/ PrintT(<<"BEH", ToJson(hist)>>)
EmitEdge == hist' = hist \/ PrintT(<<"BEH", ToJson(hist')>>)
=============================================================================
