----------------------------- MODULE QueueSeq ------------------------------
(* Sequential behaviours of pubsub.Queue for model->code replay (C05 a):      *)
(* every operation is issued when it cannot block, so its result is           *)
(* determined by QueueCore (up to the flagged credit-rounding ambiguity).     *)
(* hist[1] is the constructor; each later record carries op, arg, the         *)
(* expected result, the expected Len and the expected contents.               *)
(***************************************************************************)
EXTENDS QueueCore, Json

CONSTANTS Configs,   \* set of tracker records to construct the queue with
          Depth

\* option sets: unlimited; hard limit 1..4 x soft quota 1..hard x burst credit {default, 1, hard}
CfgAll == {NoLimit} \cup {Quota(h, s, c) : h \in 1..4, s \in 0..4, c \in {0, 1, 2, 4}}
CfgSmall == {NoLimit, Quota(1, 0, 0), Quota(2, 1, 0), Quota(2, 1, 1), Quota(3, 2, 1), Quota(3, 1, 2)}

VARIABLES q, hist, nadd
vars == <<q, hist, nadd>>
view == <<q>>

Init == \E tr \in {c \in Configs : c.kind # "quota" \/ c.soft <= c.hard} :
          /\ q = QNew(tr)
          /\ hist = <<[op |-> "new", arg |-> "", res |-> tr.kind, amb |-> FALSE, len |-> 0,
                       items |-> <<>>, hard |-> tr.hard, soft |-> tr.soft, credit |-> tr.credit \div Scale]>>
          /\ nadd = 0

Rec(op, arg, o) == hist' = Append(hist, [op |-> op, arg |-> arg, res |-> o.res, amb |-> o.amb,
                                         len |-> Len(o.q.items), items |-> o.q.items,
                                         hard |-> 0, soft |-> 0, credit |-> 0])

Do(op, arg, cancelled) == \E o \in Apply(q, op, arg, cancelled) :
                             q' = o.q /\ Rec(IF cancelled THEN op \o "-cancelled" ELSE op, arg, o)

Val == "v" \o ToString(nadd + 1)

Step == \/ \E op \in {"add", "dsend"} : Do(op, Val, FALSE) /\ nadd' = nadd + 1
        \/ \E op \in {"remove", "len", "dlen", "close"} : Do(op, "", FALSE) /\ UNCHANGED nadd
        \* blocking calls made when they cannot block
        \/ \E op \in {"wait", "drecv"} : (q.items # <<>> \/ q.closed) /\ Do(op, "", FALSE) /\ UNCHANGED nadd
        \/ (q.closed \/ TrCap(q.tr) > TrLen(q.tr)) /\ Do("badd", Val, FALSE) /\ nadd' = nadd + 1
        \* ... or with an already-cancelled context while their condition does not hold: no effect
        \/ \E op \in {"wait", "drecv"} : q.items = <<>> /\ ~q.closed /\ Do(op, "", TRUE) /\ UNCHANGED nadd
        \/ ~q.closed /\ TrCap(q.tr) <= TrLen(q.tr) /\ Do("badd", Val, TRUE) /\ nadd' = nadd + 1

Next == Len(hist) <= Depth /\ Step
Spec == Init /\ [][Next]_vars

Inv == QOK(q)
\* FIFO and Len <= hard limit hold by construction of QueueCore; checked here as sanity
LenBound == q.tr.kind = "quota" => Len(q.items) <= q.tr.hard

EmitAll == Len(hist) <= Depth \/ PrintT(<<"BEH", ToJson(hist)>>)
EmitEdge == PrintT(<<"BEH", ToJson(hist')>>)
=============================================================================
