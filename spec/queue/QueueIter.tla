----------------------------- MODULE QueueIter -----------------------------
(* Implementation-shaped specification of the non-destructive iterator of     *)
(* pubsub.Queue (/repo/pubsub/queue.go) for property C20.                      *)
(*                                                                            *)
(*   Iters      each runs successive calls of the closure returned by         *)
(*              Queue.Producer (queue.go:372-399), cursor `next` (here cur)   *)
(*   Producers  run BlockingAdd (queue.go:139-171); they wait on the same     *)
(*              condition variable (nupdates) as the iterators                *)
(*   helpers    the per-wait goroutine `<-ctx.Done(); lock; Broadcast()` of   *)
(*              unsafeWaitForLink / BlockingAdd (queue.go:242, 155) and the   *)
(*              `defer cancel()` that fires it when the wait returns          *)
(*   External   Add, Remove, Close (one critical section each), the start of  *)
(*              a call, the cancellation of a call's context                  *)
(*                                                                            *)
(* The list is modelled as it is: entry 0 is the sentinel (q.front), entry n  *)
(* is the n-th item added, link[n] is entry.link (Nil = nil pointer), `back`  *)
(* is q.back.  popFront (queue.go:278-290) unlinks the first entry from the   *)
(* sentinel, leaves the removed entry's own link untouched and resets back    *)
(* to the sentinel when the queue becomes empty: an entry removed while it    *)
(* was the newest keeps link = nil for ever.                                  *)
(*                                                                            *)
(* One action per critical section.  cond.Wait() is Park (join the notify     *)
(* list and release the mutex) + Wake (re-acquire); the yield point           *)
(* pubsub.wait.before-cond-wait sits between the loop step and Park.          *)
(*                                                                            *)
(* Switches (TRUE = the code of /repo HEAD, FALSE = before the fix: commit):  *)
(*   OneSection    61f9bef  the producer checks next.link and waits in one    *)
(*                 critical section (unsafeWaitForLink waits for *its* entry  *)
(*                 to get a successor).  FALSE: look, unlock, [yield point    *)
(*                 pubsub.Queue.Producer.unlocked], waitForNew (head :=       *)
(*                 q.back; wait until q.back changes), lock, follow next.link *)
(*                 whatever it is - the old code, which can miss an Add, can  *)
(*                 report EOF with an item unseen and can follow a nil link.  *)
(*   AddBroadcasts a869057  doAdd broadcasts nupdates; FALSE: Signal.         *)
(*                                                                            *)
(* Deliberate deviations: item values are the entry numbers; the limit        *)
(* tracker is reduced to `cap` (the soft quota BlockingAdd compares with the  *)
(* length; a burst Add raises it to the new length as tracker.add does) -     *)
(* whether an Add is admitted is C05's subject, here every external Add that  *)
(* happens is an admitted one; `next.link == q.front` (queue.go:382) is dead  *)
(* code (no link ever points to the sentinel) and is not modelled; nempty is  *)
(* not modelled (nobody waits on it here).                                    *)
(***************************************************************************)
EXTENDS Integers, Sequences, FiniteSets, TLC

CONSTANTS Iters, Producers, MaxAdds, MaxCalls, Budget, SoftCap, AllowRemove,
          OneSection, AddBroadcasts

Thr == Iters \cup Producers
Node == 0..MaxAdds
Nil == -1
Free == "free"

VARIABLES link, back, nadded, nremoved, closed, cap,      \* the queue
          mu, waitq, woken,                               \* mutex, notify list of nupdates, signalled waiters
          pc, cur, head, done, armed, due,                \* per thread: control, cursor, captured back, ctx, helpers
          yields, last, calls, started, tainted, base,    \* history variables of the iterators
          budget

vars == <<link, back, nadded, nremoved, closed, cap, mu, waitq, woken, pc, cur, head, done, armed, due,
          yields, last, calls, started, tainted, base, budget>>
qvars == <<link, back, nadded, nremoved, closed, cap>>
hvars == <<yields, last, calls, started, tainted, base>>

len == nadded - nremoved

Init == /\ link = [n \in Node |-> Nil] /\ back = 0 /\ nadded = 0 /\ nremoved = 0 /\ closed = FALSE
        /\ cap = SoftCap
        /\ mu = Free /\ waitq = <<>> /\ woken = {}
        /\ pc = [t \in Thr |-> "idle"] /\ cur = [i \in Iters |-> Nil] /\ head = [i \in Iters |-> Nil]
        /\ done = [t \in Thr |-> FALSE] /\ armed = [t \in Thr |-> FALSE] /\ due = 0
        /\ yields = [i \in Iters |-> <<>>] /\ last = [t \in Thr |-> "-"] /\ calls = [t \in Thr |-> 0]
        /\ started = [i \in Iters |-> FALSE] /\ tainted = [i \in Iters |-> FALSE] /\ base = [i \in Iters |-> 0]
        /\ budget = Budget

SeqToSet(s) == {s[k] : k \in 1..Len(s)}
\* nupdates.Signal() / nupdates.Broadcast() as data: <<waitq', woken'>>
Sig == IF waitq = <<>> THEN <<waitq, woken>> ELSE <<Tail(waitq), woken \cup {Head(waitq)}>>
Bc  == <<(<<>>), woken \cup SeqToSet(waitq)>>
Notify(w) == waitq' = w[1] /\ woken' = w[2]

\* doAdd (queue.go:110-133): link the new entry behind q.back, notify nupdates
DoAdd == /\ link' = [link EXCEPT ![back] = nadded + 1] /\ back' = nadded + 1 /\ nadded' = nadded + 1
         /\ cap' = IF len >= cap THEN len + 1 ELSE cap          \* tracker.add: a burst raises the soft quota
         /\ Notify(IF AddBroadcasts THEN Bc ELSE Sig)
         /\ UNCHANGED <<nremoved, closed>>

InCall(t) == pc[t] # "idle" /\ pc[t] # "nil-deref"
Adding == Cardinality({p \in Producers : InCall(p)})

(* ------------------------------------------------------------ External *)
\* the client calls the producer function / BlockingAdd with a fresh context
Start(t) == /\ pc[t] = "idle" /\ calls[t] < MaxCalls /\ last[t] # "eof"
            /\ t \in Producers => nadded + Adding < MaxAdds
            /\ pc' = [pc EXCEPT ![t] = "enter"] /\ calls' = [calls EXCEPT ![t] = @ + 1]
            /\ done' = [done EXCEPT ![t] = FALSE] /\ last' = [last EXCEPT ![t] = "-"]
            /\ started' = IF t \in Iters THEN [started EXCEPT ![t] = TRUE] ELSE started
            /\ UNCHANGED <<qvars, mu, waitq, woken, cur, head, armed, due, yields, tainted, base, budget>>

Cancel(t) == /\ InCall(t) /\ ~done[t] /\ done' = [done EXCEPT ![t] = TRUE]
             /\ UNCHANGED <<qvars, mu, waitq, woken, pc, cur, head, armed, due, hvars, budget>>

Add == /\ budget > 0 /\ mu = Free /\ ~closed /\ nadded + Adding < MaxAdds
       /\ budget' = budget - 1 /\ DoAdd
       /\ UNCHANGED <<mu, pc, cur, head, done, armed, due, hvars>>

\* Remove -> popFront (queue.go:176-184, 278-290); a removal after an iterator's first call is a
\* concurrent removal for that iterator
Remove == /\ AllowRemove /\ budget > 0 /\ mu = Free /\ len > 0 /\ budget' = budget - 1
          /\ LET e == link[0] IN
               /\ link' = [link EXCEPT ![0] = link[e]]
               /\ back' = IF e = back THEN 0 ELSE back
          /\ nremoved' = nremoved + 1 /\ Notify(Bc)
          /\ tainted' = [i \in Iters |-> tainted[i] \/ started[i]]
          /\ UNCHANGED <<nadded, closed, cap, mu, pc, cur, head, done, armed, due, yields, last, calls, started, base>>

Close == /\ budget > 0 /\ mu = Free /\ ~closed /\ budget' = budget - 1
         /\ closed' = TRUE /\ Notify(Bc)
         /\ UNCHANGED <<link, back, nadded, nremoved, cap, mu, pc, cur, head, done, armed, due, hvars>>

External == Add \/ Remove \/ Close \/ \E t \in Thr : Start(t) \/ Cancel(t)

(* ------------------------------------------------------------ Internal *)
\* leaving a wait function: `defer cancel()` makes its helper's broadcast due
LeaveWait(t) == /\ armed' = [armed EXCEPT ![t] = FALSE]
                /\ due' = IF armed[t] THEN due + 1 ELSE due

Ret(t, r) == pc' = [pc EXCEPT ![t] = "idle"] /\ last' = [last EXCEPT ![t] = r]

\* next = next.link; return next.item, nil
Advance(i, c) == /\ cur' = [cur EXCEPT ![i] = link[c]]
                 /\ yields' = [yields EXCEPT ![i] = Append(@, link[c])]
                 /\ Ret(i, "item")

\* queue.go:374-397.  lock; if next == nil { next = q.front }; a successor exists -> advance and return in
\* the same critical section.  Otherwise (OneSection) enter unsafeWaitForLink holding the lock; or
\* (as-is) report EOF when closed, else unlock and go on to waitForNew through the unlocked window.
IEnter(i) ==
  /\ pc[i] = "enter" /\ mu = Free
  /\ LET c == IF cur[i] = Nil THEN 0 ELSE cur[i] IN
     /\ base' = IF cur[i] = Nil THEN [base EXCEPT ![i] = nremoved] ELSE base
     /\ IF link[c] # Nil
          THEN Advance(i, c) /\ UNCHANGED <<mu, armed>>
          ELSE /\ cur' = [cur EXCEPT ![i] = c] /\ UNCHANGED yields
               /\ IF OneSection
                    THEN /\ mu' = i /\ armed' = [armed EXCEPT ![i] = TRUE]
                         /\ pc' = [pc EXCEPT ![i] = "loop"] /\ UNCHANGED last
                    ELSE /\ UNCHANGED <<mu, armed>>
                         /\ IF closed THEN Ret(i, "eof")
                            ELSE pc' = [pc EXCEPT ![i] = "window"] /\ UNCHANGED last
  /\ UNCHANGED <<qvars, waitq, woken, head, done, due, calls, started, tainted, budget>>

\* unsafeWaitForLink (queue.go:238-259): for e.link == nil { closed -> ErrQueueClosed; ctx.Done -> ctx.Err();
\* default -> nupdates.Wait() }; then back in the producer: advance
ILoop(i) ==
  /\ OneSection /\ pc[i] = "loop" /\ mu = i
  /\ IF link[cur[i]] # Nil THEN LeaveWait(i) /\ Advance(i, cur[i]) /\ mu' = Free
     ELSE IF closed THEN LeaveWait(i) /\ Ret(i, "eof") /\ mu' = Free /\ UNCHANGED <<cur, yields>>
     ELSE IF done[i] THEN LeaveWait(i) /\ Ret(i, "ctx") /\ mu' = Free /\ UNCHANGED <<cur, yields>>
     ELSE pc' = [pc EXCEPT ![i] = "prepark"] /\ UNCHANGED <<mu, armed, due, cur, yields, last>>
  /\ UNCHANGED <<qvars, waitq, woken, head, done, calls, started, tainted, base, budget>>

\* as-is only.  waitForNew (before 61f9bef): lock; start the helper; head := q.back
IWaitNew(i) ==
  /\ ~OneSection /\ pc[i] = "window" /\ mu = Free
  /\ mu' = i /\ head' = [head EXCEPT ![i] = back] /\ armed' = [armed EXCEPT ![i] = TRUE]
  /\ pc' = [pc EXCEPT ![i] = "loop"]
  /\ UNCHANGED <<qvars, waitq, woken, cur, done, due, hvars, budget>>

\* as-is only.  for head == q.back && q.back.link != q.front { closed -> err; ctx -> err; Wait }; unlock
IWLoop(i) ==
  /\ ~OneSection /\ pc[i] = "loop" /\ mu = i
  /\ IF head[i] # back THEN LeaveWait(i) /\ mu' = Free /\ pc' = [pc EXCEPT ![i] = "after"] /\ UNCHANGED last
     ELSE IF closed THEN LeaveWait(i) /\ Ret(i, "eof") /\ mu' = Free
     ELSE IF done[i] THEN LeaveWait(i) /\ Ret(i, "ctx") /\ mu' = Free
     ELSE pc' = [pc EXCEPT ![i] = "prepark"] /\ UNCHANGED <<mu, armed, due, last>>
  /\ UNCHANGED <<qvars, waitq, woken, cur, head, done, yields, calls, started, tainted, base, budget>>

\* as-is only.  lock; if next.link != q.front { next = next.link }; unlock; return next.item -
\* when next.link is nil this makes next nil and next.item panics
IAfter(i) ==
  /\ ~OneSection /\ pc[i] = "after" /\ mu = Free
  /\ IF link[cur[i]] = Nil THEN pc' = [pc EXCEPT ![i] = "nil-deref"] /\ UNCHANGED <<cur, yields, last>>
     ELSE Advance(i, cur[i])
  /\ UNCHANGED <<qvars, mu, waitq, woken, head, done, armed, due, calls, started, tainted, base, budget>>

\* BlockingAdd (queue.go:139-171)
PEnter(p) ==
  /\ pc[p] = "enter" /\ mu = Free
  /\ IF closed THEN Ret(p, "closed") /\ UNCHANGED <<qvars, mu, waitq, woken, armed>>
     ELSE IF cap > len THEN DoAdd /\ Ret(p, "ok") /\ UNCHANGED <<mu, armed>>
     ELSE /\ mu' = p /\ armed' = [armed EXCEPT ![p] = TRUE] /\ pc' = [pc EXCEPT ![p] = "loop"]
          /\ UNCHANGED <<qvars, waitq, woken, last>>
  /\ UNCHANGED <<cur, head, done, due, yields, calls, started, tainted, base, budget>>

PLoop(p) ==
  /\ pc[p] = "loop" /\ mu = p
  /\ IF cap <= len
       THEN /\ UNCHANGED <<qvars, waitq, woken>>
            /\ IF closed THEN LeaveWait(p) /\ Ret(p, "closed") /\ mu' = Free
               ELSE IF done[p] THEN LeaveWait(p) /\ Ret(p, "ctx") /\ mu' = Free
               ELSE pc' = [pc EXCEPT ![p] = "prepark"] /\ UNCHANGED <<mu, armed, due, last>>
       ELSE /\ LeaveWait(p) /\ mu' = Free
            /\ IF closed THEN Ret(p, "closed") /\ UNCHANGED <<qvars, waitq, woken>>
               ELSE DoAdd /\ Ret(p, "ok")
  /\ UNCHANGED <<cur, head, done, yields, calls, started, tainted, base, budget>>

\* nupdates.Wait(): join the notify list and release the mutex
Park(t) == /\ pc[t] = "prepark" /\ mu = t
           /\ waitq' = Append(waitq, t) /\ mu' = Free /\ pc' = [pc EXCEPT ![t] = "parked"]
           /\ UNCHANGED <<qvars, woken, cur, head, done, armed, due, hvars, budget>>
Wake(t) == /\ pc[t] = "parked" /\ t \in woken /\ mu = Free
           /\ woken' = woken \ {t} /\ mu' = t /\ pc' = [pc EXCEPT ![t] = "loop"]
           /\ UNCHANGED <<qvars, waitq, cur, head, done, armed, due, hvars, budget>>

\* helper of the current wait: the caller's context was cancelled -> lock; Broadcast; unlock
HelperCancel(t) == /\ armed[t] /\ done[t] /\ mu = Free
                   /\ armed' = [armed EXCEPT ![t] = FALSE] /\ Notify(Bc)
                   /\ UNCHANGED <<qvars, mu, pc, cur, head, done, due, hvars, budget>>
\* helper of a wait that has returned (defer cancel())
HelperDue == /\ due > 0 /\ mu = Free /\ due' = due - 1 /\ Notify(Bc)
             /\ UNCHANGED <<qvars, mu, pc, cur, head, done, armed, hvars, budget>>

Internal == \/ \E i \in Iters : IEnter(i) \/ ILoop(i) \/ IWaitNew(i) \/ IWLoop(i) \/ IAfter(i)
            \/ \E p \in Producers : PEnter(p) \/ PLoop(p)
            \/ \E t \in Thr : Park(t) \/ Wake(t) \/ HelperCancel(t)
            \/ HelperDue
Next == Internal \/ External
Spec == Init /\ [][Next]_vars /\ WF_vars(Internal)

(* ------------------------------------------------------------ Properties *)
TypeOK == /\ back \in Node /\ nadded \in 0..MaxAdds /\ nremoved \in 0..nadded
          /\ mu \in Thr \cup {Free} /\ woken \subseteq Thr
          /\ \A i \in Iters : cur[i] \in Node \cup {Nil}

\* shape of the list: the chain from the sentinel holds exactly the entries nremoved+1 .. nadded and ends at back
ShapeOK == /\ link[0] = (IF len = 0 THEN Nil ELSE nremoved + 1)
           /\ \A n \in (nremoved + 1)..nadded : link[n] = IF n = nadded THEN Nil ELSE n + 1
           /\ back = IF len = 0 THEN 0 ELSE nadded

Quiescent == ~ENABLED Internal

\* the iterator never follows a nil link
NoPanic == \A i \in Iters : pc[i] # "nil-deref"

\* every value yielded was added, and yields move forward in the add history
YieldsAreAdded == \A i \in Iters : \A k \in 1..Len(yields[i]) :
                     /\ yields[i][k] \in 1..nadded
                     /\ k > 1 => yields[i][k - 1] < yields[i][k]

\* absent concurrent removals: the items present at the first call, then every later one, in order, exactly once
InOrderNoSkip == \A i \in Iters : ~tainted[i] => \A k \in 1..Len(yields[i]) : yields[i][k] = base[i] + k

Seen(i) == base[i] + Len(yields[i])
Unseen(i) == IF cur[i] = Nil THEN len > 0 ELSE nadded > Seen(i)

\* at quiescence no call is blocked that the property obliges to return: an unseen item is present (absent
\* concurrent removals), the queue is closed, or the call's context is cancelled
NoStuckIter == Quiescent => \A i \in Iters : InCall(i) =>
                  /\ ~closed /\ ~done[i]
                  /\ ~tainted[i] => ~Unseen(i)
\* the same for the BlockingAdd callers sharing the condition variable (C07's obligation, kept as a sanity check)
NoStuckAdd == Quiescent => \A p \in Producers : InCall(p) => ~(cap > len \/ closed \/ done[p])

\* EOF only from a closed queue, and (absent removals) only after everything was yielded; ctx only if cancelled
ResultsOK == \A i \in Iters : /\ last[i] = "eof" => closed /\ (~tainted[i] => Seen(i) = nadded)
                              /\ last[i] = "ctx" => done[i]
NoLeak == Quiescent => mu = Free /\ due = 0 /\ \A t \in Thr : ~InCall(t) => ~armed[t]

Settles == <>[]Quiescent
=============================================================================
