#!/bin/sh
# MANIFEST.setup_cmd: build the framework from files on disk only (offline).
set -e
cd "$(dirname "$0")/.."
export GOFLAGS=-mod=mod GOPROXY=off GOSUMDB=off GOTOOLCHAIN=local
mkdir -p evidence harness/bin
cd harness
for d in cmd/*/; do
  n=$(basename "$d")
  go build -tags verif -o bin/$n ./cmd/$n
done
echo "setup ok"
