#!/bin/sh
# MANIFEST.setup_cmd: build the framework from files on disk only (offline).
# Every check rebuilds its own harness binary from /repo's working tree when it runs
# (run/vlib/harness.py); this only warms the Go build cache (incl. the race-enabled
# standard library) so that the first check does not pay for it.  A harness that does
# not build is reported by the check that needs it (exit 2), not here.
cd "$(dirname "$0")/.."
export GOFLAGS=-mod=mod GOPROXY=off GOSUMDB=off GOTOOLCHAIN=local
mkdir -p evidence harness/bin
cd harness
fail=0
for d in cmd/*/; do
  n=$(basename "$d")
  if ! go build -trimpath -tags verif -o bin/$n ./cmd/$n; then
    echo "setup: warning: $n does not build" >&2
    fail=1
  fi
done
# race-enabled builds (C13) - warms the race runtime / stdlib cache
for n in vh-race; do
  if [ -d cmd/$n ]; then
    go build -trimpath -race -tags verif -o bin/$n-race ./cmd/$n || echo "setup: warning: $n (race) does not build" >&2
  fi
done
echo "setup ok"
exit 0
