"""Shared machinery of the /verif checks (see DESIGN.md section 2)."""
