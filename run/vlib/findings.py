"""known_findings.jsonl: committed, never written at run time (DESIGN.md section 4)."""
import json, os

VERIF = os.path.dirname(os.path.dirname(os.path.dirname(os.path.abspath(__file__))))
PATH = os.path.join(VERIF, "known_findings.jsonl")


def load():
    out = []
    if os.path.exists(PATH):
        for line in open(PATH):
            line = line.strip()
            if line and not line.startswith("#"):
                out.append(json.loads(line))
    return out


def known_keys(prop):
    """keys with status 'known' for this property (fixed entries suppress nothing)."""
    return {f["key"]: f for f in load() if f["property"] == prop and f.get("status") == "known"}
