"""Verdict plumbing: collects violations, applies known findings, writes evidence, exits."""
import functools, json, os, sys, threading, time

from . import findings

VERIF = os.path.dirname(os.path.dirname(os.path.dirname(os.path.abspath(__file__))))
EVID = os.path.join(VERIF, "evidence")
if os.environ.get("VERIF_REPO"):
    # development runs against a scratch copy of the repository (mutants, fix trials) must not
    # overwrite the evidence of the registered checks
    EVID = os.path.join(VERIF, "evidence", "alt")


def _locked(fn):
    @functools.wraps(fn)
    def w(self, *a, **k):
        with self._lock:
            return fn(self, *a, **k)
    return w


class Report:
    """Mutators are serialised by a lock so that a check may run independent halves in threads."""

    def __init__(self, prop, tier, seed, level="model_checking"):
        self._lock = threading.RLock()
        self.prop, self.tier, self.seed, self.level = prop, tier, seed, level
        self.t0 = time.time()
        self.violations = []   # (key, what, replay_obj)
        self.infra = []        # strings
        self.cov = dict(states=0, transitions=0, traces_validated_against_impl=0, samples=[],
                        evaluations=0, distinct_nontrivial=0, rule="", exhaustive=False,
                        tlc_runs=[], self_tests=[])
        self.assumptions = []
        self._distinct = set()

    # ---- coverage accounting -------------------------------------------------
    @_locked
    def add_tlc(self, name, res, note=""):
        self.cov["states"] += res.distinct
        self.cov["transitions"] += res.generated
        self.cov["tlc_runs"].append(dict(name=name, note=note, **res.brief()))

    @_locked
    def add_cases(self, cases, nontrivial=lambda c: True, validated=True):
        """cases: list of JSON-able case descriptions actually executed against the code."""
        for c in cases:
            self.cov["evaluations"] += 1
            if validated:
                self.cov["traces_validated_against_impl"] += 1
            if nontrivial(c):
                k = json.dumps(c, sort_keys=True, default=str)
                self._distinct.add(hash(k))
        self.cov["distinct_nontrivial"] = len(self._distinct)

    @_locked
    def sample(self, obj, limit=6):
        if len(self.cov["samples"]) < limit:
            self.cov["samples"].append(obj)

    @_locked
    def self_test(self, name, ok, detail=""):
        self.cov["self_tests"].append(dict(name=name, ok=bool(ok), detail=detail))
        if not ok:
            self.infra.append("self-test failed: %s %s" % (name, detail))

    # ---- verdicts -------------------------------------------------------------
    @_locked
    def violation(self, key, what, replay):
        self.violations.append((key, what, replay))

    @_locked
    def infra_error(self, msg):
        self.infra.append(msg)

    def finish(self):
        known = findings.known_keys(self.prop)
        os.makedirs(os.path.join(EVID, "replay"), exist_ok=True)
        new, seen_known = [], {}
        def known_as(key):
            # a known entry whose key ends with "*" covers the keys it is a prefix of (one failure class whose key
            # carries a varying suffix, e.g. .../after-<failure kind>)
            if key in known:
                return key
            for k in known:
                if k.endswith("*") and key.startswith(k[:-1]):
                    return k
            return None
        for key, what, replay in self.violations:
            kk = known_as(key)
            if kk is not None:
                seen_known.setdefault(kk, what)
            else:
                new.append((key, what, replay))
        for key, what in seen_known.items():
            print("KNOWN-FINDING: property=%s %s (%s)" % (self.prop, key, known[key].get("what", what)))
        paths = []
        seen_keys = set()
        for i, (key, what, replay) in enumerate(new):
            if key in seen_keys and len(paths) >= 5:
                continue
            seen_keys.add(key)
            path = os.path.join(EVID, "replay", "%s-%d.json" % (self.prop, len(paths)))
            with open(path, "w") as fh:
                json.dump(dict(property=self.prop, key=key, what=what, replay=replay), fh, indent=1, default=str)
            paths.append(path)
            print("VIOLATION property=%s replay=%s  # %s: %s" % (self.prop, path, key, str(what)[:300]))
            if len(paths) >= 10:
                break
        wall = time.time() - self.t0
        if not self.cov["samples"]:
            self.cov["samples"] = ["(no case was executed)"]
        ev = dict(property_id=self.prop, tier=self.tier, seed=self.seed, level=self.level,
                  coverage=self.cov, assumptions=self.assumptions, wall_s=round(wall, 2),
                  violations=len(new), known_findings=sorted(seen_known), infra=self.infra)
        tmp = os.path.join(EVID, self.prop + ".json.tmp")
        with open(tmp, "w") as fh:
            json.dump(ev, fh, indent=1, default=str)
        os.replace(tmp, os.path.join(EVID, self.prop + ".json"))
        if new:
            print("%s: %d violation(s) (%d known finding(s)) in %.1fs" % (self.prop, len(new), len(seen_known), wall))
            sys.exit(1)
        if self.infra:
            for m in self.infra:
                print("INFRA: " + m)
            sys.exit(2)
        print("%s: ok tier=%s seed=%d states=%d transitions=%d impl_traces=%d distinct=%d wall=%.1fs" % (
            self.prop, self.tier, self.seed, self.cov["states"], self.cov["transitions"],
            self.cov["traces_validated_against_impl"], self.cov["distinct_nontrivial"], wall))
        sys.exit(0)
