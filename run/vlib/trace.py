"""Code->model: have TLC validate histories recorded from the real code (DESIGN.md 2.3)."""
import json
from . import tlc


def to_ndjson(histories):
    lines = []
    for h in histories:
        lines.append(json.dumps({"ev": "reset"}))
        for e in h:
            lines.append(json.dumps(e, separators=(",", ":")))
    return "\n".join(lines) + "\n"


def validate(comp, module, cfg, histories, timeout=900, deque=False, heap="4g", extra_files=None):
    """Returns (accepted: bool|None, result, info).  None = infrastructure trouble."""
    files = {"trace.ndjson": to_ndjson(histories)}
    files.update(extra_files or {})
    r = tlc.run_tlc(comp, module, cfg, workers=1, timeout=timeout, files=files, deque=deque, heap=heap)
    rej = r.tagged.get("REJECTED")
    if r.timed_out:
        return None, r, "timeout"
    if rej:
        return False, r, rej[0]
    if r.rc == 0:
        return True, r, None
    return None, r, r.out[-1500:]


def locate(histories, at):
    """Map a 1-based position in the concatenated trace to (history index, event index)."""
    pos = 0
    for hi, h in enumerate(histories):
        n = 1 + len(h)
        if at <= pos + n:
            return hi, at - pos - 2
        pos += n
    return len(histories) - 1, -1


def validate_all(rep, comp, module, cfg, histories, *, label, shards=8, timeout=900, key_fn=None, deque=False):
    """Shard histories over several single-worker TLC runs.  A rejected shard is bisected to the
    offending history, which is validated again alone before it is reported."""
    import concurrent.futures as cf
    if not histories:
        rep.infra_error(label + ": no histories recorded")
        return
    shards = max(1, min(shards, len(histories)))
    parts = [histories[i::shards] for i in range(shards)]
    with cf.ThreadPoolExecutor(max_workers=shards) as ex:
        futs = [ex.submit(validate, comp, module, cfg, p, timeout, deque) for p in parts]
        results = [f.result() for f in futs]
    for part, (acc, r, info) in zip(parts, results):
        rep.add_tlc("%s/%s" % (module, cfg), r, "trace validation of %d histories" % len(part))
        if acc is None:
            rep.infra_error("%s: trace validation did not complete: %s" % (label, str(info)[:600]))
        elif acc:
            rep.add_cases(part, nontrivial=lambda h: len(h) > 4)
        else:
            hi, ei = locate(part, info["at"])
            bad = part[hi]
            acc2, r2, info2 = validate(comp, module, cfg, [bad], timeout, deque)
            if acc2 is False:
                key = key_fn(bad, info2) if key_fn else label + "/history-rejected"
                rep.violation(key, "history not explainable by %s: first unexplained event #%d %s" % (
                    module, info2["at"] - 1, json.dumps(info2["event"])[:300]), dict(history=bad, rejected_at=info2))
            else:
                rep.infra_error("%s: rejection did not reproduce on the single history" % label)
            # the remaining histories of this shard are still checked
            rest = part[:hi] + part[hi + 1:]
            if rest:
                validate_all(rep, comp, module, cfg, rest, label=label, shards=1, timeout=timeout, key_fn=key_fn, deque=deque)
