"""Code->model: have TLC validate histories recorded from the real code (DESIGN.md 2.3)."""
import json
from . import tlc


def to_ndjson(histories):
    lines = []
    for h in histories:
        if not (h and h[0].get("ev") == "reset"):
            lines.append(json.dumps({"ev": "reset"}))
        for e in h:
            lines.append(json.dumps(e, separators=(",", ":")))
    return "\n".join(lines) + "\n"


def validate(comp, module, cfg, histories, timeout=900, deque=False, heap="4g", extra_files=None):
    """Returns (accepted: bool|None, result, info).  None = infrastructure trouble."""
    files = {"trace.ndjson": to_ndjson(histories)}
    files.update(extra_files or {})
    r = tlc.run_tlc(comp, module, cfg, workers=1, timeout=timeout, files=files, deque=deque, heap=heap)
    rej = r.tagged.get("REJECTED")
    if r.timed_out:
        return None, r, "timeout"
    if rej:
        return False, r, rej[0]
    if r.rc == 0:
        return True, r, None
    return None, r, r.out[-1500:]


def locate(histories, at):
    """Map a 1-based position in the concatenated trace to (history index, event index)."""
    pos = 0
    for hi, h in enumerate(histories):
        own = bool(h and h[0].get("ev") == "reset")
        n = len(h) + (0 if own else 1)
        if at <= pos + n:
            return hi, at - pos - (1 if own else 2)
        pos += n
    return len(histories) - 1, -1


def validate_all(rep, comp, module, cfg, histories, *, label, shards=8, timeout=900, key_fn=None, deque=False,
                 max_violations=3):
    """Shard histories over several single-worker TLC runs.  TLC explores breadth-first, so when a shard is
    rejected at history i every earlier history of the shard was explained; history i is validated again alone
    before it is reported and the shard continues after it.  After max_violations reported violations the
    remaining histories are left unvalidated (counted in evidence) - the verdict is already exit 1."""
    import concurrent.futures as cf
    import threading
    if not histories:
        rep.infra_error(label + ": no histories recorded")
        return
    shards = max(1, min(shards, len(histories)))
    parts = [histories[i::shards] for i in range(shards)]
    lock = threading.Lock()
    state = dict(viol=0, skipped=0)

    def work(part):
        while part:
            with lock:
                if state["viol"] >= max_violations:
                    state["skipped"] += len(part)
                    return
            acc, r, info = validate(comp, module, cfg, part, timeout, deque)
            with lock:
                rep.add_tlc("%s/%s" % (module, cfg), r, "trace validation of %d histories" % len(part))
                if acc is None:
                    rep.infra_error("%s: trace validation did not complete: %s" % (label, str(info)[:600]))
                    return
                if acc:
                    rep.add_cases(part, nontrivial=lambda h: len(h) > 4)
                    return
            hi, ei = locate(part, info["at"])
            bad = part[hi]
            acc2, r2, info2 = validate(comp, module, cfg, [bad], timeout, deque)
            with lock:
                rep.add_cases(part[:hi], nontrivial=lambda h: len(h) > 4)
                if acc2 is False:
                    key = key_fn(bad, info2) if key_fn else label + "/history-rejected"
                    rep.violation(key, "history not explainable by %s: first unexplained event #%d %s" % (
                        module, info2["at"] - 1, json.dumps(info2["event"])[:300]), dict(history=bad, rejected_at=info2))
                    state["viol"] += 1
                else:
                    rep.infra_error("%s: rejection did not reproduce on the single history" % label)
            part = part[hi + 1:]

    with cf.ThreadPoolExecutor(max_workers=shards) as ex:
        list(ex.map(work, parts))
    if state["skipped"]:
        rep.cov["histories_not_validated_after_violations"] = rep.cov.get("histories_not_validated_after_violations", 0) + state["skipped"]
