"""Model->code replay: feed TLC-generated behaviours to a harness binary, collect verdicts,
re-run every failing behaviour in isolation before it is reported (DESIGN.md 2.3, 4)."""
import json
from . import harness


def dedupe(behs):
    seen, out = set(), []
    for b in behs:
        k = json.dumps(b, sort_keys=True)
        if k not in seen:
            seen.add(k)
            out.append(b)
    return out


def replay(rep, binary, args, behaviours, *, shards=12, timeout=900, label="replay",
           nontrivial=lambda b: True, env_extra=None, max_inconclusive=0.05, wrap=True):
    """behaviours: list of JSON-able behaviours.  The binary reads {"n":i,"beh":b} lines and
    prints {"begin":i} before and {"n":i,"ok":..} after each.  Returns list of failing results."""
    if not behaviours:
        rep.infra_error("%s: no behaviours to replay" % label)
        return []
    items = [dict(n=i, beh=b) for i, b in enumerate(behaviours)] if wrap else behaviours
    outs, meta = harness.run_sharded(binary, args, items, shards=shards, timeout=timeout, env_extra=env_extra)
    results, begun = {}, set()
    for o in outs:
        if "begin" in o:
            begun.add(o["begin"])
        elif "n" in o:
            results[o["n"]] = o
    crashed = sorted(begun - set(results))
    never = [i for i in range(len(items)) if i not in begun]
    suspects = [results[i] for i in sorted(results) if not results[i].get("ok")]
    # a behaviour that was begun but has no result killed its process: re-run alone
    for i in crashed:
        rc, o, err = harness.run(binary, args, [items[i]], timeout=120, env_extra=env_extra)
        got = [x for x in o if x.get("n") == i]
        if got:
            if not got[0].get("ok"):
                suspects.append(got[0])
            else:
                results[i] = got[0]
                rep.cov.setdefault("unreproduced_crashes", 0)
                rep.cov["unreproduced_crashes"] += 1
        else:
            tail = err[-3000:]
            lib = "github.com/tychoish/fun" in tail
            if lib and ("panic:" in tail or "fatal error:" in tail):
                rep.violation(label + "/process-crash", "the process died while replaying this behaviour: " + tail[-1500:],
                              dict(behaviour=items[i], stderr=tail))
            else:
                rep.infra_error("%s: behaviour %d kills the harness without a library frame: %s" % (label, i, tail[-500:]))
    # behaviours never begun because their shard died earlier: run them again
    if never:
        outs2, _ = harness.run_sharded(binary, args, [items[i] for i in never], shards=shards,
                                       timeout=timeout, env_extra=env_extra)
        for o in outs2:
            if "n" in o and "begin" not in o:
                results[o["n"]] = o
                if not o.get("ok"):
                    suspects.append(o)
    failures = []
    for s in suspects:
        i = s["n"]
        rc, o, err = harness.run(binary, args, [items[i]], timeout=120, env_extra=env_extra)
        again = [x for x in o if x.get("n") == i and "begin" not in x]
        if again and not again[0].get("ok"):
            r = again[0]
            failures.append(r)
            rep.violation(r.get("key", label + "/mismatch"), r.get("what", ""), dict(behaviour=items[i], result=r,
                          binary=binary.split("/")[-1], args=list(args)))
        else:
            rep.infra_error("%s: mismatch on behaviour %d did not reproduce in isolation: %s" % (label, i, json.dumps(s)[:400]))
    inconclusive = [r for r in results.values() if r.get("inconclusive")]
    done = [items[i]["beh"] if wrap else items[i] for i in results if results[i].get("ok") and not results[i].get("inconclusive")]
    rep.add_cases(done, nontrivial=nontrivial)
    rep.cov.setdefault("inconclusive", 0)
    rep.cov["inconclusive"] += len(inconclusive)
    if len(inconclusive) > max_inconclusive * max(1, len(items)):
        rep.infra_error("%s: %d of %d behaviours inconclusive (e.g. %s)" % (
            label, len(inconclusive), len(items), inconclusive[0].get("inconclusive")))
    missing = [i for i in range(len(items)) if i not in results and i not in crashed]
    if missing:
        rep.infra_error("%s: %d behaviours produced no result" % (label, len(missing)))
    return failures
