"""Build and run the Go conformance harness against /repo's current working tree."""
import json, os, subprocess, tempfile, time

VERIF = os.path.dirname(os.path.dirname(os.path.dirname(os.path.abspath(__file__))))
HARNESS = os.path.join(VERIF, "harness")
BIN = os.path.join(HARNESS, "bin")

GOENV = dict(GOFLAGS="-mod=mod", GOPROXY="off", GOSUMDB="off", GOTOOLCHAIN="local")


class InfraError(Exception):
    """Infrastructure trouble (exit 2) - never a verdict about the code."""


def goenv():
    env = dict(os.environ)
    env.update(GOENV)
    env.setdefault("GOCACHE", os.path.join(os.path.expanduser("~"), ".cache", "go-build"))
    return env


def build(cmd_name, race=False, timeout=900):
    """go build ./cmd/<cmd_name> with -tags verif; always invoked so that edits under
    /repo (reached through the replace directive) are picked up; the Go build cache
    makes the unchanged case fast."""
    os.makedirs(BIN, exist_ok=True)
    out = os.path.join(BIN, cmd_name + ("-race" if race else ""))
    # -trimpath: the build cache key no longer depends on the directory of the repository copy, so scratch
    # copies (mutants, seeded changes) reuse the cache instead of filling the disk
    args = ["go", "build", "-trimpath", "-tags", "verif", "-o", out]
    alt = os.environ.get("VERIF_REPO")
    if alt:
        # development aid (mutant / fix trials on a scratch copy of the repository): same harness,
        # different replace target.  Registered MANIFEST commands never set this.
        import zlib; tag = str(zlib.crc32(os.path.abspath(alt).encode()))
        out = out + "-alt" + tag
        args[6] = out
        modfile = os.path.join(BIN, "alt%s.mod" % tag)
        with open(modfile, "w") as fh:
            fh.write("module verif/harness\n\ngo 1.20\n\nrequire github.com/tychoish/fun v0.0.0\n\n"
                     "replace github.com/tychoish/fun => %s\n" % os.path.abspath(alt))
        open(os.path.join(BIN, "alt%s.sum" % tag), "a").close()
        args += ["-modfile", modfile]
    if race:
        args.append("-race")
    args.append("./cmd/" + cmd_name)
    p = subprocess.run(args, cwd=HARNESS, env=goenv(), stdout=subprocess.PIPE,
                       stderr=subprocess.STDOUT, text=True, timeout=timeout)
    if p.returncode != 0:
        raise InfraError("harness build failed for %s:\n%s" % (cmd_name, p.stdout[-4000:]))
    return out


def run(binary, args, stdin_lines=None, timeout=600, env_extra=None):
    """Run a harness binary. stdin_lines: iterable of JSON-serialisable objects (ndjson).
    Returns (rc, list of decoded stdout JSON lines, stderr text)."""
    env = goenv()
    env.update(env_extra or {})
    data = None
    if stdin_lines is not None:
        data = "".join(json.dumps(x, separators=(",", ":")) + "\n" for x in stdin_lines)
    try:
        p = subprocess.run([binary] + list(args), input=data, stdout=subprocess.PIPE,
                           stderr=subprocess.PIPE, text=True, timeout=timeout, env=env)
    except subprocess.TimeoutExpired as e:
        raise InfraError("harness %s %s timed out after %ss" % (binary, args, timeout))
    outs = []
    for line in p.stdout.splitlines():
        line = line.strip()
        if not line.startswith("{"):
            continue
        try:
            outs.append(json.loads(line))
        except Exception:
            pass
    return p.returncode, outs, p.stderr


def run_sharded(binary, args, items, shards=8, timeout=600, env_extra=None):
    """Split items round-robin over `shards` processes; returns concatenated outputs,
    list of (rc, stderr) per shard."""
    import concurrent.futures as cf
    shards = max(1, min(shards, len(items) or 1))
    parts = [items[i::shards] for i in range(shards)]
    outs, meta = [], []
    with cf.ThreadPoolExecutor(max_workers=shards) as ex:
        futs = [ex.submit(run, binary, args, part, timeout, env_extra) for part in parts]
        for f in futs:
            rc, o, err = f.result()
            outs.extend(o)
            meta.append((rc, err))
    return outs, meta
