"""Build and run the Go conformance harness against /repo's current working tree."""
import json, os, subprocess, tempfile, time

VERIF = os.path.dirname(os.path.dirname(os.path.dirname(os.path.abspath(__file__))))
HARNESS = os.path.join(VERIF, "harness")
BIN = os.path.join(HARNESS, "bin")

GOENV = dict(GOFLAGS="-mod=mod", GOPROXY="off", GOSUMDB="off", GOTOOLCHAIN="local")


class InfraError(Exception):
    """Infrastructure trouble (exit 2) - never a verdict about the code."""


def goenv():
    env = dict(os.environ)
    env.update(GOENV)
    env.setdefault("GOCACHE", os.path.join(os.path.expanduser("~"), ".cache", "go-build"))
    return env


def build(cmd_name, race=False, timeout=900):
    """go build ./cmd/<cmd_name> with -tags verif; always invoked so that edits under
    /repo (reached through the replace directive) are picked up; the Go build cache
    makes the unchanged case fast."""
    os.makedirs(BIN, exist_ok=True)
    out = os.path.join(BIN, cmd_name + ("-race" if race else ""))
    # -trimpath: the build cache key no longer depends on the directory of the repository copy, so scratch
    # copies (mutants, seeded changes) reuse the cache instead of filling the disk
    args = ["go", "build", "-trimpath", "-tags", "verif", "-o", out]
    alt = os.environ.get("VERIF_REPO")
    if alt:
        # development aid (mutant / fix trials on a scratch copy of the repository): same harness,
        # different replace target.  Registered MANIFEST commands never set this.
        import zlib; tag = str(zlib.crc32(os.path.abspath(alt).encode()))
        out = out + "-alt" + tag
        args[6] = out
        modfile = os.path.join(BIN, "alt%s.mod" % tag)
        with open(modfile, "w") as fh:
            fh.write("module verif/harness\n\ngo 1.22\n\nrequire github.com/tychoish/fun v0.0.0\n\n"
                     "replace github.com/tychoish/fun => %s\n" % os.path.abspath(alt))
        open(os.path.join(BIN, "alt%s.sum" % tag), "a").close()
        args += ["-modfile", modfile]
    audit = bool(os.environ.get("VERIF_HARNESS_RACE")) and not race
    if audit:
        # development aid: build the harness itself with the race detector to find data races in HARNESS code
        # (they can kill a replay process and look like a library crash); reports are collected by run()
        out += "-audit"
        args[6] = out
        args.append("-race")
    if race:
        args.append("-race")
    args.append("./cmd/" + cmd_name)
    p = subprocess.run(args, cwd=HARNESS, env=goenv(), stdout=subprocess.PIPE,
                       stderr=subprocess.STDOUT, text=True, timeout=timeout)
    if p.returncode != 0:
        raise InfraError("harness build failed for %s:\n%s" % (cmd_name, p.stdout[-4000:]))
    return out


_SKIP = ("runtime.", "runtime/", "panic(", "sync.", "sync/", "internal/", "reflect.", "created by", "testing.")


def crash_origin(stderr):
    """Where did a dying harness process die?  Go prints the goroutine that panicked / hit the fatal error first
    ("goroutine N [running]:"); its innermost frame outside the runtime tells whether the fault is in the library
    under test ("library") or in the harness's own code ("harness", e.g. a data race on a harness map that the
    runtime reports as 'concurrent map writes' from inside a callback the library invoked)."""
    import re
    m = re.search(r"^goroutine \d+ \[running[^\]]*\]:\n(.*?)(?:\n\n|\Z)", stderr, re.S | re.M)
    if not m:
        return "unknown"
    for line in m.group(1).splitlines():
        if not line or line.startswith("\t"):
            continue
        name = line.strip()
        if name.startswith(_SKIP):
            continue
        if name.startswith("github.com/tychoish/fun"):
            return "library"
        if name.startswith(("main.", "verif/harness")):
            return "harness"
        return "unknown"
    return "unknown"


def _attribute(stderr):
    """A crash that originates in harness code must never be blamed on the library: the checks look for
    'panic:' / 'fatal error:' next to a library frame, so those markers are renamed for harness-origin crashes
    (the check then reports infrastructure trouble, exit 2, with the text intact otherwise)."""
    # only faults the Go runtime itself detected (fatal errors, 'panic: runtime error: ...'): a panic with a value
    # of the harness's own may be a SCRIPTED panic of a callback that the library failed to recover - that one is
    # the library's fault and must stay attributable to it
    runtime_fault = "fatal error:" in stderr or "panic: runtime error" in stderr
    if runtime_fault and crash_origin(stderr) == "harness":
        return ("HARNESS-ORIGIN CRASH (not a verdict about the library)\n" +
                stderr.replace("panic:", "harness-panic:").replace("fatal error:", "harness-fatal-error:"))
    return stderr


def run(binary, args, stdin_lines=None, timeout=600, env_extra=None):
    """Run a harness binary. stdin_lines: iterable of JSON-serialisable objects (ndjson).
    Returns (rc, list of decoded stdout JSON lines, stderr text)."""
    env = goenv()
    env.update(env_extra or {})
    if os.environ.get("VERIF_HARNESS_RACE"):
        env.setdefault("GORACE", "exitcode=0 halt_on_error=0")
    data = None
    if stdin_lines is not None:
        data = "".join(json.dumps(x, separators=(",", ":")) + "\n" for x in stdin_lines)
    try:
        p = subprocess.run([binary] + list(args), input=data, stdout=subprocess.PIPE,
                           stderr=subprocess.PIPE, text=True, timeout=timeout, env=env)
    except subprocess.TimeoutExpired as e:
        raise InfraError("harness %s %s timed out after %ss" % (binary, args, timeout))
    outs = []
    for line in p.stdout.splitlines():
        line = line.strip()
        if not line.startswith("{"):
            continue
        try:
            outs.append(json.loads(line))
        except Exception:
            pass
    if os.environ.get("VERIF_HARNESS_RACE") and "WARNING: DATA RACE" in p.stderr:
        with open(os.environ["VERIF_HARNESS_RACE"], "a") as fh:
            fh.write("==== %s %s\n%s\n" % (binary, " ".join(args), p.stderr[:20000]))
    return p.returncode, outs, _attribute(p.stderr)


def run_sharded(binary, args, items, shards=8, timeout=600, env_extra=None):
    """Split items round-robin over `shards` processes; returns concatenated outputs,
    list of (rc, stderr) per shard."""
    import concurrent.futures as cf
    shards = max(1, min(shards, len(items) or 1))
    parts = [items[i::shards] for i in range(shards)]
    outs, meta = [], []
    with cf.ThreadPoolExecutor(max_workers=shards) as ex:
        futs = [ex.submit(run, binary, args, part, timeout, env_extra) for part in parts]
        for f in futs:
            rc, o, err = f.result()
            outs.extend(o)
            meta.append((rc, err))
    return outs, meta
