"""Run TLC on a spec in a scratch copy, with a timeout, and parse its output.

Nothing here issues a verdict about the code: a TLC error on a *model* is
returned to the caller, which decides (DESIGN.md section 4).
"""
import json, os, re, shutil, subprocess, tempfile, time

VERIF = os.path.dirname(os.path.dirname(os.path.dirname(os.path.abspath(__file__))))
SPEC = os.path.join(VERIF, "spec")
JAR = "/opt/veriftools/tla/tla2tools.jar"
DEPS = "/opt/veriftools/tla/CommunityModules-deps.jar"


class TLCResult:
    def __init__(self):
        self.rc = None
        self.timed_out = False
        self.generated = 0
        self.distinct = 0
        self.depth = 0
        self.out = ""
        self.tagged = {}        # tag -> list of decoded JSON payloads printed by PrintT(<<tag, json>>)
        self.violated = None    # name of violated invariant / property, if any
        self.error_lines = []
        self.wall = 0.0
        self.coverage = {}      # action name -> (distinct, taken) when -coverage was on
        self.postcondition_failed = False

    @property
    def ok(self):
        return self.rc == 0 and not self.timed_out

    def brief(self):
        return dict(rc=self.rc, generated=self.generated, distinct=self.distinct,
                    depth=self.depth, wall_s=round(self.wall, 2), violated=self.violated)


_TAG = re.compile(r'^<<"([A-Z_]+)", (".*")>>$')


def _decode_tagged(line):
    m = _TAG.match(line)
    if not m:
        return None
    try:
        return m.group(1), json.loads(json.loads(m.group(2)))
    except Exception:
        return None


def run_tlc(comp, module, cfg, *, workers=4, simulate=None, depth=None, seed=None,
            timeout=600, heap="4g", files=None, coverage=False, deque=False,
            extra_args=(), keep_out=False, difftrace=False):
    """comp: directory under spec/, module: module name (no .tla), cfg: cfg file name.
    files: dict name->text of extra files to place next to the spec (e.g. traces).
    simulate: dict(num=N) or None."""
    res = TLCResult()
    tmp = tempfile.mkdtemp(prefix="vtlc-")
    try:
        for d in (os.path.join(SPEC, "lib"), os.path.join(SPEC, comp)):
            for f in os.listdir(d):
                p = os.path.join(d, f)
                if os.path.isfile(p):
                    shutil.copy(p, tmp)
        for name, text in (files or {}).items():
            mode = "wb" if isinstance(text, bytes) else "w"
            with open(os.path.join(tmp, name), mode) as fh:
                fh.write(text)
        jvm = ["java", "-XX:+UseParallelGC", "-Xmx" + heap, "-Xss64m"]
        if deque:
            jvm.append("-Dtlc2.tool.queue.IStateQueue=StateDeque")
        cmd = jvm + ["-cp", JAR + ":" + DEPS, "tlc2.TLC", "-workers", str(workers),
                     "-metadir", os.path.join(tmp, "meta"), "-config", cfg]
        if simulate is not None:
            cmd += ["-simulate", "num=%d" % simulate.get("num", 100)]
            cmd += ["-depth", str(depth or 50)]
        if seed is not None:
            cmd += ["-seed", str(seed)]
        if coverage:
            cmd += ["-coverage", "1"]
        cmd += list(extra_args)
        cmd += [module + ".tla"]
        t0 = time.time()
        try:
            p = subprocess.run(cmd, cwd=tmp, stdout=subprocess.PIPE, stderr=subprocess.STDOUT,
                               timeout=timeout, text=True, errors="replace")
            res.rc = p.returncode
            out = p.stdout
        except subprocess.TimeoutExpired as e:
            res.timed_out = True
            out = (e.stdout or b"")
            if isinstance(out, bytes):
                out = out.decode(errors="replace")
            subprocess.run(["pkill", "-f", tmp], check=False)
        res.wall = time.time() - t0
        kept = []
        for line in out.splitlines():
            if line.startswith('<<"'):
                d = _decode_tagged(line)
                if d:
                    res.tagged.setdefault(d[0], []).append(d[1])
                    continue
            kept.append(line)
            m = re.search(r"(\d+) states generated, (\d+) distinct states found", line)
            if m:
                res.generated, res.distinct = int(m.group(1)), int(m.group(2))
            m = re.search(r"depth of the complete state graph search is (\d+)", line)
            if m:
                res.depth = int(m.group(1))
            m = re.search(r"Invariant (\S+) is violated", line)
            if m:
                res.violated = m.group(1)
            m = re.search(r"Action property (\S+) is violated", line)
            if m:
                res.violated = m.group(1)
            if "Temporal properties were violated" in line:
                res.violated = res.violated or "TEMPORAL"
            if "Deadlock reached" in line:
                res.violated = res.violated or "DEADLOCK"
            if "The postcondition" in line and "violated" in line or "Postcondition" in line and "violated" in line:
                res.postcondition_failed = True
            if line.startswith("Error:"):
                res.error_lines.append(line)
            m = re.match(r"^<(\w+) line \d+, col \d+ to line \d+, col \d+ of module \w+>: (\d+):(\d+)", line)
            if m:
                res.coverage[m.group(1)] = (int(m.group(2)), int(m.group(3)))
        res.out = "\n".join(kept[-400:]) if not keep_out else "\n".join(kept)
        return res
    finally:
        shutil.rmtree(tmp, ignore_errors=True)


def sany(comp, module):
    """Parse-check a module (used by setup)."""
    tmp = tempfile.mkdtemp(prefix="vsany-")
    try:
        for d in (os.path.join(SPEC, "lib"), os.path.join(SPEC, comp)):
            for f in os.listdir(d):
                if f.endswith(".tla"):
                    shutil.copy(os.path.join(d, f), tmp)
        p = subprocess.run(["java", "-cp", JAR + ":" + DEPS, "tla2sany.SANY", module + ".tla"],
                           cwd=tmp, stdout=subprocess.PIPE, stderr=subprocess.STDOUT, text=True, timeout=120)
        return p.returncode == 0 and "Semantic errors" not in p.stdout and "***Parse Error***" not in p.stdout, p.stdout
    finally:
        shutil.rmtree(tmp, ignore_errors=True)
