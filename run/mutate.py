#!/usr/bin/env python3
"""Development aid (not a registered command): sensitivity of the checks.

  python3 run/mutate.py C07 [C10 ...] [--tier quick] [--filter name] [--dir run/mutants|seeded] [--tests]

For every patch of run/mutants/<ID>/*.diff (or seeded/<ID>*/patch.diff with --dir seeded) make a scratch copy
of /repo outside /repo and /verif, apply the patch, run the check of that property against the copy
(VERIF_REPO; evidence goes to evidence/alt/, never to the registered evidence files) and record exit code
and violation keys.  The copy is removed afterwards.  Results are appended to run/mutants/RESULTS.jsonl
and summarised on stdout.  With --tests the package tests named in the patch's first line
("# tests: ./pubsub") - or the whole suite - are run on the mutant first."""
import argparse, glob, json, os, shutil, subprocess, sys, tempfile, time

V = os.path.dirname(os.path.dirname(os.path.abspath(__file__)))
ENV = dict(os.environ, GOFLAGS="-mod=mod", GOPROXY="off", GOSUMDB="off", GOTOOLCHAIN="local")


def patches(pid, d):
    if d == "seeded":
        out = []
        for m in sorted(glob.glob(os.path.join(V, "seeded", "*", "meta.json"))):
            meta = json.load(open(m))
            props_of = (meta.get("property"),) if os.environ.get("MUTATE_PRIMARY_ONLY") else (meta.get("property"), *meta.get("also", []))
            if meta.get("confirmed") is False:
                continue
            if pid in props_of:
                d = os.path.dirname(m)
                reb = os.path.join(d, "patch.rebased.diff")     # /repo HEAD moved since the seed was written
                out.append((os.path.basename(d), reb if os.path.exists(reb) else os.path.join(d, "patch.diff")))
        return out
    return [(os.path.basename(p), p) for p in sorted(glob.glob(os.path.join(V, d, pid, "*.diff")))]


def main():
    ap = argparse.ArgumentParser()
    ap.add_argument("props", nargs="+")
    ap.add_argument("--tier", default="quick")
    ap.add_argument("--filter", default="")
    ap.add_argument("--dir", default="run/mutants")
    ap.add_argument("--tests", action="store_true")
    a = ap.parse_args()
    rows = []
    for pid in a.props:
        for name, path in patches(pid, a.dir):
            if a.filter and a.filter not in name:
                continue
            tmp = tempfile.mkdtemp(prefix="vmut-")
            repo = os.path.join(tmp, "repo")
            try:
                subprocess.run(["git", "-C", "/repo", "worktree", "add", "--detach", repo, "HEAD"], check=True,
                               stdout=subprocess.DEVNULL, stderr=subprocess.DEVNULL)
                p = subprocess.run(["git", "apply", "--recount", path], cwd=repo, capture_output=True, text=True)
                if p.returncode != 0:
                    p = subprocess.run(["git", "apply", "--3way", path], cwd=repo, capture_output=True, text=True)
                if p.returncode != 0:
                    subprocess.run(["git", "checkout", "-q", "--", "."], cwd=repo)
                    p = subprocess.run(["patch", "-p1", "-s", "-i", path], cwd=repo, capture_output=True, text=True)
                if p.returncode != 0:
                    rows.append(dict(prop=pid, mutant=name, result="patch-failed", detail=(p.stdout + p.stderr)[-300:]))
                    print(rows[-1], flush=True)
                    continue
                tests = None
                if a.tests:
                    head = open(path).readline()
                    pkgs = head.split("tests:")[1].split("|")[0].split() if "tests:" in head else ["./..."]
                    t = subprocess.run(["go", "test", "-vet=off", "-count=1"] + pkgs, cwd=repo, env=ENV, capture_output=True, text=True)
                    tests = t.returncode == 0
                t0 = time.time()
                c = subprocess.run(["python3", os.path.join(V, "run", "check.py"), pid, "--tier", a.tier], cwd=V,
                                   env=dict(ENV, VERIF_REPO=repo), capture_output=True, text=True)
                keys = sorted({l.split("# ")[1].split(":")[0] for l in c.stdout.splitlines()
                               if l.startswith("VIOLATION") and "# " in l})
                res = "caught" if c.returncode == 1 and keys else ("missed" if c.returncode == 0 else "infra(rc=%d)" % c.returncode)
                rows.append(dict(prop=pid, mutant=name, result=res, keys=keys, tests_pass=tests, tier=a.tier,
                                 secs=round(time.time() - t0), last=(c.stdout.strip().splitlines() or [""])[-1][:200]))
                print(json.dumps(rows[-1]), flush=True)
                with open(os.path.join(V, "run", "mutants", "RESULTS.jsonl"), "a") as fh:
                    fh.write(json.dumps(rows[-1]) + "\n")
            finally:
                subprocess.run(["git", "-C", "/repo", "worktree", "remove", "--force", repo],
                               stdout=subprocess.DEVNULL, stderr=subprocess.DEVNULL)
                shutil.rmtree(tmp, ignore_errors=True)
    n = sum(r["result"] == "caught" for r in rows)
    print("caught %d of %d" % (n, len(rows)))


if __name__ == "__main__":
    main()
