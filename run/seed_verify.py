#!/usr/bin/env python3
"""Development aid: confirm an independently written breaking change and run our checks against it.

  python3 run/seed_verify.py --src /tmp/seed/out-C05/1 --id C05-1 --prop C05 --demo-dst pubsub/demo_test.go \
        --demo-cmd "go test -count=1 -run TestDemoC05 ./pubsub/" --pkgs ./pubsub [--also C07] [--needs "..."] [--tier quick]

Steps, all in a scratch git worktree of /repo outside /repo and /verif (removed afterwards):
  1. demonstration WITHOUT the change  -> must pass
  2. apply patch.diff; `go build ./...`; demonstration WITH the change -> must fail
  3. the touched packages' own tests with the change (without the demo file) -> must pass (3 tries: timing flakes)
  4. our check(s) for the property against the changed tree (VERIF_REPO) -> caught / missed
Only when 1-3 hold is the change kept: /verif/seeded/<id>/{patch.diff, demo.*, notes.md, meta.json}."""
import argparse, json, os, shutil, subprocess, sys, tempfile, time

V = os.path.dirname(os.path.dirname(os.path.abspath(__file__)))
ENV = dict(os.environ, GOFLAGS="-mod=mod", GOPROXY="off", GOSUMDB="off", GOTOOLCHAIN="local")


def sh(cmd, cwd, timeout=1800):
    p = subprocess.run(cmd, cwd=cwd, env=ENV, shell=isinstance(cmd, str), capture_output=True, text=True, timeout=timeout)
    return p.returncode, (p.stdout + p.stderr)


def main():
    ap = argparse.ArgumentParser()
    ap.add_argument("--src", required=True)
    ap.add_argument("--id", required=True)
    ap.add_argument("--prop", required=True)
    ap.add_argument("--also", nargs="*", default=[])
    ap.add_argument("--demo-dst", required=True, help="path inside the repository where the demo file (or directory) goes")
    ap.add_argument("--demo-src", default=None, help="file/dir inside --src (default: demo_test.go or demo/)")
    ap.add_argument("--demo-cmd", required=True)
    ap.add_argument("--pkgs", nargs="+", required=True)
    ap.add_argument("--needs", default="")
    ap.add_argument("--tier", default="quick")
    ap.add_argument("--skip-check", action="store_true")
    a = ap.parse_args()
    demo_src = a.demo_src or ("demo_test.go" if os.path.exists(os.path.join(a.src, "demo_test.go")) else "demo")
    tmp = tempfile.mkdtemp(prefix="vseed-")
    repo = os.path.join(tmp, "repo")
    meta = dict(id=a.id, property=a.prop, also=a.also, needs=a.needs, demo_dst=a.demo_dst, demo_cmd=a.demo_cmd, pkgs=a.pkgs,
                repo_head=subprocess.run(["git", "-C", "/repo", "rev-parse", "--short", "HEAD"], capture_output=True, text=True).stdout.strip())
    try:
        subprocess.run(["git", "-C", "/repo", "worktree", "add", "--detach", repo, "HEAD"], check=True, capture_output=True)

        def put_demo():
            src, dst = os.path.join(a.src, demo_src), os.path.join(repo, a.demo_dst)
            os.makedirs(os.path.dirname(dst), exist_ok=True)
            if os.path.isdir(src):
                shutil.copytree(src, dst, dirs_exist_ok=True)
            else:
                shutil.copy(src, dst)

        def drop_demo():
            dst = os.path.join(repo, a.demo_dst)
            if os.path.isdir(dst):
                shutil.rmtree(dst)
            elif os.path.exists(dst):
                os.remove(dst)

        put_demo()
        rc0, out0 = sh(a.demo_cmd, repo)
        meta["demo_without_change"] = "pass" if rc0 == 0 else "FAIL"
        rc, out = sh(["git", "apply", os.path.join(a.src, "patch.diff")], repo)
        if rc != 0:
            # /repo HEAD may have moved since the seed was written (later fix: commits): try a 3-way merge
            rc, out = sh(["git", "apply", "--3way", os.path.join(a.src, "patch.diff")], repo)
            meta["patch_applied_with"] = "git apply --3way"
            sh(["git", "reset", "-q"], repo)
        if rc != 0:
            meta["verdict"] = "patch does not apply: " + out[-300:]
            print(json.dumps(meta, indent=1)); return 1
        rcb, outb = sh(["go", "build", "./..."], repo)
        meta["builds"] = rcb == 0
        fails = 0
        for i in range(3):
            rc1, out1 = sh(a.demo_cmd, repo)
            fails += rc1 != 0
        meta["demo_with_change"] = "fails %d/3" % fails
        drop_demo()
        ok = False
        tries = []
        for i in range(3):
            rct, outt = sh(["go", "test", "-vet=off", "-count=1"] + a.pkgs, repo)
            tries.append(rct == 0)
            if rct == 0:
                ok = True
                break
            meta.setdefault("suite_failures", []).append([l for l in outt.splitlines() if l.startswith("--- FAIL") or l.startswith("    --- FAIL")][:6])
        if not ok:
            # the suite has wall-clock assertions that flake on a loaded machine (also on the unmodified tree): a test
            # that failed in every full run is re-run on its own; the suite counts as passing if each passes alone
            import re
            failed = set()
            for l in outt.splitlines():
                m = re.match(r"^--- FAIL: (\S+)", l)
                if m:
                    failed.add(m.group(1))
            alone = {}
            for t in sorted(failed):
                alone[t] = False
                for i in range(4):
                    rc2, _ = sh(["go", "test", "-vet=off", "-count=1", "-run", "^%s$" % t] + a.pkgs, repo)
                    if rc2 == 0:
                        alone[t] = True
                        break
            meta["suite_failed_tests_rerun_alone"] = alone
            ok = bool(failed) and all(alone.values())
            meta["suite_with_change"] = "pass (tests that failed under load pass when run alone)" if ok else "FAIL x3"
        else:
            meta["suite_with_change"] = "pass (try %d)" % len(tries)
        confirmed = rc0 == 0 and rcb == 0 and fails >= 2 and ok
        meta["confirmed"] = confirmed
        results = {}
        if confirmed and not a.skip_check:
            for pid in [a.prop] + a.also:
                t0 = time.time()
                c = subprocess.run(["python3", os.path.join(V, "run", "check.py"), pid, "--tier", a.tier], cwd=V,
                                   env=dict(ENV, VERIF_REPO=repo), capture_output=True, text=True)
                keys = sorted({l.split("# ")[1].split(":")[0] for l in c.stdout.splitlines() if l.startswith("VIOLATION") and "# " in l})
                results[pid] = dict(rc=c.returncode, keys=keys, secs=round(time.time() - t0), tier=a.tier,
                                    result="caught" if c.returncode == 1 and keys else ("missed" if c.returncode == 0 else "infra"),
                                    last=(c.stdout.strip().splitlines() or [""])[-1][:300])
        meta["checks"] = results
        if confirmed:
            dst = os.path.join(V, "seeded", a.id)
            os.makedirs(dst, exist_ok=True)
            shutil.copy(os.path.join(a.src, "patch.diff"), os.path.join(dst, "patch.diff"))
            src = os.path.join(a.src, demo_src)
            if os.path.isdir(src):
                shutil.copytree(src, os.path.join(dst, "demo"), dirs_exist_ok=True)
            else:
                shutil.copy(src, os.path.join(dst, os.path.basename(demo_src)))
            if os.path.exists(os.path.join(a.src, "notes.md")):
                shutil.copy(os.path.join(a.src, "notes.md"), os.path.join(dst, "notes.md"))
            meta["ran"] = ["demo without change: " + a.demo_cmd, "git apply patch.diff; go build ./...", "demo with change x3: " + a.demo_cmd,
                           "go test -vet=off -count=1 " + " ".join(a.pkgs) + " (without the demo file)"] + \
                          ["VERIF_REPO=<scratch> python3 run/check.py %s --tier %s" % (p, a.tier) for p in results]
            json.dump(meta, open(os.path.join(dst, "meta.json"), "w"), indent=1)
        print(json.dumps(meta, indent=1))
        return 0
    finally:
        subprocess.run(["git", "-C", "/repo", "worktree", "remove", "--force", repo], capture_output=True)
        shutil.rmtree(tmp, ignore_errors=True)


if __name__ == "__main__":
    sys.exit(main())
