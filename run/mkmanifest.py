#!/usr/bin/env python3
"""Regenerates MANIFEST.json from the table below (single source for the interface file)."""
import json, os
V = os.path.dirname(os.path.dirname(os.path.abspath(__file__)))
props = [json.loads(l) for l in open(os.path.join(V, "properties.jsonl"))]

TRUST = ("Trusted: TLC; the TLA+ modelling of Go primitives (DESIGN.md 3.1); the quiescence oracle (a goroutine snapshot "
         "with nothing runnable is a fixed point, DESIGN.md 3.3); the harness's mapping of API results to spec vocabulary. ")

C = {}
C["C05"] = ("model_checking",
  "The sequential meaning of the Queue (QueueCore + Tracker, incl. exact-rational burst credit) is an explicit TLA+ spec; TLC enumerates its behaviours (edge cover over all option sets, all sequences of length 5 in the thorough tier, random deep ones) and they are replayed on the real Queue with exact result/Len/contents comparison; concurrent histories recorded from the real Queue (2-4 goroutines, cancellations) are validated by TLC for linearizability against the same spec (QueueLinTrace).",
  TRUST + "Bounds: hard limit <= 4, sequences to depth 5 exhaustively / 40 randomly; histories of <= 4 goroutines x <= 6 ops.",
  "TLA+ sequential spec + TLC behaviour enumeration replayed on the code; TLC trace validation (linearizability) of recorded histories", "DESIGN.md 5 C05")
C["C06"] = ("model_checking",
  "Same construction as C05 for the Deque (DequeCore: both ends, Force pushes, closed semantics, hard/unlimited/quota trackers): TLC-enumerated behaviours replayed with exact comparison, recorded concurrent histories validated for linearizability by DequeLinTrace.",
  TRUST + "Bounds: capacity <= 3, sequences to depth 4 exhaustively / 40 randomly; at most one blocked waiter per condition variable in recorded runs (two waiters busy-loop in the pinned Deque, DESIGN.md 3.3).",
  "TLA+ sequential spec + TLC behaviour enumeration replayed on the code; TLC trace validation (linearizability) of recorded histories", "DESIGN.md 5 C06")
C["C07"] = ("model_checking",
  "Implementation-shaped TLA+ specs of the blocking paths (QueueImpl, DequeImpl: mutex, cond notify lists, helper goroutines, signal/broadcast sites) are model-checked exhaustively for NoStuck-at-quiescence, NoLeak and the liveness property Settles; abstract stepped specs (QueueStep, DequeStep) generate driver schedules (incl. cancellation inside the check-to-park window via a yield point) that are executed on the real containers with observation at quiescence, and TLC validates each recorded history with the rule that no enabled operation may remain blocked at a quiescent point.",
  TRUST + "Bounds: 2 consumers + 2 producers (Queue), 1 waiter per cond (Deque), capacity <= 2 in the exhaustive models; schedules to depth 16.",
  "TLA+ Impl spec + exhaustive TLC; spec-generated schedules executed at quiescence granularity; TLC trace validation with quiescence obligations", "DESIGN.md 5 C07")
C["C14"] = ("model_checking",
  "TLC explores every interleaving of an implementation-shaped TLA+ spec of WaitGroup (mutex, cond notify list, helper goroutines) for 2-3 waiters and checks NoEarlyReturn, CounterIsSum, NoStuck-at-quiescence, NoLeak and the liveness property Settles; the abstract stepped spec's behaviours are replayed into the real WaitGroup with observation at quiescence (incl. the check-to-park window through a yield point), and concurrent histories recorded from the real code are validated by TLC against the abstract spec.",
  TRUST + "Bounds: 3 waiters, counter <= 3 in the exhaustive model; replay to depth 14.",
  "TLA+ spec + TLC model checking; model->code behaviour replay at quiescence; code->model trace validation", "DESIGN.md 5 C14")
C["C16"] = ("model_checking",
  "ListSeq/StackSeq are explicit TLA+ sequence models of dt.List/dt.Stack (every public operation incl. the documented rejections, handles = every element ever returned + roots + nil); TLC enumerates operation sequences (all sequences to depth 3-4, complete edge cover for 3 elements, sampled for 4, random deep) and each is replayed on the real containers with full-state comparison after every step (both walks, Slice, iterators, Len, In, Ok). ListImpl (pointer level) is model-checked to refine ListSeq.",
  TRUST + "Bounds: two lists, <= 4 live elements, depth <= 4 exhaustively.",
  "TLA+ sequence model + TLC enumeration of operation sequences replayed with full-state comparison; pointer-level Impl spec checked for refinement", "DESIGN.md 5 C16")
C["C17"] = ("model_checking",
  "Sort.tla states Sorted/Perm/Stable and IsSorted for strict weak orderings; TLC enumerates every input over a small domain (duplicates, negatives, zero) x comparator (lt, reversed, key-projected) with the expected IsSorted answer and the unique stable result; the real SortQuick/SortMerge/IsSorted/Heap are run on each and judged by element identity; sorted lists are then exercised further with ListSeq behaviours.",
  TRUST + "Bounds: sequences of length <= 5-6 over 4-5 values; this is bounded-exhaustive testing against an independent oracle (DESIGN.md 7).",
  "TLA+ ordering spec + TLC input enumeration replayed on the code", "DESIGN.md 5 C17")

WIP = "check not built yet (work in progress, see DESIGN.md section 9)"


def chk(pid):
    level, text, note, technique, ref = C[pid]
    return dict(property_id=pid, quick_cmd="python3 run/check.py %s --tier quick" % pid,
                thorough_cmd="python3 run/check.py %s --tier thorough" % pid, evidence_file="evidence/%s.json" % pid,
                replay_cmd_template="python3 run/check.py %s --replay {path}" % pid, engine="tlc+harness",
                level_claimed=dict(category=level, text=text, design_ref=ref), level_note=note, technique=technique)


hook_commits = ["84125cf"]
m = dict(version=1, setup_cmd="sh run/setup.sh",
         hooks=dict(guard="verif (Go build tag)",
                    enable="the harness is built with `go build -tags verif`; /repo is compiled through the replace directive in harness/go.mod, so the working tree is always what is checked",
                    baseline_off_cmd="cd /repo && go test -mod=mod -json -vet=off -count=1 -timeout 25m ./...",
                    source_commits=hook_commits, add_only=True),
         engines=[dict(name="tlc+harness", path="run/check.py", serves_properties=sorted(C),
                       kind_free_text="TLA+ specs under spec/, checked by TLC; Go conformance harness under harness/ replays TLC-generated behaviours into the real code and records histories that TLC validates")],
         checks=[chk(p) for p in sorted(C)],
         not_applicable=[dict(property_id=p["id"], reason=WIP) for p in props if p["id"] not in C],
         notes="See DESIGN.md. Exit 2 = infrastructure trouble, never a verdict. known_findings.jsonl lists recorded/fixed defects.")
json.dump(m, open(os.path.join(V, "MANIFEST.json"), "w"), indent=1)
print("MANIFEST: %d checks, %d not claimed" % (len(m["checks"]), len(m["not_applicable"])))
