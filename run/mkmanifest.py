#!/usr/bin/env python3
"""Regenerates MANIFEST.json from the table below (single source for the interface file)."""
import json, os
V = os.path.dirname(os.path.dirname(os.path.abspath(__file__)))
props = [json.loads(l) for l in open(os.path.join(V, "properties.jsonl"))]

TRUST = ("Trusted: TLC; the TLA+ modelling of Go primitives (DESIGN.md 3.1); the quiescence oracle (a goroutine snapshot "
         "with nothing runnable is a fixed point, DESIGN.md 3.3); the harness's mapping of API results to spec vocabulary. ")

C = {}
C["C05"] = ("model_checking",
  "The sequential meaning of the Queue (QueueCore + Tracker, incl. exact-rational burst credit) is an explicit TLA+ spec; TLC enumerates its behaviours (edge cover over all option sets, all sequences of length 5 in the thorough tier, random deep ones) and they are replayed on the real Queue with exact result/Len/contents comparison; concurrent histories recorded from the real Queue (2-4 goroutines, cancellations) are validated by TLC for linearizability against the same spec (QueueLinTrace).",
  TRUST + "Bounds: hard limit <= 4, sequences to depth 5 exhaustively / 40 randomly; histories of <= 4 goroutines x <= 6 ops.",
  "TLA+ sequential spec + TLC behaviour enumeration replayed on the code; TLC trace validation (linearizability) of recorded histories", "DESIGN.md 5 C05")
C["C06"] = ("model_checking",
  "Same construction as C05 for the Deque (DequeCore: both ends, Force pushes, closed semantics, hard/unlimited/quota trackers): TLC-enumerated behaviours replayed with exact comparison, recorded concurrent histories validated for linearizability by DequeLinTrace.",
  TRUST + "Bounds: capacity <= 3, sequences to depth 4 exhaustively / 40 randomly; at most one blocked waiter per condition variable in recorded runs (two waiters busy-loop in the pinned Deque, DESIGN.md 3.3).",
  "TLA+ sequential spec + TLC behaviour enumeration replayed on the code; TLC trace validation (linearizability) of recorded histories", "DESIGN.md 5 C06")
C["C07"] = ("model_checking",
  "Implementation-shaped TLA+ specs of the blocking paths (QueueImpl, DequeImpl: mutex, cond notify lists, helper goroutines, signal/broadcast sites) are model-checked exhaustively for NoStuck-at-quiescence, NoLeak and the liveness property Settles; abstract stepped specs (QueueStep, DequeStep) generate driver schedules (incl. cancellation inside the check-to-park window via a yield point) that are executed on the real containers with observation at quiescence, and TLC validates each recorded history with the rule that no enabled operation may remain blocked at a quiescent point.",
  TRUST + "Bounds: 2 consumers + 2 producers (Queue), 1 waiter per cond (Deque), capacity <= 2 in the exhaustive models; schedules to depth 16.",
  "TLA+ Impl spec + exhaustive TLC; spec-generated schedules executed at quiescence granularity; TLC trace validation with quiescence obligations", "DESIGN.md 5 C07")
C["C14"] = ("model_checking",
  "TLC explores every interleaving of an implementation-shaped TLA+ spec of WaitGroup (mutex, cond notify list, helper goroutines) for 2-3 waiters and checks NoEarlyReturn, CounterIsSum, NoStuck-at-quiescence, NoLeak and the liveness property Settles; the abstract stepped spec's behaviours are replayed into the real WaitGroup with observation at quiescence (incl. the check-to-park window through a yield point), and concurrent histories recorded from the real code are validated by TLC against the abstract spec.",
  TRUST + "Bounds: 3 waiters, counter <= 3 in the exhaustive model; replay to depth 14.",
  "TLA+ spec + TLC model checking; model->code behaviour replay at quiescence; code->model trace validation", "DESIGN.md 5 C14")
C["C16"] = ("model_checking",
  "ListSeq/StackSeq are explicit TLA+ sequence models of dt.List/dt.Stack (every public operation incl. the documented rejections, handles = every element ever returned + roots + nil); TLC enumerates operation sequences (all sequences to depth 3-4, complete edge cover for 3 elements, sampled for 4, random deep) and each is replayed on the real containers with full-state comparison after every step (both walks, Slice, iterators, Len, In, Ok). ListImpl (pointer level) is model-checked to refine ListSeq.",
  TRUST + "Bounds: two lists, <= 4 live elements, depth <= 4 exhaustively.",
  "TLA+ sequence model + TLC enumeration of operation sequences replayed with full-state comparison; pointer-level Impl spec checked for refinement", "DESIGN.md 5 C16")
C["C17"] = ("model_checking",
  "Sort.tla states Sorted/Perm/Stable and IsSorted for strict weak orderings; TLC enumerates every input over a small domain (duplicates, negatives, zero) x comparator (lt, reversed, key-projected) with the expected IsSorted answer and the unique stable result; the real SortQuick/SortMerge/IsSorted/Heap are run on each and judged by element identity; sorted lists are then exercised further with ListSeq behaviours.",
  TRUST + "Bounds: sequences of length <= 5-6 over 4-5 values; this is bounded-exhaustive testing against an independent oracle (DESIGN.md 7).",
  "TLA+ ordering spec + TLC input enumeration replayed on the code", "DESIGN.md 5 C17")

C["C01"] = ("model_checking",
  "Implementation-shaped TLA+ specs of the fan-out/fan-in constructs (pipeline/Workers: Map, ProcessParallel, ParallelBuffer; Split; Merge; Generate; Buffer - reader goroutine, k workers, pipe/output channels with rendezvous, WaitGroup, closer goroutine, lazy once-setup) are model-checked exhaustively for Conservation (src + channels + held + delivered = input as bags in every state), CloseAfterDrain, SetupOnce, EofComplete, NoStall, order for one worker / Buffer, and termination under fairness; PipelineCtl (the controllable projection: release callback i / consumer read on output j / run to quiescence) generates driver schedules whose allowed observations TLC computes, and they are executed on the real constructs (10 kinds incl. itertool.ParallelForEach/Worker, MergeIterators, GenerateParallel, concurrent ReadOne) with gated callbacks and comparison at every quiescent point (exactly-once per item, output bag = f(input bag), order where demanded).",
  TRUST + "Bounds: n <= 3 items, k <= 2 workers exhaustively in the Impl models and in the schedule enumeration; random schedules n <= 8, k <= 4, free-running n <= 24, k <= 6.",
  "TLA+ Impl specs + exhaustive TLC (conservation invariants, liveness); spec-generated controllable schedules replayed on the code with observation at quiescence", "DESIGN.md 5 C01")
C["C02"] = ("model_checking",
  "IterAlgebra.tla is the functional specification (filter/map/concat/identity/fold/dedupe-first/enumerate/flatten with truncation at the first non-skip user error); IterOp.tla is the operational machine of the stateful nodes (ReadOne loop, Producer.Join stages, Transform retry loop, readOrFail, close hooks) written after the Go code, and TLC checks Operational = Denotational, Terminal and Reported on every enumerated operator tree; TLC enumerates the trees (all sources x all inputs over {0,1,2} of length <= 3 x fault positions, every unary variant, join/chain, depth-2 compositions, random deeper ones) with the accepted outputs, and each is built from the real constructors and drained five ways with element-wise comparison, terminality after the first error and Close() error-set checks; the harness also confirms that IterOp still reproduces the code's output term by term.",
  TRUST + "Bounds: depth <= 2 exhaustively over small universes, random postfix constructions to 10-14 steps; one fault per user function. Four known findings (failure hidden behind channels / eager conversions; UnmarshalJSON over close-hook-only iterators) are reported as KNOWN-FINDING.",
  "TLA+ functional spec + operational spec checked equal by TLC; TLC term enumeration replayed on the code", "DESIGN.md 5 C02")
C["C04"] = ("model_checking",
  "The C01 Impl specs plus FirstAdvance.tla (Close racing the first advance) are model-checked with the consumer actions Read / Close / Cancel / Close-then-cancel / CloseOutput(j): at every state where nothing internal is enabled after the consumer stopped all library goroutines are done, a blocked consumer is released, Close is idempotent and non-blocking, finite input reaches EOF under fairness; PipelineCtl generates stop schedules (every cut point x every stop mode x 16 constructs incl. Chain, MergeSlices, BufferedChannel, dt.Map / adt.Map iterators) that are executed on the real code, and at each quiescent point the goroutine census (goroutines with a tychoish/fun frame minus baseline), the return of Close / blocked ReadOne and of Run are judged; unsynchronised stop-versus-advance repetitions sample the first-advance race.",
  TRUST + "Bounds: n <= 2-3, k <= 2 exhaustively; random n <= 8, k <= 4; the leak obligation follows the premises fixed in DESIGN.md 5.0.",
  "TLA+ Impl specs + exhaustive TLC (quiescence invariants, liveness); spec-generated stop schedules executed on the code, goroutine census at quiescence", "DESIGN.md 5 C04")
C["C10"] = ("model_checking",
  "ServiceImpl.tla models srv.Service step by step (atomics isRunning/isFinished/isStarted, the start Once, cancel, WaitGroup, collector, the three signal channels, N Start / Close / Wait callers and the three service goroutines with their deferred chains) and TLC checks it exhaustively against the property automaton ServiceAbs (RunAtMostOnce, ExactlyOneStartNil, Shutdown/Cleanup/ErrorHandler once and in order, Wait blocks and aggregates, Running false after Wait); ServiceAbs generates driver schedules over the fault matrix {absent,ok,error,panic}^3 x handler x ending mode and over the three race windows (placed in the real code through the yield points srv.Service.Start.checked / Start.launched / run.finished), replayed with harness-supplied gated callbacks and observation at quiescence; every replay log and un-stepped concurrent histories are validated by TLC (ServiceTrace).",
  TRUST + "Bounds: <= 3 Start, 2 Close, 2 Wait callers in the exhaustive model; quick tier samples the edge cover, thorough replays all of it.",
  "TLA+ Impl spec checked against abstract spec by TLC; spec-generated schedules with yield points replayed on the code; TLC trace validation", "DESIGN.md 5 C10")
C["C11"] = ("model_checking",
  "OrchImpl / CleanupImpl (implementation-shaped) are model-checked against OrchAbs / CleanupAbs; OrchAbs, GroupAbs, PoolAbs (WorkerPool / HandlerWorkerPool) and CleanupAbs generate driver schedules (add before start / while running / racing shutdown / after cancel; outcomes ok / error / panic / blocks-until-cancel; gated members and jobs) whose allowed observations TLC computes; they are executed on the real srv package with harness-supplied services and jobs and judged at every quiescent point: started at most once, awaited, Wait only after all returned, errors.Is for every failure, accepted jobs run exactly once, a failing cleanup never prevents the others.",
  TRUST + "Bounds: <= 4 services / jobs, pool size <= 3; quick tier samples the edge cover, thorough replays all of it plus deeper random schedules.",
  "TLA+ abstract + Impl specs checked by TLC; spec-generated schedules replayed on the code with observation at quiescence", "DESIGN.md 5 C11")
C["C12"] = ("model_checking",
  "ErrAlgebra.tla transcribes ers.Join / Stack.Push / Wrap / ParsePanic / Collector case by case and states an independent oracle (bag of supplied constituents, reachable leaves); TLC enumerates every construction term of the bounds and prints the expected observation vector (nil?, identity of the single plain case, errors.Is per leaf and per unrelated sentinel, errors.As per type, Unwind as bag and most-recent-first for direct arguments, Len), each term is built with the real functions and compared; CollectorStep generates sequential schedules and CollectorLinTrace validates recorded sequential and concurrent (2-4 goroutines) histories of erc.Collector (Add / Len / Resolve / Iterator) for linearizability against the sequential Collector spec.",
  TRUST + "Bounds: depth <= 2, arity <= 3 over 5 leaves + nil exhaustively, random constructions of 12-24 steps; this is bounded-exhaustive testing against an independent oracle for the pure part (DESIGN.md 7).",
  "TLA+ error algebra + TLC term enumeration replayed on the code; TLC trace validation (linearizability) of Collector histories", "DESIGN.md 5 C12")
C["C15"] = ("model_checking",
  "Once / Limit / OpLimit / Lock / Retry / Hooks / Launch are implementation-shaped TLA+ specs (sync.Once + cached result, limitExec's CAS fast path + mutex, Operation.Limit's CAS loop, the retry classification loops, hook composition incl. the context-expired short-circuit, goroutine + signal channel) model-checked for ExactlyOnce, NoReturnBeforeDone, AllSeeResult, Executions = min(n, calls), MutualExclusion, retry bounds, hook order, WaiterReturn => BackgroundDone; WrappersStep generates schedules (all Retry scripts, all hook scenarios, edge cover for the concurrent wrappers over every constructor kind) executed on the real wrappers with harness-owned gated functions and observation at quiescence; un-stepped concurrent histories are validated by TLC (WrappersTrace).",
  TRUST + "Bounds: 3-4 callers, n <= 3, result scripts of length <= 4 over {ok, err, skip, eof, ctx, panic}; Operation.Limit is judged for the count only (DESIGN.md 5.0).",
  "TLA+ Impl specs + exhaustive TLC; spec-generated schedules replayed on the code at quiescence; TLC trace validation", "DESIGN.md 5 C15")
C["C18"] = ("model_checking",
  "SetSpec.tla is the reference set (members, insertion order when ordered, how it became ordered, synchronized flag, two sets for Equal / Extend); TLC enumerates call sequences (all of length 3, edge cover of the abstract graph, random walks of 30 calls) and each is replayed on real dt.Set values with full-state comparison after every call (return value, Len, Check for every value, iterator bag / sequence, Equal both ways, JSON form and round trip); concurrent histories of a synchronized set are validated by TLC for linearizability (SetLinTrace).",
  TRUST + "Bounds: values {1,2,3}, two sets, depth 3 exhaustively; histories of 3 goroutines.",
  "TLA+ sequential spec + TLC enumeration of call sequences replayed with full-state comparison; TLC trace validation (linearizability)", "DESIGN.md 5 C18")
C["C19"] = ("model_checking",
  "Hdr.tla transcribes the bucket geometry with integer arithmetic (unit magnitude, sub-bucket count, bucket / sub-bucket index, counts index, lowest / highest equivalent value) with state = bag of recorded values + counts, and checks in-model that every in-range value has a valid index and that the quantile bound follows from the bucket width; TLC enumerates call sequences per shape (all multisets of boundary-directed values, all call pairs over Record / RecordN / Merge / Export-Import / Reset / windowed rotation, random walks) with the expected Total, order statistics, Min, Max; each is replayed on a real Histogram / WindowedHistogram and compared after every call; any recovered invariant panic is a violation.",
  TRUST + "Bounds: shapes (min, max, sigfigs) from the cfg files, <= 4-6 records exhaustively; float-based queries only at ranks whose computation is unambiguous (q = 100 r / total); Mean / StdDev not modelled (DESIGN.md 7).",
  "TLA+ integer model of the histogram + TLC enumeration of call sequences replayed on the code", "DESIGN.md 5 C19")

C["C20"] = ("model_checking",
  "QueueIter.tla / DequeIter.tla are implementation-shaped specs of the non-destructive iterators (the producer cursor over entries that keep their link after removal, back reset to the sentinel when emptied, the single critical section that checks and waits on nupdates with its helper goroutine; confProducer x direction x blocking with exact next/prev pointers and element.wait) checked exhaustively for list shape, NoPanic, YieldsAreAdded, InOrderNoSkip, NoStuckIter at quiescence, EOF after Close, NoLeak and liveness; BOOLEAN switches re-create the two repaired defects (unlocked window, Signal instead of Broadcast) as expected-violation self-tests.  IterStep (abstract: global add history, an iterator is a position) generates schedules - incl. hold steps at yield points and burst steps - executed on Queue.Producer / Iterator and every Deque iterator / producer variant through three APIs with observation at quiescence; concurrent histories (iterators + adder + remover + closer + canceller) are validated by TLC against IterAbs (IterTrace).",
  TRUST + "Bounds: <= 3 adds, <= 2 iterators + 1 BlockingAdd in the exhaustive models; one blocking Deque iterator per run; schedules to depth 12, random to 16. Reading: an iterator that overlapped a removal is only judged for no-panic, yields-were-added-and-behind-the-position, returns on Close / cancel (DESIGN.md 0.6).",
  "TLA+ Impl specs + exhaustive TLC; spec-generated schedules (hold / burst steps) executed at quiescence granularity; TLC trace validation of recorded histories", "DESIGN.md 5 C20")

C["C03"] = ("model_checking",
  "ErrContract.tla holds Classify (the transcription of CanContinueOnError and of the recover wrappers) and an independent Contract (what C03 demands per failure kind x option set, unconstrained cells left open); TLC checks Classify refines Contract over the 11 kinds x 2^4 options matrix and prints every cell, each replayed through the four real recover wrappers and CanContinueOnError.  WorkersFault.tla is the implementation-shaped spec of ProcessParallel / Map / GenerateParallel with failing user functions (error filter, ReadAll's EOF-to-nil mapping, cancel wiring, closer, collector) checked exhaustively for NothingSwallowed, NeverReported, NilIffNoFailure, exactly-once under Continue*, the abort bound (failing worker takes no further item; items started after the first failure returned <= workers) and termination; switches re-create the two repaired defects as expected-violation self-tests.  WgErrCtl generates controllable schedules (construct x options x collector x fault kinds / positions x who is held where) executed on the five real constructs with gated callbacks; the abort bound is judged without time (hold every other callback when the first failure returns, release one at a time to quiescence, count new starts); every replay log and free-running histories are validated by TLC (WgErrTrace).",
  TRUST + "Bounds: n <= 3-4 items, k <= 2-3 workers, <= 1-2 failures in the exhaustive models; schedules n <= 8, k <= 3. Readings of DESIGN.md 5.0 (unclassified outcomes unconstrained; 'reported' = errors.Is on the result / Close()).",
  "TLA+ contract table + Impl spec with faults checked by TLC; spec-generated fault schedules replayed on the code at quiescence; TLC trace validation", "DESIGN.md 5 C03")

WIP = "check not built yet (work in progress, see DESIGN.md section 9)"


def chk(pid):
    level, text, note, technique, ref = C[pid]
    return dict(property_id=pid, quick_cmd="python3 run/check.py %s --tier quick" % pid,
                thorough_cmd="python3 run/check.py %s --tier thorough" % pid, evidence_file="evidence/%s.json" % pid,
                replay_cmd_template="python3 run/check.py %s --replay {path}" % pid, engine="tlc+harness",
                level_claimed=dict(category=level, text=text, design_ref=ref), level_note=note, technique=technique)


hook_commits = ["84125cf"]
m = dict(version=1, setup_cmd="sh run/setup.sh",
         hooks=dict(guard="verif (Go build tag)",
                    enable="the harness is built with `go build -tags verif`; /repo is compiled through the replace directive in harness/go.mod, so the working tree is always what is checked",
                    baseline_off_cmd="cd /repo && go test -mod=mod -json -vet=off -count=1 -timeout 25m ./...",
                    source_commits=hook_commits, add_only=True),
         engines=[dict(name="tlc+harness", path="run/check.py", serves_properties=sorted(C),
                       kind_free_text="TLA+ specs under spec/, checked by TLC; Go conformance harness under harness/ replays TLC-generated behaviours into the real code and records histories that TLC validates")],
         checks=[chk(p) for p in sorted(C)],
         not_applicable=[dict(property_id=p["id"], reason=WIP) for p in props if p["id"] not in C],
         notes="See DESIGN.md. Exit 2 = infrastructure trouble, never a verdict. known_findings.jsonl lists recorded/fixed defects.")
json.dump(m, open(os.path.join(V, "MANIFEST.json"), "w"), indent=1)
print("MANIFEST: %d checks, %d not claimed" % (len(m["checks"]), len(m["not_applicable"])))
