"""Helpers of props/x02.py (package adt: Atomic, Synchronized, Once, Map, Pool).

Kept here (own prefix) because run/vlib is shared: cfg generation for spec/adt/AdtSeq.tla, a parallel TLC runner,
a replay driver that understands the crash reports of `vh-adt replay`, and trace validation that classifies a
rejected history by the divergence (AsIs switch of AdtLinTrace) that explains it."""
import concurrent.futures as cf
import json
import re

from vlib import harness, tlc, trace

COMP = "adt"

# ---------------------------------------------------------------------------------------------- AdtSeq configs
OPS = {
    "atomic": ["get", "load", "set", "store", "swap", "cas", "safeset", "reset"],
    "sync": ["get", "load", "with", "string", "using", "set", "store", "swap", "cas", "safeset", "reset", "accget", "accset"],
    "once": ["do", "resolve", "set", "called", "defined", "mnemo"],
    "map": ["store", "setpair", "delete", "load", "check", "ensurestore", "ensureset", "swap", "ensuredefault", "get", "ensure",
            "len", "range", "keys", "values", "iterator", "marshal", "rangestop", "unmarshal", "config", "gc"],
    "pool": ["setctor", "sethook", "finalize", "get", "make", "put", "drop", "gc"],
    "vpool": ["get", "make", "put", "drop", "gc"],
}
# all-sequences configs: aliases (Load = Get, Store = Set, Set(pair) = Store ...) and the reads that the projection
# repeats after every step anyway are left to the edge and random configs
OPS_ALL = dict(OPS)
OPS_ALL["atomic"] = ["get", "set", "swap", "cas", "safeset", "reset"]
OPS_ALL["sync"] = ["get", "with", "set", "swap", "cas", "safeset", "reset", "accget", "accset"]
OPS_ALL["map"] = ["store", "delete", "load", "ensurestore", "swap", "ensuredefault", "get", "ensure", "range", "config", "gc"]
OPS_ALL["once"] = ["do", "resolve", "set", "called", "mnemo"]

# divergence switch -> (components whose behaviours it changes, violation keys it produces)
SWITCHES = {
    "cas-unset": (["atomic"], ["adt/Atomic.CompareAndSwap/ret", "adt/Atomic.Reset/ret", "adt/Atomic/concurrent/cas-zero-on-unset"]),
    "mapget-put": (["map"], ["adt/Map.Get/events"]),
    "ensure-nil": (["map"], ["adt/Map.Ensure/process-crash"]),
    "make-value": (["vpool"], ["adt/ValuePool.Get/handout-not-allowed", "adt/ValuePool.Make/handout-not-allowed",
                               "adt/BytesBufferPool.Get/handout-not-allowed"]),
    "buf-nil": (["vpool"], ["adt/BufferPool.Get/below-min-capacity"]),
    "once-set-race": ([], ["adt/Once/concurrent/do-ran-function-of-set"]),
}
LIN_SWITCH_KEY = {"cas-unset": "adt/Atomic/concurrent/cas-zero-on-unset",
                  "once-set-race": "adt/Once/concurrent/do-ran-function-of-set"}


def tla_set(items):
    return "{" + ", ".join('"%s"' % x if isinstance(x, str) else str(x) for x in items) + "}"


def seq_cfg(comp, mode, *, depth, ops=None, keys=("a", "b"), vals=(1, 2), maxcons=2, asis=(), prefer=("pool",),
            vkinds=("slice", "bytesbuf", "bufpool"), bound=False):
    """Text of a TLC config for AdtSeq: mode all (every sequence of `depth` calls), edge (one shortest behaviour per edge
    of the state graph without hist), sim (-simulate walks of `depth` calls)."""
    lines = ["SPECIFICATION " + ("SimSpec" if mode == "sim" else "Spec"), "CONSTANTS",
             '  Comp = "%s"' % comp, "  Ops = " + tla_set(ops or (OPS_ALL if mode == "all" else OPS)[comp]),
             "  V = " + tla_set(vals), "  K = " + tla_set(keys), "  Depth = %d" % depth, "  MaxCons = %d" % maxcons,
             "  VKinds = " + tla_set(vkinds), "  AsIs = " + tla_set(sorted(asis)), "  Prefer = " + tla_set(sorted(prefer)),
             "INVARIANT Inv", "PROPERTY ActionProps"]
    if mode == "all":
        lines.append("CONSTRAINT EmitAll")
    if mode == "edge":
        if bound:
            lines.append("CONSTRAINT Bound")
        lines += ["VIEW view", "ACTION_CONSTRAINT EmitEdge"]
    lines.append("CHECK_DEADLOCK FALSE")
    return "\n".join(lines) + "\n"


def lin_cfg(asis=()):
    return ("SPECIFICATION Spec\nCONSTANTS\n  Keys = {\"a\", \"b\", \"c\"}\n  AsIs = %s\n"
            "CONSTRAINT HighWater\nPOSTCONDITION Accepted\nCHECK_DEADLOCK FALSE\n" % tla_set(sorted(asis)))


def run_tlc_parallel(jobs, max_parallel=8):
    """jobs: list of (name, module, cfg name, kwargs for run_tlc) -> {name: result}."""
    out = {}
    with cf.ThreadPoolExecutor(max_workers=max(1, min(max_parallel, len(jobs)))) as ex:
        futs = {name: ex.submit(tlc.run_tlc, COMP, module, cfg, **kw) for name, module, cfg, kw in jobs}
        for name, f in futs.items():
            out[name] = f.result()
    return out


# ---------------------------------------------------------------------------------------------- replay
OPNAMES = {"ensure": "Ensure", "make": "Make", "get": "Get"}
COMPNAMES = {"map": "Map", "pool": "Pool", "vpool": "ValuePool", "atomic": "Atomic", "sync": "Synchronized", "once": "Once"}


def crash_key(o):
    return "adt/%s.%s/process-crash" % (COMPNAMES.get(o.get("comp"), str(o.get("comp"))), OPNAMES.get(o.get("op"), str(o.get("op"))))


def replay(rep, binary, behaviours, *, shards=4, timeout=900, label="adt", nontrivial=lambda b: True, cap=2):
    """Feed behaviours to `vh-adt replay`; the supervisor reports a behaviour that ended its worker process as
    {"crashed": true, "risk": step, "op": .., "stderr": ..}.  Failures are grouped by key; per key the `cap` shortest
    ones are re-run alone and reported if they fail again (everything else is counted).  Returns per-key counts."""
    if not behaviours:
        rep.infra_error("%s: no behaviours to replay" % label)
        return {}
    items = [dict(n=i, beh=b) for i, b in enumerate(behaviours)]
    outs, meta = harness.run_sharded(binary, ["replay"], items, shards=shards, timeout=timeout)
    results = {}
    for o in outs:
        if "n" in o and "ok" in o:
            results[o["n"]] = o
    for rc, err in meta:
        if rc != 0:
            rep.infra_error("%s: a replay process ended with rc=%s: %s" % (label, rc, (err or "")[-400:]))
    by_key = {}
    for i, o in results.items():
        if not o.get("ok"):
            key = crash_key(o) if o.get("crashed") else o.get("key", label + "/mismatch")
            by_key.setdefault(key, []).append(o)
    counts = {}
    for key, group in sorted(by_key.items()):
        counts[key] = len(group)
        group.sort(key=lambda o: (len(items[o["n"]]["beh"]), o["n"]))
        reproduced = 0
        for o in group[:cap]:
            i = o["n"]
            rc, again, err = harness.run(binary, ["replay"], [items[i]], timeout=300)
            res = [x for x in again if x.get("n") == i and "ok" in x]
            if not res or res[0].get("ok"):
                rep.infra_error("%s: failure on behaviour %d (%s) did not reproduce in isolation" % (label, i, key))
                continue
            r = res[0]
            if r.get("crashed"):
                tail = r.get("stderr", "")
                if crash_key(r) != key or "github.com/tychoish/fun" not in tail or not ("fatal error:" in tail or "panic:" in tail):
                    rep.infra_error("%s: behaviour %d kills the worker without a library frame: %s" % (label, i, tail[-600:]))
                    continue
                head = next((ln for ln in tail.splitlines() if ln.startswith("fatal error:") or ln.startswith("panic:")), "")
                what = "the process died in step %s (%s) of this behaviour: %s" % (r.get("risk"), r.get("op"), head)
            else:
                if r.get("key") != key:
                    rep.infra_error("%s: behaviour %d failed with %s, alone with %s" % (label, i, key, r.get("key")))
                    continue
                what = r.get("what", "")
            reproduced += 1
            rep.violation(key, what, dict(behaviour=items[i], result={k: v for k, v in r.items() if k != "stderr"},
                                          stderr=r.get("stderr", "")[-2500:], binary="vh-adt", args=["replay"]))
        if len(group) > cap and reproduced:
            d = rep.cov.setdefault("further_failures_same_key", {})
            d[key] = d.get(key, 0) + len(group) - cap
    done = [items[i]["beh"] for i in results if results[i].get("ok")]
    rep.add_cases(done, nontrivial=nontrivial)
    trunc = sum(1 for r in results.values() if r.get("truncated"))
    rep.cov["replayed_as_prefix_only"] = rep.cov.get("replayed_as_prefix_only", 0) + trunc
    missing = [i for i in range(len(items)) if i not in results]
    if missing:
        rep.infra_error("%s: %d behaviours produced no result" % (label, len(missing)))
    return counts


# ---------------------------------------------------------------------------------------------- trace validation
def validate(histories, asis=(), timeout=900):
    return trace.validate(COMP, "AdtLinTrace", "lin.cfg", histories, timeout, extra_files={"lin.cfg": lin_cfg(asis)})


def kind_of(hist):
    for e in hist:
        if e.get("ev") == "config":
            return e.get("kind", "?")
    return "?"


def generic_key(hist, info):
    ev = (info or {}).get("event", {})
    kind = dict(map="Map", atomic="Atomic", sync="Synchronized", once="Once").get(kind_of(hist), "?")
    what = {"ret": "unexplainable-return", "visit": "range-visit", "fn": "function-execution", "final": "final-state"}.get(
        ev.get("ev"), "history-rejected")
    return "adt/%s/concurrent/%s" % (kind, what)


def validate_all(rep, histories, *, asis=(), label, shards=4, timeout=900, cap=3):
    """Validate histories in `shards` single-worker TLC runs.  A rejected history is validated again alone; if one
    of the divergence switches that is not already on explains it (accepted with that switch), the violation gets
    that divergence's key, otherwise a key naming the kind of object and of the unexplained event."""
    if not histories:
        rep.infra_error(label + ": no histories recorded")
        return {}
    shards = max(1, min(shards, len(histories)))
    parts = [histories[i::shards] for i in range(shards)]
    with cf.ThreadPoolExecutor(max_workers=shards) as ex:
        results = list(ex.map(lambda p: validate(p, asis, timeout), parts))
    work = list(zip(parts, results))
    counts, reported = {}, {}
    while work:
        part, (acc, r, info) = work.pop(0)
        rep.add_tlc("AdtLinTrace/%s" % label, r, "trace validation of %d histories, AsIs=%s" % (len(part), sorted(asis)))
        if acc is None:
            rep.infra_error("%s: trace validation did not complete: %s" % (label, str(info)[:600]))
            continue
        if acc:
            rep.add_cases(part, nontrivial=lambda h: len(h) > 6)
            continue
        hi, _ = trace.locate(part, info["at"])
        bad = part[hi]
        rep.add_cases(part[:hi], nontrivial=lambda h: len(h) > 6)
        acc2, r2, info2 = validate([bad], asis, timeout)
        if acc2 is not False:
            rep.infra_error("%s: rejection did not reproduce on the single history" % label)
        else:
            key = generic_key(bad, info2)
            for sw, k in LIN_SWITCH_KEY.items():
                if sw in asis:
                    continue
                acc3, _, _ = validate([bad], set(asis) | {sw}, timeout)
                if acc3 is True:
                    key = k
                    break
            counts[key] = counts.get(key, 0) + 1
            if reported.get(key, 0) < cap:
                reported[key] = reported.get(key, 0) + 1
                rep.violation(key, "history not explainable by AdtLinTrace (AsIs=%s): first unexplained event #%d %s" % (
                    sorted(asis), info2["at"] - 1, json.dumps(info2["event"])[:300]), dict(history=bad, rejected_at=info2, asis=sorted(asis)))
        rest = part[hi + 1:]
        if rest:
            if sum(counts.values()) >= 2 * cap:
                rep.cov["histories_not_validated_after_violations"] = rep.cov.get("histories_not_validated_after_violations", 0) + len(rest)
            else:
                work.append((rest, validate(rest, asis, timeout)))
    return counts
