"""X03 (extra check), second half: the context helpers of package srv (context.go) - SetShutdownSignal / GetShutdownSignal /
HasShutdownSignal, SetBaseContext / GetBaseContext / HasBaseContext, WithOrchestrator / SetOrchestrator / GetOrchestrator /
HasOrchestrator, WithCleanup / HasCleanup / AddCleanup / AddCleanupError.

The doc comments are the specification.  spec/srv/HelpersAbs.tla models a small world of context slots (a cancellable root and up
to 3-4 derived contexts, each recording its parent and what the helper attached) and emits driver schedules; with every step TLC
prints the complete table of allowed observations (result of the step, cancelled slots, Has*/Get* of every slot, Running() of
every orchestrator, cleanup-job counts, pending Waits).  `vh-srv replay-x03h` executes the steps against the real package and
compares at quiescence.  Where documentation and code differ (DIVERGENCES) the registered configurations accept both outcomes and
follow the code's; each divergence is additionally probed under the documented reading alone (the replayer must reject it - that
shows the divergence is real and is one of the binding's self-tests) and reported, never judged.

run_part(rep, quick, seed, binary) is called by props/x03.py."""
import copy, json, os
import concurrent.futures as cf
from vlib import tlc, harness
from props import srv_common as sc

COMP = "srv"
MODULE = "HelpersAbs"
ARGS = ["replay-x03h"]
DEMO = "fixes/demos/srv_ctx_helper_divergences"

DIVERGENCES = [
    dict(name="setshutdownsignal-second-call-is-not-a-noop", const="NoopSecondSignal", ops=["sigcall"],
         doc="SetShutdownSignal doc (srv/context.go:136-137): 'If a shutdown function is already set on this context, this operation is a noop.'",
         code="SetShutdownSignal (srv/context.go:138-142) always derives a new cancellable child and attaches ITS CancelFunc, which shadows the "
              "outer one: GetShutdownSignal(inner)() cancels only the inner context and its descendants; under the documented no-op it would "
              "cancel everything below the context the first SetShutdownSignal made",
         demo=DEMO),
    dict(name="setbasecontext-second-call-does-not-panic", const="PanicSecondBase", ops=["setbase"],
         doc="SetBaseContext doc (srv/context.go:173-174): 'If a base context is already set on this context, this operation panics with an "
             "invariant violation.'",
         code="SetBaseContext (srv/context.go:175-178) never looks for an existing value: the second call returns normally and its base context "
              "shadows the first for every descendant",
         demo=DEMO),
    dict(name="second-orchestrator-does-not-panic", const="PanicSecondOrch", ops=["withorch", "setorch"],
         doc="WithOrchestrator doc (srv/context.go:52-53): 'If an Orchestrator is already set on the context, this operation panics with an "
             "invariant violation.'; SetOrchestrator doc (srv/context.go:60-61): 'if one is already set this is a panic with an invariant violation.'",
         code="SetOrchestrator (srv/context.go:62-69) never looks for an existing orchestrator: a second orchestrator is created / started / "
              "attached and shadows the first for every descendant; both services run",
         demo=DEMO),
]

RULE = ("helpers: behaviours = driver schedules of HelpersAbs over a cancellable root and up to 3 (edge cover) / 4 (random schedules) derived "
        "contexts - SetShutdownSignal, GetShutdownSignal()(), SetBaseContext, WithOrchestrator, SetOrchestrator (with an orchestrator made "
        "earlier: running or finished), WithCleanup, AddCleanup / AddCleanupError (job outcomes ok, error, panic, error value) from any slot, "
        "cancel of the root, Wait on an orchestrator's service - an edge cover of the abstract state graph (quick: 2 derived slots, 1 job; "
        "thorough: 3 slots, 2 jobs, seeded sample of the maximal schedules) plus random deeper schedules; after every step, at quiescence: "
        "the step's outcome (ok / panic rooted in ErrInvariantViolation), ctx.Err() of every slot, all four Has* and GetBaseContext / "
        "GetOrchestrator (identity of what is returned, or panic) on every slot, Running() of every orchestrator, job invocation counts, "
        "pending Waits (blocked / aggregate with must and forbid sets), all compared with the table TLC printed; non-trivial = at least one "
        "helper attached something and a cancellation or Wait followed")


def nontrivial(b):
    ops = [s["op"] for s in b["steps"]]
    return any(o in ops for o in ("setsig", "setbase", "withorch", "withcleanup", "setorch")) and any(
        o in ops for o in ("cancel", "sigcall", "owait"))


def _dedupe(behs):
    seen, out = set(), []
    for b in behs:
        k = json.dumps(b, sort_keys=True)
        if k not in seen:
            seen.add(k)
            out.append(b)
    return out


def generate(rep, quick, seed):
    edge_cfg = "Helpers_edge_q.cfg" if quick else "Helpers_edge.cfg"
    jobs = [
        (edge_cfg, "context helpers: edge cover of the abstract state graph (one shortest schedule per edge)",
         dict(workers=1 if quick else 2, timeout=1500)),
        ("Helpers_sim.cfg", "context helpers: random deeper schedules, 4 derived slots, 3 orchestrators, 3 jobs x {ok,error,panic,error value}",
         dict(workers=1, timeout=1500, simulate=dict(num=40 if quick else 600), depth=20, seed=seed)),
    ]
    with cf.ThreadPoolExecutor(max_workers=2) as ex:
        futs = [ex.submit(tlc.run_tlc, COMP, MODULE, cfg, **kw) for cfg, _, kw in jobs]
        results = [f.result() for f in futs]
    out = {}
    for (cfg, note, kw), r in zip(jobs, results):
        rep.add_tlc("%s/%s" % (MODULE, cfg), r, note)
        if not r.ok:
            rep.infra_error("behaviour generation %s/%s failed: %s" % (MODULE, cfg, r.out[-1500:]))
            return None
        out["sim" if "simulate" in kw else "edge"] = r.tagged.get("BEH", [])
    edge = sc.maximal(out["edge"])
    cap = 1800 if quick else 12000
    sim = _dedupe(out["sim"])
    rep.cov.setdefault("edge_behaviours", {})[MODULE] = dict(maximal=len(edge), replayed=min(len(edge), cap), random=len(sim))
    return sc.sample(edge, cap, seed) + sim


def _run_one(binary, beh, timeout=60):
    rc, outs, err = harness.run(binary, ARGS, [dict(n=0, beh=beh)], timeout=timeout)
    res = [o for o in outs if o.get("n") == 0 and "begin" not in o]
    return res[0] if res else None


def _brief(r):
    return str({k: v for k, v in (r or {}).items() if k != "hist"})[:240]


def _cut(b, k):
    bad = copy.deepcopy(b)
    bad["steps"] = bad["steps"][:k + 1]
    return bad


def self_tests(rep, binary, behs):
    """A deliberately wrong expectation must be rejected by the replayer (three kinds of observation)."""
    # 1. cancellation scope of GetShutdownSignal()()
    pick = None
    for b in behs:
        for k, s in enumerate(b["steps"]):
            prev = b["steps"][k - 1]["exp"]["branch"]["canc"] if k else []
            if s["op"] == "sigcall" and s["exp"]["branch"]["res"] == "ok" and len(s["exp"]["branch"]["canc"]) > len(prev):
                pick = (b, k, prev)
                break
        if pick:
            break
    name = "helpers: replayer rejects a wrong cancellation scope for GetShutdownSignal()()"
    if not pick:
        rep.self_test(name, False, "no behaviour with an effective sigcall")
    else:
        bad = _cut(pick[0], pick[1])
        wrong = dict(res="ok", canc=list(pick[2]))
        bad["steps"][-1]["exp"]["alts"] = [wrong]
        bad["steps"][-1]["exp"]["branch"] = wrong
        r = _run_one(binary, bad)
        rep.self_test(name, bool(r) and not r.get("ok") and r.get("key", "").endswith("cancellation-scope"), _brief(r))
    # 2. a Has* probe
    pick = next(((b, k) for b in behs for k, s in enumerate(b["steps"]) if s["op"] == "withcleanup" and s["exp"]["branch"]["res"] == "ok"), None)
    name = "helpers: replayer rejects a wrong HasCleanup expectation"
    if not pick:
        rep.self_test(name, False, "no behaviour with WithCleanup")
    else:
        bad = _cut(*pick)
        for h in bad["steps"][-1]["exp"]["has"]:
            if h["c"] == bad["steps"][-1]["id"]:
                h["cl"] = "false"
        r = _run_one(binary, bad)
        rep.self_test(name, bool(r) and not r.get("ok") and "HasCleanup" in r.get("key", ""), _brief(r))
    # 3. a Wait that is blocked but expected to have returned; and a returned Wait with a wrong must set
    pick = next(((b, k) for b in behs for k, s in enumerate(b["steps"]) if s["op"] == "owait"
                 and any(a["k"] == "blocked" for o in s["exp"]["ops"] if o["id"] == s["id"] for a in o["allow"])), None)
    name = "helpers: replayer rejects a Wait expected to have returned while the orchestrator's context is live"
    if not pick:
        rep.self_test(name, False, "no behaviour with a blocked Wait")
    else:
        bad = _cut(*pick)
        for o in bad["steps"][-1]["exp"]["ops"]:
            o["allow"] = [dict(k="agg", must=[], forbid=[], nil="any", pan="any")]
        r = _run_one(binary, bad)
        rep.self_test(name, bool(r) and not r.get("ok") and "Service.Wait" in r.get("key", ""), _brief(r))
    pick = next(((b, k, o["id"]) for b in behs for k, s in enumerate(b["steps"]) for o in s["exp"]["ops"]
                 for a in o["allow"] if a["k"] == "agg" and a["must"]), None)
    name = "helpers: replayer rejects a Wait result that must report a failure no job produced"
    if not pick:
        rep.self_test(name, False, "no behaviour whose Wait reports a cleanup failure")
    else:
        bad = _cut(pick[0], pick[1])
        for o in bad["steps"][-1]["exp"]["ops"]:
            if o["id"] == pick[2]:
                for a in o["allow"]:
                    a["must"] = list(a["must"]) + ["e:nosuchjob"]
        r = _run_one(binary, bad)
        rep.self_test(name, bool(r) and not r.get("ok") and r.get("key", "").endswith("reports-cleanup-errors"), _brief(r))


def divergence_probes(rep, binary, behs, results):
    """Every divergence the run exercised: the divergent step, judged under the documented reading alone, must be rejected by the
    replayer (the real code follows the other branch).  Reported, never judged."""
    out = []
    for d in DIVERGENCES:
        probes = []
        for i, b in enumerate(behs):
            r = results.get(i)
            if not r or not r.get("ok") or r.get("inconclusive"):
                continue
            for k, s in enumerate(b["steps"]):
                if s["op"] in d["ops"] and len(s["exp"]["alts"]) > 1 and k < r.get("steps", 0):
                    docalt = [a for a in s["exp"]["alts"] if a != s["exp"]["branch"]]
                    bad = _cut(b, k)
                    bad["steps"][-1]["exp"]["alts"] = docalt
                    bad["steps"][-1]["exp"]["branch"] = docalt[0]
                    probes.append(bad)
                    break
            if len(probes) >= 25:
                break
        exercised = sum(1 for i, b in enumerate(behs) if any(s["op"] in d["ops"] and len(s["exp"]["alts"]) > 1 for s in b["steps"]))
        trunc = sum(1 for i, b in enumerate(behs) if results.get(i, {}).get("truncated")
                    and b["steps"][results[i]["steps"] - 1]["op"] in d["ops"])
        rec = {k: v for k, v in d.items() if k != "ops"}
        rec.update(behaviours_exercising=exercised, behaviours_truncated_on_documented_branch=trunc,
                   behaviours_under_documented_reading=len(probes))
        if not probes:
            rec["status"] = "not exercised in this run"
            rep.self_test("helpers: divergence %s is exercised" % d["name"], False, "no behaviour reaches it")
            out.append(rec)
            continue
        rc, outs, err = harness.run(binary, ARGS, [dict(n=i, beh=b) for i, b in enumerate(probes)], timeout=300)
        res = {o["n"]: o for o in outs if "n" in o and "begin" not in o}
        dev = sum(1 for i in range(len(probes)) if i in res and not res[i].get("ok"))
        rec["real_code_deviates_in"] = dev
        rec["status"] = "code differs from documentation" if dev else "code follows the documentation"
        if dev:
            rec["example"] = dict(schedule=[[s["op"], s["id"], s["arg"], s["arg2"]] for s in probes[0]["steps"]],
                                  documented_outcome=probes[0]["steps"][-1]["exp"]["alts"],
                                  replayer_says=next((res[i].get("what") for i in sorted(res) if not res[i].get("ok")), ""))
        rep.self_test("helpers: replayer rejects the documented-only reading of %s where the code takes the other branch "
                      "(wrong expectation => rejected)" % d["const"],
                      len(res) == len(probes) and (dev == len(probes) or dev == 0), "%d of %d rejected" % (dev, len(probes)))
        out.append(rec)
    return out


def run_part(rep, quick, seed, binary):
    rep.assumptions += [
        "helpers (HelpersAbs): the doc comments of srv/context.go are the specification; context.WithCancel / WithValue semantics "
        "(cancellation reaches every descendant and never the parent; a lookup finds the nearest ancestor's value) are assumed of the "
        "standard library; orchestrators and cleanup services are created from live contexts only and WithCleanup only below a running "
        "orchestrator (Start under an ended context and Orchestrator.Add after the end are C11's); cleanup jobs are not gated (pool order / "
        "parallelism is CleanupAbs's); as observed where the docs are silent: SetOrchestrator with a finished orchestrator panics, "
        "Running() is false once the service returned, a second WithCleanup adds a second Cleanup service to the same orchestrator",
    ]
    behs = generate(rep, quick, seed)
    if behs is None:
        return []
    shards = int(os.environ.get("X03H_SHARDS", "3" if quick else "6"))
    env = {"GOMAXPROCS": str(2 + seed % 5)}
    _, results = sc.replay_collect(rep, binary, ARGS, behs, shards=shards, env_extra=env, label="srvhelpers",
                                   nontrivial=nontrivial, timeout=2400)
    ops = {}
    for b in behs:
        for s in b["steps"]:
            ops[s["op"]] = ops.get(s["op"], 0) + 1
    rep.cov["helpers"] = dict(behaviours=len(behs),
                              conforming=sum(1 for r in results.values() if r.get("ok") and not r.get("inconclusive")),
                              truncated_on_documented_branch=sum(1 for r in results.values() if r.get("truncated")),
                              steps_by_operation=ops,
                              steps_with_panic_outcome=sum(1 for b in behs for s in b["steps"] if s["exp"]["branch"]["res"] == "panic"))
    s = next((b for b in behs if len(b["steps"]) >= 6 and nontrivial(b) and any(x["op"] == "withcleanup" for x in b["steps"])), None)
    if s:
        rep.sample(dict(kind="replayed behaviour (context helpers; expectations abridged)",
                        behaviour=dict(cfg=s["cfg"], steps=[dict(op=x["op"], id=x["id"], arg=x["arg"], arg2=x["arg2"],
                                                                 alts=x["exp"]["alts"], cnt=x["exp"]["cnt"], ops=x["exp"]["ops"]) for x in s["steps"]])))
    self_tests(rep, binary, behs)
    div = divergence_probes(rep, binary, behs, results)
    rep.cov["helpers_rule"] = RULE
    return div
