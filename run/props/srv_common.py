"""Helpers shared by the C10 and C11 checks (srv package): behaviour post-processing and a replay
driver that also hands back the event histories the harness recorded while replaying."""
import json, random
from vlib import harness, tlc


def steps_of(b):
    return b["steps"]


def maximal(behs, steps=steps_of):
    """Edge-mode emission prints one behaviour per edge, most of which are prefixes of others.
    Replaying a behaviour checks every prefix of it, so only the maximal ones are kept."""
    keyed = {}
    for b in behs:
        head = json.dumps({k: v for k, v in b.items() if k != "steps"}, sort_keys=True)
        ks = tuple(json.dumps(s, sort_keys=True) for s in steps(b))
        keyed[(head, ks)] = b
    covered = set()
    for (head, ks) in keyed:
        for i in range(1, len(ks)):
            covered.add((head, ks[:i]))
    return [b for k, b in keyed.items() if k not in covered]


def sample(behs, n, seed):
    if len(behs) <= n:
        return list(behs)
    rnd = random.Random(seed)
    idx = sorted(rnd.sample(range(len(behs)), n))
    return [behs[i] for i in idx]


def gen(rep, comp, module, cfg, note, *, workers=4, timeout=900, **kw):
    """Run a behaviour-emitting TLC configuration; returns the behaviours or None on trouble."""
    r = tlc.run_tlc(comp, module, cfg, workers=workers, timeout=timeout, **kw)
    rep.add_tlc("%s/%s" % (module, cfg), r, note)
    if not r.ok:
        rep.infra_error("behaviour generation %s/%s failed: %s" % (module, cfg, r.out[-1500:]))
        return None
    return r.tagged.get("BEH", [])


def replay_collect(rep, binary, args, behaviours, *, shards=8, timeout=900, label="replay",
                   nontrivial=lambda b: True, env_extra=None, max_inconclusive=0.05):
    """Like vlib.replay.replay (shard, re-run every failing behaviour in isolation before it is
    reported, crashes, inconclusive accounting) but also returns {index: result} so that the
    caller can pass the recorded event histories on to trace validation."""
    if not behaviours:
        rep.infra_error("%s: no behaviours to replay" % label)
        return [], {}
    items = [dict(n=i, beh=b) for i, b in enumerate(behaviours)]
    outs, meta = harness.run_sharded(binary, args, items, shards=shards, timeout=timeout, env_extra=env_extra)
    results, begun = {}, set()
    for o in outs:
        if "begin" in o:
            begun.add(o["begin"])
        elif "n" in o:
            results[o["n"]] = o
    crashed = sorted(begun - set(results))
    never = [i for i in range(len(items)) if i not in begun]
    suspects = [results[i] for i in sorted(results) if not results[i].get("ok")]
    for i in crashed:
        rc, o, err = harness.run(binary, args, [items[i]], timeout=120, env_extra=env_extra)
        got = [x for x in o if x.get("n") == i]
        if got:
            results[i] = got[0]
            if not got[0].get("ok"):
                suspects.append(got[0])
            else:
                rep.cov["unreproduced_crashes"] = rep.cov.get("unreproduced_crashes", 0) + 1
        else:
            tail = err[-3000:]
            if "github.com/tychoish/fun" in tail and ("panic:" in tail or "fatal error:" in tail):
                rep.violation(label + "/process-crash", "the process died while replaying this behaviour: " + tail[-1500:],
                              dict(behaviour=items[i], stderr=tail, binary=binary.split("/")[-1], args=list(args)))
            else:
                rep.infra_error("%s: behaviour %d kills the harness without a library frame: %s" % (label, i, tail[-500:]))
    if never:
        outs2, _ = harness.run_sharded(binary, args, [items[i] for i in never], shards=shards,
                                       timeout=timeout, env_extra=env_extra)
        for o in outs2:
            if "n" in o and "begin" not in o:
                results[o["n"]] = o
                if not o.get("ok"):
                    suspects.append(o)
    failures, reported = [], {}
    for s in suspects:
        i = s["n"]
        key = s.get("key", label + "/mismatch")
        if reported.get(key, 0) >= 3:
            # enough isolated reproductions of this failure class; the rest is counted only
            rep.cov["unverified_repeats"] = rep.cov.get("unverified_repeats", 0) + 1
            continue
        rc, o, err = harness.run(binary, args, [items[i]], timeout=120, env_extra=env_extra)
        again = [x for x in o if x.get("n") == i and "begin" not in x]
        if again and not again[0].get("ok"):
            r = dict(again[0])
            r.pop("hist", None)
            failures.append(r)
            reported[key] = reported.get(key, 0) + 1
            rep.violation(r.get("key", label + "/mismatch"), r.get("what", ""),
                          dict(behaviour=items[i]["beh"], result=r, binary=binary.split("/")[-1], args=list(args)))
        else:
            rep.infra_error("%s: mismatch on behaviour %d did not reproduce in isolation: %s" % (
                label, i, json.dumps({k: v for k, v in s.items() if k != "hist"})[:400]))
    inconclusive = [r for r in results.values() if r.get("inconclusive")]
    done = [items[i]["beh"] for i in results if results[i].get("ok") and not results[i].get("inconclusive")]
    rep.add_cases(done, nontrivial=nontrivial)
    rep.cov["inconclusive"] = rep.cov.get("inconclusive", 0) + len(inconclusive)
    if len(inconclusive) > max_inconclusive * max(1, len(items)):
        rep.infra_error("%s: %d of %d behaviours inconclusive (e.g. %s)" % (
            label, len(inconclusive), len(items), inconclusive[0].get("inconclusive")))
    missing = [i for i in range(len(items)) if i not in results and i not in crashed]
    if missing:
        rep.infra_error("%s: %d behaviours produced no result" % (label, len(missing)))
    return failures, results


def rerun_saved(rep, path, build):
    """--replay <file>: re-execute one saved failing case (behaviour replays only)."""
    d = json.load(open(path))
    rp = d.get("replay", {})
    if "behaviour" not in rp:
        return False
    binary = build()
    rc, o, err = harness.run(binary, rp.get("args", []), [dict(n=0, beh=rp["behaviour"])], timeout=120)
    got = [x for x in o if x.get("n") == 0 and "begin" not in x]
    if not got:
        rep.infra_error("replay produced no result: " + err[-800:])
    elif not got[0].get("ok"):
        r = dict(got[0])
        r.pop("hist", None)
        rep.violation(r.get("key", d.get("key")), r.get("what", ""), dict(behaviour=rp["behaviour"], result=r,
                      binary=rp.get("binary"), args=rp.get("args", [])))
    else:
        rep.add_cases([rp["behaviour"]])
        rep.sample(dict(kind="saved replay no longer fails", result={k: v for k, v in got[0].items() if k != "hist"}))
    return True


def validate_batch(comp, module, cfg, histories, timeout=900):
    """One TLC run over concatenated histories whose trace spec skips to the next history after an
    unexplainable event (action Skip).  Returns (ok, result, rejected) with rejected = list of
    (history index, info) - or ok=None on infrastructure trouble."""
    from vlib import trace
    r = tlc.run_tlc(comp, module, cfg, workers=1, timeout=timeout, files={"trace.ndjson": trace.to_ndjson(histories)})
    if r.timed_out or r.rc != 0 or r.tagged.get("STUCK"):
        return None, r, r.out[-1500:]
    seen, rej = set(), []
    for info in r.tagged.get("REJECTED", []):
        hi, _ = trace.locate(histories, info["at"])
        if hi not in seen:
            seen.add(hi)
            rej.append((hi, info))
    return True, r, rej


def validate_histories(rep, comp, module, cfg, histories, *, label, key_fn, shards=6, timeout=900, per_key=3):
    """Code->model validation of many histories; every rejected history is validated again on its
    own before it is reported (at most per_key isolated confirmations per failure class)."""
    import concurrent.futures as cf
    if not histories:
        rep.infra_error(label + ": no histories recorded")
        return
    shards = max(1, min(shards, len(histories)))
    parts = [histories[i::shards] for i in range(shards)]
    with cf.ThreadPoolExecutor(max_workers=shards) as ex:
        results = list(ex.map(lambda p: validate_batch(comp, module, cfg, p, timeout), parts))
    confirmed = {}
    for part, (ok, r, rej) in zip(parts, results):
        rep.add_tlc("%s/%s" % (module, cfg), r, "trace validation of %d histories" % len(part))
        if ok is None:
            rep.infra_error("%s: trace validation did not complete: %s" % (label, str(rej)[:600]))
            continue
        bad = {hi for hi, _ in rej}
        rep.add_cases([h for i, h in enumerate(part) if i not in bad], nontrivial=lambda h: len(h) > 6)
        for hi, info in rej:
            key = key_fn(part[hi], info)
            if confirmed.get(key, 0) >= per_key:
                rep.cov["unverified_repeats"] = rep.cov.get("unverified_repeats", 0) + 1
                continue
            ok2, r2, rej2 = validate_batch(comp, module, cfg, [part[hi]], timeout)
            if ok2 and rej2:
                info2 = rej2[0][1]
                confirmed[key] = confirmed.get(key, 0) + 1
                rep.violation(key_fn(part[hi], info2), "history not explainable by %s: first unexplained event #%d %s" % (
                    module, info2["at"] - 1, json.dumps(info2["event"])[:300]), dict(history=part[hi], rejected_at=info2))
            else:
                rep.infra_error("%s: rejection did not reproduce on the single history" % label)
