"""C19 HDR histogram: counts are conserved, quantiles / Min / Max are within the promised precision,
Export/Import and Merge-into-empty are identities, in-range values are always recordable, no invariant panic."""
import copy, json, random, time

from vlib import tlc, harness, replay
from props import c18c19_common as common

COMP = "hdr"


def _calls(b):
    return [b[0]["op"] + "(%d,%d,%d,win=%d)" % (b[0]["min"], b[0]["max"], b[0]["sf"], b[0]["win"])] + \
           ["%s(%s)" % (s["op"], ",".join(str(s[k]) for k in ("v", "n") if k in s)) for s in b[1:]]


def _nontrivial(b):
    # at least two recorded occurrences fall into different buckets, or a non-record call is involved
    last = b[-1]
    return len(set(last.get("hi", []))) >= 2 or any(s["op"] not in ("new", "rec") for s in b)


def run(rep, tier, seed, replay_file=None):
    quick = tier == "quick"
    rep.assumptions += [
        "TLC is sound; TLC integers are 32-bit, so shapes are limited to max <= 2^28 (sigfigs 1..5)",
        "decided for the integer part of the statement: bucket geometry, count conservation, quantile/Min/Max brackets; "
        "Mean/StdDev are only executed (they must not panic), their float values are not judged",
        "quantiles are queried at q = 100*r/total for every rank r in 1..total: int64(q/100*total + 0.5) is r for every total "
        "used here (the float error is far below 0.5), so the rank is unambiguous; other q in (0,100] map to one of these ranks",
        "exhaustive claims hold for the shapes and boundary-directed value sets of the cfg files (min in {1,2,3,1000}, max in "
        "{100,1023,1024,100000}, sigfigs in {1,2}); sigfigs 3..5 are covered by a small exhaustive set (thorough) and by simulation",
        "RecordValues is called with n >= 1 only; values outside [min,max] are never recorded",
    ]
    binary = harness.build("vh-hdr")
    if replay_file:
        obj = json.load(open(replay_file))["replay"]
        common.capped_replay(rep, binary, ["replay"], [obj["behaviour"]["beh"]], shards=1, label="hdr")
        return
    phases = rep.cov.setdefault("phase_s", {})

    # the spec as the code is (bucket count computed with `<`) must violate IndexInRange for max on the boundary:
    # non-vacuity of the model-level invariant
    r = tlc.run_tlc(COMP, "Hdr", "MC_asis.cfg", workers=1, timeout=300)
    rep.add_tlc("Hdr/MC_asis.cfg", r, "as-is bucket count, shape (1,1024,1): expected to violate InvRange")
    rep.self_test("IndexInRange not vacuous (as-is model loses max=1024 for shape (1,1024,1))", r.violated == "InvRange", str(r.brief()))

    sim = dict(comp=COMP, module="Hdr", workers=1, timeout=1200)
    if quick:
        jobs = [
            ("canon2_all", dict(comp=COMP, module="Hdr", cfg="Hdr_canon2_all.cfg", workers=2, timeout=900)),
            ("canon4_core", dict(comp=COMP, module="Hdr", cfg="Hdr_canon4_core.cfg", workers=2, timeout=900)),
            ("sim_full", dict(sim, cfg="Hdr_sim_full.cfg", simulate=dict(num=40), depth=9, seed=seed)),
            ("sim_hisf", dict(sim, cfg="Hdr_sim_hisf.cfg", simulate=dict(num=15), depth=6, seed=seed)),
        ]
        groups = [jobs]
    else:
        g1 = [
            ("canon3_all", dict(comp=COMP, module="Hdr", cfg="Hdr_canon3_all.cfg", workers=3, timeout=1500, heap="6g")),
            ("canon6_core", dict(comp=COMP, module="Hdr", cfg="Hdr_canon6_core.cfg", workers=3, timeout=1500, heap="6g")),
        ]
        g2 = [
            ("full2", dict(comp=COMP, module="Hdr", cfg="Hdr_full2.cfg", workers=2, timeout=1500)),
            ("boundary_full3", dict(comp=COMP, module="Hdr", cfg="Hdr_boundary_full3.cfg", workers=1, timeout=1500)),
            ("hisf_core2", dict(comp=COMP, module="Hdr", cfg="Hdr_hisf_core2.cfg", workers=1, timeout=900)),
            ("sim_full", dict(sim, cfg="Hdr_sim_full.cfg", simulate=dict(num=300), depth=9, seed=seed)),
            ("sim_hisf", dict(sim, cfg="Hdr_sim_hisf.cfg", simulate=dict(num=80), depth=6, seed=seed)),
        ]
        jobs = g1 + g2
        groups = [g1, g2]
    notes = dict(
        canon2_all="every multiset of 2 values over all boundary-directed values (ends, every power of two +-1), 30 shapes",
        canon3_all="every multiset of 3 values over all boundary-directed values, 30 shapes",
        canon4_core="every multiset of 4 values over the core values (ends, first/last bucket boundary +-1), 30 shapes",
        canon6_core="every multiset of 6 values over the core values, 30 shapes",
        full2="every sequence of 2 calls (Record, RecordValues, RecordCorrectedValue, Reset, Export/Import, Merge, windows), 30 shapes",
        boundary_full3="one shortest behaviour per edge, 3 calls, shapes whose max is on the bucket-count boundary",
        hisf_core2="every multiset of 2 core values, 9 shapes with sigfigs 3..5",
        sim_full="random behaviours of 8 calls, all call kinds, plain and windowed",
        sim_hisf="random behaviours of 5 calls, sigfigs 3..5")
    t0 = time.time()
    res = {}
    for g in groups:
        res.update(common.run_tlc_parallel(g))
    phases["tlc"] = round(time.time() - t0, 1)
    behs = []
    for name, _ in jobs:
        r = res[name]
        rep.add_tlc("Hdr/" + name, r, notes[name] + "; model invariants Conservation, GeometryOK, QuantileOK, IndexInRange, IteratorInBounds")
        if not r.ok:
            rep.infra_error("behaviour generation %s failed (%s): %s" % (name, r.violated, r.out[-1500:]))
            return
        behs += replay.dedupe(r.tagged.get("BEH", []))
        del r.tagged["BEH"]
    rep.cov["exhaustive"] = True    # the canon*/full2 spaces are enumerated completely
    t0 = time.time()
    common.capped_replay(rep, binary, ["replay"], behs, shards=8, label="hdr", nontrivial=_nontrivial, cap=2,
                         size=lambda b: (len(b), b[0]["max"]))
    phases["replay"] = round(time.time() - t0, 1)
    rng = random.Random(seed)
    rep.sample(dict(kind="replayed behaviour", calls=_calls(rng.choice(behs)), final=behs[0][-1]))

    # self-test of the binding: the same behaviour must pass as printed and fail with a wrong expectation
    good = next(b for b in behs if b[0]["max"] == 1023 and b[0]["win"] == 0 and len(b) >= 3 and b[-1]["total"] >= 2 and all(s["op"] in ("new", "rec") for s in b))
    rc, outs, err = harness.run(binary, ["replay"], [dict(n=0, beh=good)], timeout=60)
    ok1 = any(o.get("n") == 0 and o.get("ok") for o in outs if "begin" not in o)
    verdicts = []
    for field, delta in (("sorted", 4096), ("total", 1), ("hi", -4096)):
        bad = copy.deepcopy(good)
        if field == "total":
            bad[-1]["total"] += delta
            bad[-1]["sorted"].append(bad[-1]["sorted"][-1]); bad[-1]["hi"].append(bad[-1]["hi"][-1]); bad[-1]["prec"].append(bad[-1]["prec"][-1])
        else:
            bad[-1][field][-1] += delta
        rc, outs, err = harness.run(binary, ["replay"], [dict(n=0, beh=bad)], timeout=60)
        r0 = [o for o in outs if o.get("n") == 0 and "begin" not in o]
        verdicts.append((field, bool(r0) and not r0[0].get("ok"), r0[0].get("key") if r0 else None))
    rep.self_test("replayer accepts the behaviour as printed and rejects a wrong order statistic / total / upper bound",
                  ok1 and all(v[1] for v in verdicts), str(verdicts))
    rep.cov["rule"] = ("behaviours = call sequences of Hdr.tla per shape (min,max,sigfigs): all multisets of boundary-directed values up to "
                       "the stated size recorded in non-decreasing order, all call sequences of length 2 over every call kind, random walks; "
                       "each is replayed on a real Histogram/WindowedHistogram and after every call TotalCount, ValueAtQuantile(100r/total) "
                       "for every rank r (exact <= Q, Q-exact < bucket width, Q-exact <= max(2^floor(log2 min), exact/10^sf)), Min, Max, "
                       "Distribution/CumulativeDistribution totals, Equals after Export/Import and Merge-into-empty are compared with the "
                       "spec's order statistics; any recovered panic is a violation; non-trivial = occurrences in at least two buckets or a "
                       "call other than Record")
