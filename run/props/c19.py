"""C19 HDR histogram: counts are conserved, quantiles / Min / Max are within the promised precision,
Export/Import and Merge-into-empty are identities, in-range values are always recordable, no invariant panic.

Large magnitudes (values at and beyond 2^31, 2^32, up to 2^61) are reached by replaying the TLC-generated
behaviours a second time under the transformations of Hdr.tla (ScaleLaw / LiftLaw / TransExpect): see _plans."""
import copy, json, random, time

from vlib import tlc, harness, replay
from props import c18c19_common as common

COMP = "hdr"


def _calls(b):
    return [b[0]["op"] + "(%d,%d,%d,win=%d)" % (b[0]["min"], b[0]["max"], b[0]["sf"], b[0]["win"])] + \
           ["%s(%s)" % (s["op"], ",".join(str(s[k]) for k in ("v", "n") if k in s)) for s in b[1:]]


KINDS = ("max@2^31", "max@2^32", "min@2^31", "max@2^61", "random")
SPLITS = ("scale", "lift", "mixed")


def _plans(b, rng):
    """The (kind, split, lift k, scale c) variants of behaviour b.  k + c = t with max * 2^t just past 2^31, just past
    2^32, min * 2^t just past 2^31, max * 2^t in [2^60, 2^61), and a random t; the split
    of t is scale only (unit magnitude + t), lift as far as allowed (bucket indices + k) or half and half.  The lift is
    capped so that the counts array grows by at most 2^19 entries and is 0 for behaviours with RecordCorrectedValue
    (v - e is not invariant under a lift)."""
    new = b[0]
    mx, mn = new["max"], new["min"]
    # New's bucket-count loop doubles smallestUntrackableValue until it exceeds max, which needs a power of two above max
    # in int64: for max >= 2^62 the loop of hdr.go:70 never ends (outside this check, see assumptions).  One bit of margin
    # is kept (mx << budget < 2^61) so that a defect that is off by one magnitude shows as a wrong answer, not as a spin
    budget = 61 - mx.bit_length()
    half = new["liftfrom"] // new["pu"]
    kmax = 0 if any(s["op"] == "corr" for s in b) else (1 << 19) // half
    # New computes subBucketCount << unitMagnitude = 2 * liftfrom << c in int64 (hdr.go:68); when the whole range lies in
    # bucket 0 this is far above max, and beyond 2^62 it overflows (the loop of hdr.go:70 then never ends)
    cmax = 61 - new["liftfrom"].bit_length()           # 2 * liftfrom << cmax = 2^61
    totals = {"max@2^31": 32 - mx.bit_length(), "max@2^32": 33 - mx.bit_length(), "min@2^31": 32 - mn.bit_length(),
              "max@2^61": budget, "random": rng.randint(1, budget)}
    out = []
    for kind in KINDS:
        t = totals[kind]
        if not 1 <= t <= budget:
            continue
        for split in SPLITS:
            k = dict(scale=0, lift=min(t, kmax), mixed=min(t // 2, kmax))[split]
            c = min(t - k, cmax)
            k = min(t - c, kmax)                 # what the scale cannot take goes to the lift, if that is allowed
            if k + c >= 1:
                out.append((kind, split, k, c))
    return out


def _nontrivial(b):
    # at least two recorded occurrences fall into different buckets, or a non-record call is involved
    last = b[-1]
    return len(set(last.get("hi", []))) >= 2 or any(s["op"] not in ("new", "rec") for s in b)


def run(rep, tier, seed, replay_file=None):
    quick = tier == "quick"
    rep.assumptions += [
        "TLC is sound; TLC integers are 32-bit, so the shapes of the model are limited to max <= 2^28 (sigfigs 1..5)",
        "large magnitudes (values from 2^31 up to 2^61) are not enumerated by TLC: the results for them rest on (1) the "
        "ScaleLaw / LiftLaw / ExpectLaw of Hdr.tla - the bucket geometry and the expectations are invariant under "
        "(min, max, v) -> (min 2^c, max 2^(k+c), v 2^c or v 2^(k+c)) - which TLC checks for every shape, candidate value "
        "and reachable state of the cfg files for k + c in 1..3 only (k + c = 1 for the two shapes with max >= 2^28: model "
        "values stay below 2^30), assumed to extend to "
        "larger k + c because the laws are statements about bit shifts that do not depend on the exponent, and (2) the "
        "replay of the same TLC-generated behaviours on the real code at k + c up to 60, judged with TransExpect of the "
        "printed expectations; large values are therefore always of the form (boundary-directed model value) * 2^t, "
        "with unit magnitude raised by c and bucket indices raised by k",
        "decided for the integer part of the statement: bucket geometry, count conservation, quantile/Min/Max brackets; "
        "Mean/StdDev are only executed (they must not panic), their float values are not judged",
        "quantiles are queried at q = 100*r/total for every rank r in 1..total: int64(q/100*total + 0.5) is r for every total "
        "used here (the float error is far below 0.5), so the rank is unambiguous; other q in (0,100] map to one of these ranks",
        "exhaustive claims hold for the shapes and boundary-directed value sets of the cfg files (min in {1,2,3,1000}, max in "
        "{100,1023,1024,100000}, sigfigs in {1,2}); sigfigs 3..5 are covered by a small exhaustive set (thorough) and by simulation",
        "RecordValues is called with n >= 1 only; values outside [min,max] are never recorded",
        "shapes are kept where New terminates, with one bit of margin: max * 2^(k+c) < 2^61 and subBucketCount << unitMagnitude "
        "<= 2^61; from max >= 2^62 or subBucketCount << unitMagnitude > 2^62 on the "
        "bucket-count loop of New (hdr.go:68-73) overflows int64 and never ends (fixes/hdrhist-new-extreme-shapes-loop.diff, "
        "fixes/demos/hdrhist_new_loops) - a non-terminating constructor cannot be judged without a clock and is not part of "
        "the property's text, so it is reported, not checked",
    ]
    binary = harness.build("vh-hdr")
    if replay_file:
        obj = json.load(open(replay_file))["replay"]
        item = {k: v for k, v in obj["behaviour"].items() if k != "n"}     # beh, and scale / lift when present
        common.capped_replay(rep, binary, ["replay"], [item], shards=1, label="hdr", wrap=False)
        return
    phases = rep.cov.setdefault("phase_s", {})

    sim = dict(comp=COMP, module="Hdr", workers=1, timeout=1200)
    # expected model violations (non-vacuity) and the samples for the transformation self-test run next to the generators
    aux = [
        ("MC_asis", dict(comp=COMP, module="Hdr", cfg="MC_asis.cfg", workers=1, timeout=300)),
        ("MC_lawvac", dict(comp=COMP, module="Hdr", cfg="MC_lawvac.cfg", workers=1, timeout=300)),
        ("law", dict(comp=COMP, module="Hdr", cfg="Hdr_law.cfg", workers=1, timeout=600)),
    ]
    if quick:
        jobs = [
            ("canon2_all", dict(comp=COMP, module="Hdr", cfg="Hdr_canon2_all.cfg", workers=2, timeout=900)),
            ("canon4_core", dict(comp=COMP, module="Hdr", cfg="Hdr_canon4_core.cfg", workers=2, timeout=900)),
            ("sim_full", dict(sim, cfg="Hdr_sim_full.cfg", simulate=dict(num=40), depth=9, seed=seed)),
            ("sim_hisf", dict(sim, cfg="Hdr_sim_hisf.cfg", simulate=dict(num=15), depth=6, seed=seed)),
            ("merge3", dict(comp=COMP, module="Hdr", cfg="Hdr_merge3.cfg", workers=1, timeout=900)),
        ]
        groups = [jobs + aux]
    else:
        g1 = [
            ("canon3_all", dict(comp=COMP, module="Hdr", cfg="Hdr_canon3_all.cfg", workers=3, timeout=1500, heap="6g")),
            ("canon6_core", dict(comp=COMP, module="Hdr", cfg="Hdr_canon6_core.cfg", workers=3, timeout=1500, heap="6g")),
        ]
        g2 = [
            ("full2", dict(comp=COMP, module="Hdr", cfg="Hdr_full2.cfg", workers=2, timeout=1500)),
            ("boundary_full3", dict(comp=COMP, module="Hdr", cfg="Hdr_boundary_full3.cfg", workers=1, timeout=1500)),
            ("hisf_core2", dict(comp=COMP, module="Hdr", cfg="Hdr_hisf_core2.cfg", workers=1, timeout=900)),
            ("sim_full", dict(sim, cfg="Hdr_sim_full.cfg", simulate=dict(num=300), depth=9, seed=seed)),
            ("sim_hisf", dict(sim, cfg="Hdr_sim_hisf.cfg", simulate=dict(num=80), depth=6, seed=seed)),
            ("merge3", dict(comp=COMP, module="Hdr", cfg="Hdr_merge3.cfg", workers=1, timeout=900)),
        ]
        jobs = g1 + g2
        groups = [g1 + aux, g2]
    notes = dict(
        canon2_all="every multiset of 2 values over all boundary-directed values (ends, every power of two +-1), 30 shapes",
        canon3_all="every multiset of 3 values over all boundary-directed values, 30 shapes",
        canon4_core="every multiset of 4 values over the core values (ends, first/last bucket boundary +-1), 30 shapes",
        canon6_core="every multiset of 6 values over the core values, 30 shapes",
        full2="every sequence of 2 calls (Record, RecordValues, RecordCorrectedValue, Reset, Export/Import, Merge, windows), 30 shapes",
        boundary_full3="one shortest behaviour per edge, 3 calls, shapes whose max is on the bucket-count boundary",
        hisf_core2="every multiset of 2 core values, 9 shapes with sigfigs 3..5",
        sim_full="random behaviours of 8 calls, all call kinds, plain and windowed",
        sim_hisf="random behaviours of 5 calls, sigfigs 3..5",
        merge3="one shortest behaviour per edge, 3 calls out of Record / Record on a second histogram / Merge / Merge into empty / "
               "Export-Import / Rotate, plain and windowed, 4 shapes whose min is not a power of two, values at min and the range ends")
    t0 = time.time()
    res = {}
    for g in groups:
        res.update(common.run_tlc_parallel(g))
    phases["tlc"] = round(time.time() - t0, 1)
    # the spec as the code is (bucket count computed with `<`) must violate IndexInRange for max on the boundary:
    # non-vacuity of the model-level invariant
    r = res["MC_asis"]
    rep.add_tlc("Hdr/MC_asis.cfg", r, "as-is bucket count, shape (1,1024,1): expected to violate InvRange")
    rep.self_test("IndexInRange not vacuous (as-is model loses max=1024 for shape (1,1024,1))", r.violated == "InvRange", str(r.brief()))
    r = res["MC_lawvac"]
    rep.add_tlc("Hdr/MC_lawvac.cfg", r, "Laws hold and the lifted part of LiftLaw is not vacuous: expected to violate LawVacuous")
    rep.self_test("LiftLaw quantifies over lifted values (LawVacuous violated, Laws not)", r.violated == "LawVacuous", str(r.brief()))
    r = res["law"]
    rep.add_tlc("Hdr/Hdr_law.cfg", r, "TransExpect evaluated by TLC for every multiset of <= 2 core values, 7 shapes, every law pair")
    if not r.ok:
        rep.infra_error("Hdr_law.cfg failed (%s): %s" % (r.violated, r.out[-1500:]))
        return
    laws = r.tagged.get("LAW", [])
    behs, src = [], []
    for name, _ in jobs:
        r = res[name]
        rep.add_tlc("Hdr/" + name, r, notes[name] + "; model invariants Conservation, GeometryOK, QuantileOK, IndexInRange, IteratorInBounds, "
                    "ScaleLaw, LiftLaw" + ("" if name in ("canon4_core", "canon6_core", "full2", "sim_full") else ", ExpectLaw"))
        if not r.ok:
            rep.infra_error("behaviour generation %s failed (%s): %s" % (name, r.violated, r.out[-1500:]))
            return
        new = replay.dedupe(r.tagged.get("BEH", []))
        behs += new
        src += [name] * len(new)
        del r.tagged["BEH"]
    rep.cov["exhaustive"] = True    # the canon*/full2 spaces are enumerated completely
    t0 = time.time()
    common.capped_replay(rep, binary, ["replay"], behs, shards=8, label="hdr", nontrivial=_nontrivial, cap=2,
                         size=lambda b: (len(b), b[0]["max"]))
    phases["replay"] = round(time.time() - t0, 1)

    # the same behaviours at large magnitudes.  quick: one variant per behaviour, drawn with the run's seed (every kind
    # and split is hit by thousands of behaviours of every shape); thorough: the same for the four large enumerations,
    # every kind (split drawn) for the merge, sigfigs 3..5 and random-walk sets
    rng = random.Random(seed)
    t0 = time.time()
    scaled, tally, top = [], {}, 0
    for b, origin in zip(behs, src):
        plans = _plans(b, rng)
        nkinds = 1 if quick or origin in ("canon3_all", "canon6_core", "boundary_full3", "full2") else len(KINDS)
        avail = [kind for kind in KINDS if any(p[0] == kind for p in plans)]
        kinds = rng.sample(avail, min(nkinds, len(avail)))
        plans = [rng.choice([p for p in plans if p[0] == kind]) for kind in kinds]
        seen = set()
        for kind, split, k, c in plans:
            if (k, c) in seen:
                continue
            seen.add((k, c))
            scaled.append(dict(beh=b, scale=c, lift=k))
            tally[kind + "/" + split] = tally.get(kind + "/" + split, 0) + 1
            top = max(top, b[0]["max"] << (k + c))
    rep.cov["large_magnitude_replays"] = dict(count=len(scaled), by_kind_and_split=tally, largest_max=top,
                                              rule="behaviour executed on New(min<<c, max<<(k+c), sf) with values v<<c below liftfrom, "
                                                   "v<<(k+c) from liftfrom on; expectations = TransExpect of the printed ones")
    common.capped_replay(rep, binary, ["replay"], scaled, shards=8, label="hdr", nontrivial=lambda o: _nontrivial(o["beh"]), cap=2,
                         size=lambda b: (len(b), b[0]["max"]), wrap=False, timeout=300 if quick else 1500)
    phases["replay_large"] = round(time.time() - t0, 1)

    # self-test of the transformation: what the replayer computes from a printed expectation must be what TLC
    # evaluates TransExpect to (which ExpectLaw ties to the expectation of the transformed shape)
    items = [dict(n=i, beh=l["beh"], scale=l["c"], lift=l["k"]) for i, l in enumerate(laws)]
    outs, _ = harness.run_sharded(binary, ["xform"], items, shards=4, timeout=300)
    got = {o["n"]: o for o in outs if "n" in o}
    bad = []
    for i, l in enumerate(laws):
        want = dict(l["t"])
        have = {f: got.get(i, {}).get(f) for f in want}
        for f in ("sorted", "hi", "prec"):
            want[f], have[f] = list(want[f] or []), list(have[f] or [])
        if want != have:
            bad.append((i, want, have))
    rep.self_test("replayer's transformation of the expectations equals TransExpect evaluated by TLC (%d samples, k+c in 1..3)" % len(laws),
                  len(laws) > 500 and not bad, str(bad[:2]))
    rep.sample(dict(kind="replayed behaviour", calls=_calls(rng.choice(behs)), final=behs[0][-1]))

    # self-test of the binding: the same behaviour must pass as printed and fail with a wrong expectation
    good = next(b for b in behs if b[0]["max"] == 1023 and b[0]["win"] == 0 and len(b) >= 3 and b[-1]["total"] >= 2 and all(s["op"] in ("new", "rec") for s in b))
    rc, outs, err = harness.run(binary, ["replay"], [dict(n=0, beh=good)], timeout=60)
    ok1 = any(o.get("n") == 0 and o.get("ok") for o in outs if "begin" not in o)
    verdicts = []
    for field, delta in (("sorted", 4096), ("total", 1), ("hi", -4096)):
        bad = copy.deepcopy(good)
        if field == "total":
            bad[-1]["total"] += delta
            bad[-1]["sorted"].append(bad[-1]["sorted"][-1]); bad[-1]["hi"].append(bad[-1]["hi"][-1]); bad[-1]["prec"].append(bad[-1]["prec"][-1])
        else:
            bad[-1][field][-1] += delta
        rc, outs, err = harness.run(binary, ["replay"], [dict(n=0, beh=bad)], timeout=60)
        r0 = [o for o in outs if o.get("n") == 0 and "begin" not in o]
        verdicts.append((field, bool(r0) and not r0[0].get("ok"), r0[0].get("key") if r0 else None))
    rep.self_test("replayer accepts the behaviour as printed and rejects a wrong order statistic / total / upper bound",
                  ok1 and all(v[1] for v in verdicts), str(verdicts))
    # the same at a large magnitude (max 1023 * 2^40, split 15 + 25)
    rc, outs, err = harness.run(binary, ["replay"], [dict(n=0, beh=copy.deepcopy(good), scale=25, lift=15)], timeout=60)
    ok2 = any(o.get("n") == 0 and o.get("ok") for o in outs if "begin" not in o)
    verdicts = []
    for field, delta in (("sorted", 1), ("hi", -1)):
        bad = copy.deepcopy(good)
        bad[-1][field][-1] += delta
        rc, outs, err = harness.run(binary, ["replay"], [dict(n=0, beh=bad, scale=25, lift=15)], timeout=60)
        r0 = [o for o in outs if o.get("n") == 0 and "begin" not in o]
        verdicts.append((field, bool(r0) and not r0[0].get("ok"), r0[0].get("key") if r0 else None))
    rep.self_test("replayer accepts the behaviour at scale 2^25, lift 2^15 and rejects an order statistic / upper bound that is wrong by one "
                  "model unit", ok2 and all(v[1] for v in verdicts), str(verdicts))
    rep.cov["rule"] = ("behaviours = call sequences of Hdr.tla per shape (min,max,sigfigs): all multisets of boundary-directed values up to "
                       "the stated size recorded in non-decreasing order, all call sequences of length 2 over every call kind, random walks; "
                       "each is replayed on a real Histogram/WindowedHistogram and after every call TotalCount, ValueAtQuantile(100r/total) "
                       "for every rank r (exact <= Q, Q-exact < bucket width, Q-exact <= max(2^floor(log2 min), exact/10^sf)), Min, Max, "
                       "Distribution/CumulativeDistribution totals, Equals after Export/Import and Merge-into-empty are compared with the "
                       "spec's order statistics; any recovered panic is a violation; non-trivial = occurrences in at least two buckets or a "
                       "call other than Record; every behaviour is executed again at a large magnitude (lift k, scale c with "
                       "max*2^(k+c) just past 2^31 / 2^32, min past 2^31, max in [2^60,2^61) or random; one variant per behaviour in the "
                       "quick tier, every kind in the thorough tier) and judged with TransExpect (Hdr.tla) of the printed expectations")
