"""C02 sequential iterator pipelines equal their functional specification.

design level : spec/iter/IterOp.tla - the operational machine of the stateful nodes (ReadOne loop, Producer.Join
               stages, Transform retry loop, close hooks) refines the functional spec IterAlgebra.Eval on every
               enumerated term (with the proposed fix), resp. stays inside the named deviation (code as it is).
model -> code: TLC enumerates operator trees with the outputs the functional spec accepts; vh-iter builds the real
               iterator tree and drains it with ReadOne / Slice / Next+Value / MarshalJSON / Count (Reduce for
               reduce roots), compares element by element, checks that nothing is yielded after the terminal error
               and that Close() reports no error that no user function returned."""
import concurrent.futures as cf
import copy, json, random
from vlib import tlc, harness, replay

COMP = "iter"
SHARDS = 8


def short(t):
    a = []
    if t["data"]:
        a.append(str(t["data"]).replace(" ", ""))
    if t["datas"]:
        a.append(str(t["datas"]).replace(" ", ""))
    if t["fn"]:
        a.append(t["fn"])
    if t["fault"] != "none":
        a.append("%s@%d" % (t["fault"], t["k"]))
    if t["n"]:
        a.append("n=%d" % t["n"])
    a += [short(k) for k in t["kids"]]
    return t["op"] + "(" + ",".join(a) + ")"


def size(t):
    return 1 + sum(size(k) for k in t["kids"])


def replay_terms(rep, binary, behs, env, label, per_key=4):
    """Like vlib.replay.replay, but bounded in the number of failing terms that are re-run in isolation:
    the code as it is fails thousands of terms with the same key.  A violation is reported only for terms
    re-run alone (with the same result); the others are counted in coverage["mismatches_by_key"]."""
    items = [dict(n=i, beh=b) for i, b in enumerate(behs)]
    outs, meta = harness.run_sharded(binary, ["replay"], items, shards=SHARDS, timeout=900, env_extra=env)
    results, begun = {}, set()
    for o in outs:
        if "begin" in o:
            begun.add(o["begin"])
        elif "n" in o:
            results[o["n"]] = o
    for i in sorted(begun - set(results)):             # killed its process: run alone
        rc, o, err = harness.run(binary, ["replay"], [items[i]], timeout=120, env_extra=env)
        got = [x for x in o if x.get("n") == i and "begin" not in x]
        if got:
            results[i] = got[0]
        elif "github.com/tychoish/fun" in err[-3000:] and ("panic:" in err or "fatal error:" in err):
            rep.violation("iter/process-crash", "the process died while replaying %s: %s" % (short(behs[i]["term"]), err[-1200:]),
                          dict(behaviour=items[i], stderr=err[-3000:]))
        else:
            rep.infra_error("%s: term %d kills the harness without a library frame: %s" % (label, i, err[-400:]))
    never = [i for i in range(len(items)) if i not in begun and i not in results]
    if never:
        outs2, _ = harness.run_sharded(binary, ["replay"], [items[i] for i in never], shards=SHARDS, timeout=900, env_extra=env)
        for o in outs2:
            if "n" in o and "begin" not in o:
                results[o["n"]] = o
    bykey = {}
    for i in sorted(results, key=lambda i: size(behs[i]["term"])):      # smallest failing terms first
        r = results[i]
        if not r.get("ok"):
            bykey.setdefault(r.get("key", label + "/mismatch"), []).append(i)
    mm = rep.cov.setdefault("mismatches_by_key", {})
    for key, idx in bykey.items():
        mm[key] = mm.get(key, 0) + len(idx)
        confirmed = 0
        for i in idx[:per_key + 2]:
            rc, o, err = harness.run(binary, ["replay"], [items[i]], timeout=120, env_extra=env)
            again = [x for x in o if x.get("n") == i and "begin" not in x]
            if again and not again[0].get("ok") and again[0].get("key") == key:
                confirmed += 1
                rep.violation(key, "%s: %s  (%d of %d terms of this run fail with this key)" % (
                    short(behs[i]["term"]), again[0].get("what", ""), len(idx), len(items)),
                    dict(behaviour=items[i], result=again[0], binary="vh-iter", args=["replay"]))
                if confirmed >= per_key:
                    break
            else:
                rep.infra_error("%s: mismatch on term %d did not reproduce in isolation: %s" % (label, i, json.dumps(r)[:300]))
    okr = [i for i in results if results[i].get("ok") and not results[i].get("inconclusive")]
    rep.add_cases([behs[i]["term"] for i in okr], nontrivial=lambda t: size(t) >= 2)
    inc = [results[i] for i in results if results[i].get("inconclusive")]
    rep.cov["inconclusive"] = rep.cov.get("inconclusive", 0) + len(inc)
    if len(inc) > 0.05 * max(1, len(items)):
        rep.infra_error("%s: %d of %d terms inconclusive (%s)" % (label, len(inc), len(items), inc[0].get("inconclusive")))
    missing = [i for i in range(len(items)) if i not in results]
    if missing:
        rep.infra_error("%s: %d terms produced no result" % (label, len(missing)))
    rep.cov["close_did_not_report_the_truncating_error"] = rep.cov.get("close_did_not_report_the_truncating_error", 0) + \
        sum(r.get("unreported", 0) for r in results.values())
    return results


def run(rep, tier, seed, replay_file=None):
    quick = tier == "quick"
    rep.assumptions += [
        "TLC is sound; IterAlgebra.Eval (filter/map/concat/identity/fold/dedupe-first/enumerate/flatten with truncation at the "
        "first non-skip user error, skip removing one element) is the meaning of C02; a user function returning io.EOF may end "
        "the whole sequence or only its operand (both accepted)",
        "Close() reporting of the truncating error is not part of C02's statement: it is measured (coverage.close_did_not_report_the_truncating_error), not judged; "
        "judged are the sequence, terminality after the first error, and that Close() reports no error nobody returned",
        "vocabulary: ints, predicates ne0/ne1/lt2, mappers inc/dbl, one fault (err/skip/eof at the k-th element) per user function; "
        "map faults exclude io.EOF in the random deep terms (a prefetching Buffer/Chain upstream of an EOF-ing function makes the "
        "set of raised errors schedule dependent)",
        "exhaustive claims hold for the term sets of the cfg files only; stuck = not finished when the process is quiescent (rt.Quiesce)",
        "the process under test runs one term at a time; goroutines left behind by earlier terms are not judged here (C04)",
    ]
    binary = harness.build("vh-iter")
    env = {"GOMAXPROCS": str(2 + seed % 3)}
    if replay_file:
        obj = json.load(open(replay_file))["replay"]
        replay_terms(rep, binary, [obj["behaviour"]["beh"]], env, "iter")
        rep.cov["rule"] = "re-run of one saved case"
        return

    # ---- TLC jobs (each enumerates its terms on one worker; at most 6 run at a time)
    jobs = [  # (module, cfg, note, kwargs, role)
        ("IterOp", "Op_asis.cfg", "operational machine as the code is: output is a going-on output (OpInNSet), Terminal; emits terms", {}, "op_asis"),
        ("IterOp", "Op_fixed.cfg", "operational machine with the fix: Operational = Denotational, Terminal, Reported; emits terms", {}, "op_fixed"),
        ("IterOp", "Op_asis_strict.cfg", "as it is, Operational = Denotational demanded: must be violated", {}, "strict"),
        ("IterAlgebra", "D0.cfg", "all sources x all inputs Seq({0,1,2}) len<=3 x generator faults; reduce roots", {}, "terms"),
        ("IterAlgebra", "D1_unary.cfg", "every unary operator variant over slice/generator sources, all 40 inputs", {}, "terms"),
        ("IterAlgebra", "D1_nary.cfg", "join/chain of <= 2 sources (5 inputs, faults at 0..2)", {}, "terms"),
        ("IterAlgebra", "D2_unary.cfg", "unary over unary over source", {}, "terms"),
        ("IterAlgebra", "D2_nary_small.cfg", "depth 2 with join/chain/buffer/split/map", {}, "terms"),
    ]
    if not quick:
        jobs += [
            ("IterOp", "Op_asis_big.cfg", "as Op_asis, 3 inputs, generator io.EOF", {}, "op_asis"),
            ("IterOp", "Op_fixed_big.cfg", "as Op_fixed, 3 inputs, generator io.EOF", {}, "op_fixed"),
            ("IterOp", "Op_asis_d1.cfg", "as Op_asis, depth 1, join of <= 3", {}, "op_asis"),
            ("IterOp", "Op_fixed_d1.cfg", "as Op_fixed, depth 1, join of <= 3", {}, "op_fixed"),
            ("IterAlgebra", "D2_naryq.cfg", "depth 2 with join/chain/buffer/uniq/filter/map", {}, "terms"),
        ]
    nsim = 150 if quick else 2500
    for steps in ([10] if quick else [8, 14]):
        cfgtext = open(tlc.SPEC + "/iter/Sim.cfg").read().replace("SimSteps = 10", "SimSteps = %d" % steps)
        jobs.append(("IterAlgebra", "Sim.cfg", "random postfix constructions of %d steps over the whole vocabulary" % steps,
                     dict(workers=3, simulate=dict(num=nsim), depth=steps + 3, seed=seed * 100 + steps, files={"Sim.cfg": cfgtext}), "terms"))

    def tlc_job(j):
        mod, cfg, note, kw, role = j
        kw = dict(kw)
        kw.setdefault("workers", 1)
        return tlc.run_tlc(COMP, mod, cfg, timeout=1500, **kw)

    with cf.ThreadPoolExecutor(max_workers=3 if quick else 4) as ex:
        results = list(ex.map(tlc_job, jobs))
    behs, op_asis, op_fixed = [], [], []
    for (mod, cfg, note, kw, role), r in zip(jobs, results):
        rep.add_tlc("%s/%s" % (mod, cfg), r, note)
        if role == "strict":
            rep.self_test("Operational = Denotational is not vacuous (the as-is machine violates it: Join goes on after a failed operand)",
                          r.violated == "OpEqDen", str(r.brief()))
            continue
        if not r.ok:
            rep.infra_error("TLC %s/%s failed (%s): for IterOp this means the operational model no longer refines the functional "
                            "spec - spec and code must be re-aligned\n%s" % (mod, cfg, r.violated, r.out[-1500:]))
            return
        b = r.tagged.get("BEH", [])
        if role == "op_asis":
            op_asis += b
        elif role == "op_fixed":
            op_fixed += b
        behs += b
    # the same term may come from several cfgs; opseq/operrs are not part of the identity
    seen, uniq = set(), []
    for b in behs:
        k = json.dumps(b["term"], sort_keys=True)
        if k not in seen:
            seen.add(k)
            uniq.append(b)
    behs = uniq
    rep.cov["exhaustive"] = True

    results = replay_terms(rep, binary, behs, env, "iter")
    mid = [b for b in behs if size(b["term"]) >= 4 and len(b["alts"]) > 0]
    if mid:
        m = mid[len(mid) // 2]
        rep.sample(dict(kind="term with the accepted outputs", term=short(m["term"]), accept=m["accept"],
                        going_on_outputs=[a["seq"] for a in m["alts"]]))

    # ---- does the operational machine (IterOp) still describe the code?  (fidelity of the Impl spec, not a verdict)
    byterm = {json.dumps(b["term"], sort_keys=True): i for i, b in enumerate(behs)}

    def agrees(opb):
        n = bad = 0
        for b in opb:
            i = byterm.get(json.dumps(b["term"], sort_keys=True))
            r = results.get(i)
            if r is None or r.get("seq") is None:
                continue
            n += 1
            if r["seq"] != b["opseq"] or sorted(r.get("cerr") or []) != sorted(b["operrs"]):
                bad += 1
        return n, bad
    na, ba = agrees(op_asis)
    nf, bf = agrees(op_fixed)
    rep.self_test("IterOp reproduces the code's ReadOne output and Close() errors on every emitted term "
                  "(as-is machine or machine with the fix)", (na > 0 and ba == 0) or (nf > 0 and bf == 0),
                  "as-is machine: %d/%d differ; fixed machine: %d/%d differ" % (ba, na, bf, nf))
    rep.cov["code_matches_operational_model"] = "as-is" if (na and ba == 0) else ("fixed" if (nf and bf == 0) else "neither")

    # ---- self-tests of the binding
    base = next(b for b in behs if b["term"]["op"] == "map" and b["term"]["fault"] == "skip" and len(b["accept"][0]) >= 2)
    wrong = []
    w = copy.deepcopy(base); w["accept"] = [a[:-1] for a in w["accept"]]; w["alts"] = []; wrong.append(("last element not expected", w))
    w = copy.deepcopy(base); w["accept"] = [[a[0] + 1] + a[1:] for a in w["accept"]]; w["alts"] = []; wrong.append(("first element different", w))
    w = copy.deepcopy(base); w["accept"] = [a + [7] for a in w["accept"]]; w["alts"] = []; wrong.append(("one more element expected", w))
    hang = copy.deepcopy(base)
    hang["term"] = dict(op="join", kids=[dict(base["term"]["kids"][0], op="hang", data=[], kids=[], fault="none")], data=[], datas=[],
                        fn="", fault="none", k=0, n=0)
    hang["accept"], hang["alts"], hang["modes"] = [[]], [], ["readone"]
    wrong.append(("a drain that blocks for ever is reported as stuck, not waited for", hang))
    rc, outs, err = harness.run(binary, ["replay"], [dict(n=i, beh=b) for i, (_, b) in enumerate(wrong)], timeout=120, env_extra=env)
    res = {o["n"]: o for o in outs if "n" in o}
    for i, (name, _) in enumerate(wrong):
        good = i in res and not res[i].get("ok")
        if "stuck" in name:
            good = good and res[i].get("key", "").endswith("/stuck")
        rep.self_test("replayer: " + name, good, str({k: v for k, v in res.get(i, {}).items() if k in ("ok", "key", "what")})[:200])

    rep.cov["rule"] = (
        "terms = every IterAlgebra/IterOp term of the cfg bounds (sources x all 40 inputs x generator faults; every unary variant over "
        "them; join/chain of <= 2; depth-2 compositions over small universes) plus random postfix constructions over the whole "
        "vocabulary; each term built from the real constructors and drained 5 ways (ReadOne, Slice, Next/Value, MarshalJSON, Count; "
        "Reduce + itertool.Reduce for reduce roots), a fresh tree per way, in its own goroutine, judged at quiescence; "
        "non-trivial = at least one operator over a source")
