"""C18 dt.Set behaves as a mathematical set (optionally insertion-ordered); a synchronized set is linearizable."""
import copy, json, random, time
import concurrent.futures as cf

from vlib import tlc, harness, replay, trace
from props import c18c19_common as common

COMP = "set"


def _steps(b):
    return [(s.get("op"), s.get("s"), s.get("v", s.get("arg"))) for s in b]


def _nontrivial(b):
    # a delete of a present member, a re-add, or a sort/transfer on a populated set occurs
    ops = {s["op"] for s in b}
    return len(b) >= 3 and bool(ops & {"delete", "deletecheck", "sortquick", "sortmerge", "extend", "json"})


def key_fn(hist, info):
    ev = info.get("event", {})
    if ev.get("ev") == "ret":
        return "set/concurrent/unexplainable-return"
    if ev.get("ev") == "final":
        return "set/concurrent/final-state"
    return "set/concurrent/history-rejected"


def run(rep, tier, seed, replay_file=None):
    quick = tier == "quick"
    rep.assumptions += [
        "TLC is sound; the value domain is int with <, > as the strict total orders handed to SortQuick/SortMerge",
        "exhaustive claims hold for the constants of the cfg files only (V={1,2} or {1,2,3}, two sets, depth 3)",
        "Equal between an ordered and an unordered set with the same members is not judged; Order() on a populated "
        "unordered set (documented panic) and s.Equal(s) on a synchronized set (self-deadlock) are not exercised",
        "a call is declared non-terminating by a resource criterion (it allocated more than 64 MiB on a set of <= 6 elements), "
        "never by wall-clock time; a non-terminating call that does not allocate would surface as an infrastructure error",
        "linearizability is judged for Add/Delete/Check/Len/AddCheck/DeleteCheck; the iterator of a synchronized set under "
        "concurrent modification is a data-race question (C13) and is not judged here",
    ]
    binary = harness.build("vh-set")
    phases = rep.cov.setdefault("phase_s", {})
    if replay_file:
        obj = json.load(open(replay_file))["replay"]
        if "behaviour" in obj:
            common.capped_replay(rep, binary, ["replay"], [obj["behaviour"]["beh"]], shards=1, label="set")
        else:
            trace.validate_all(rep, COMP, "SetLinTrace", "SetLinTrace.cfg", [obj["history"]], label="set/concurrent", key_fn=key_fn)
        return

    # 1. behaviours of the abstract spec (TLC also checks the spec's own invariants and action properties:
    #    order is a permutation of the members, first-insertion order is stable, re-add does not move, sort sorts)
    sim = dict(comp=COMP, module="SetSpec", cfg="Set_sim.cfg", workers=1, depth=32, timeout=900)
    nsim, runs = (2, 60) if quick else (6, 500)
    sims = [("sim%d" % i, dict(sim, simulate=dict(num=runs), seed=seed * 100 + i)) for i in range(nsim)]
    jobs = [
        ("all", dict(comp=COMP, module="SetSpec", cfg="Set_all_quick.cfg" if quick else "Set_all3.cfg",
                     workers=2 if quick else 6, timeout=1500, heap="6g")),
        ("edge", dict(comp=COMP, module="SetSpec", cfg="Set_edge.cfg", workers=1 if quick else 2, timeout=900)),
    ]
    if not quick:
        jobs.append(("edge2", dict(comp=COMP, module="SetSpec", cfg="Set_edge2.cfg", workers=2, timeout=900)))
    notes = dict(all="every call sequence of length 3 (hist in the state)",
                 edge="one shortest behaviour per edge of the abstract state graph, V={1,2,3}, calls on A",
                 edge2="one shortest behaviour per edge, V={1,2}, calls on A and B")
    for name, _ in sims:
        notes[name] = "random behaviours of 30 calls, V={1,2,3}, ordered/unordered, synchronized or not"
    t0 = time.time()
    if quick:
        res = common.run_tlc_parallel(jobs + sims)        # 2 + 1 + 1 + 1 TLC workers
    else:
        res = common.run_tlc_parallel(jobs[1:])           # 2 + 2
        res.update(common.run_tlc_parallel(jobs[:1]))     # 6
        res.update(common.run_tlc_parallel(sims))         # 6 x 1
    phases["tlc"] = round(time.time() - t0, 1)
    behs = []
    rng = random.Random(seed)
    for name, _ in jobs + sims:
        r = res[name]
        rep.add_tlc("SetSpec/" + name, r, notes[name])
        if not r.ok:
            rep.infra_error("behaviour generation %s failed (%s): %s" % (name, r.violated, r.out[-1500:]))
            return
        b = replay.dedupe(r.tagged.get("BEH", []))
        if quick and name == "edge":
            rng.shuffle(b)
            b = b[:5000]
        behs += b
        del r.tagged["BEH"]
    rep.cov["exhaustive"] = True   # the depth-3 call sequences of Set_all*.cfg are enumerated completely
    t0 = time.time()
    common.capped_replay(rep, binary, ["replay"], behs, shards=8, label="set", nontrivial=_nontrivial, cap=2)
    phases["replay"] = round(time.time() - t0, 1)
    rep.sample(dict(kind="replayed behaviour (calls)", steps=_steps(behs[len(behs) // 3])))

    # self-test of the binding: a behaviour with a wrong expectation must be rejected
    good = next(b for b in behs if len(b) >= 3 and b[1]["op"] in ("add", "addcheck", "populate"))
    rc, outs, err = harness.run(binary, ["replay"], [dict(n=0, beh=good[:2])], timeout=60)
    ok1 = any(o.get("n") == 0 and o.get("ok") for o in outs if "begin" not in o)
    bad = copy.deepcopy(good[:2])
    bad[1]["st"][bad[1]["s"]]["m"] = []
    bad[1]["st"][bad[1]["s"]]["n"] = 0
    bad[1]["st"][bad[1]["s"]]["q"] = []
    rc, outs, err = harness.run(binary, ["replay"], [dict(n=0, beh=bad)], timeout=60)
    res0 = [o for o in outs if o.get("n") == 0 and "begin" not in o]
    rep.self_test("replayer accepts the behaviour and rejects it with a wrong expected state",
                  ok1 and bool(res0) and not res0[0].get("ok"), str(res0)[:200])

    t0 = time.time()
    # 2. code -> model: concurrent histories of a synchronized set, validated for linearizability
    n = 600 if quick else 9000
    shards = 6
    hists = []
    with cf.ThreadPoolExecutor(max_workers=shards) as ex:
        futs = [ex.submit(harness.run, binary, ["record", str(n // shards), str(seed * 1000 + i)], None, 600) for i in range(shards)]
        for f in futs:
            rc, outs, err = f.result()
            if rc != 0:
                rep.infra_error("recorder failed: " + err[-800:])
            hists += [o["hist"] for o in outs if "hist" in o]
    common.capped_validate_all(rep, COMP, "SetLinTrace", "SetLinTrace.cfg", hists, label="set/concurrent",
                               shards=4 if quick else 6, key_fn=key_fn)
    if hists:
        rep.sample(dict(kind="recorded concurrent history", events=hists[0][:10]))
        # binding self-test on a history without concurrency (a flipped value inside a concurrent run may still be
        # linearizable, which made this self-test flaky): addcheck(1) -> false, then check(1) must be "true"
        def seqhist(ans):
            return [dict(ev="config", ordered=0, seq=1),
                    dict(ev="call", id=1, op="addcheck", arg=1, t="t0", seq=2), dict(ev="ret", id=1, res="false", t="t0", seq=3),
                    dict(ev="call", id=2, op="check", arg=1, t="t0", seq=4), dict(ev="ret", id=2, res=ans, t="t0", seq=5),
                    dict(ev="final", n=1, items=[1], seq=6)]
        acc, r, info = trace.validate(COMP, "SetLinTrace", "SetLinTrace.cfg", [seqhist("true")])
        rep.self_test("trace spec accepts a correct sequential history", acc is True, str(info)[:200])
        acc, r, info = trace.validate(COMP, "SetLinTrace", "SetLinTrace.cfg", [seqhist("false")])
        rep.self_test("trace spec rejects a flipped return value", acc is False, str(info)[:200])
    phases["concurrent"] = round(time.time() - t0, 1)
    rep.cov["rule"] = ("behaviours = call sequences of SetSpec (all of length 3; one shortest per edge of the abstract graph "
                       "extended by a how-it-became-ordered ghost; random walks of 30 calls) replayed on real dt.Set values with "
                       "comparison of return value, Len, Check(v) for every v, iterator bag/sequence, Equal both ways, JSON form and "
                       "round trip after every call; non-trivial = at least 3 calls including a delete, sort or transfer; "
                       "histories = random concurrent runs of 3 goroutines on a synchronized set validated by SetLinTrace")
