"""Helpers shared by props/c18.py and props/c19.py (kept here because run/vlib is not ours to edit).

capped_replay is vlib.replay.replay with one difference: when many behaviours fail with the SAME key only
`cap` of them (the shortest) are re-run in isolation and reported; the others are counted in
rep.cov["further_failures_same_key"].  A defect reached by thousands of generated behaviours would otherwise
cost one process start per behaviour.  Soundness is unchanged: nothing is reported that did not reproduce in
isolation, and a key whose samples do not reproduce is an infrastructure error."""
import concurrent.futures as cf
import json

from vlib import harness, tlc


def run_tlc_parallel(jobs):
    """jobs: list of (name, kwargs for tlc.run_tlc as dict with comp/module/cfg) -> dict name -> result.
    The caller keeps the total number of TLC workers within the machine budget."""
    out = {}
    with cf.ThreadPoolExecutor(max_workers=len(jobs)) as ex:
        futs = {}
        for name, kw in jobs:
            kw = dict(kw)
            comp, module, cfg = kw.pop("comp"), kw.pop("module"), kw.pop("cfg")
            futs[name] = ex.submit(tlc.run_tlc, comp, module, cfg, **kw)
        for name, f in futs.items():
            out[name] = f.result()
    return out


def capped_replay(rep, binary, args, behaviours, *, shards=8, timeout=900, label="replay",
                  nontrivial=lambda b: True, env_extra=None, cap=2, size=len, wrap=True):
    """wrap=False (added for C19's scaled replays): every element of `behaviours` is already an input object
    {"beh": ..., further fields for the harness}; it is sent with "n" added, and `nontrivial` and the case
    accounting see the whole object (the same behaviour at another scale is another case); `size` still gets
    the "beh" part."""
    if not behaviours:
        rep.infra_error("%s: no behaviours to replay" % label)
        return []
    if wrap:
        items = [dict(n=i, beh=b) for i, b in enumerate(behaviours)]
    else:
        items = [dict(b, n=i) for i, b in enumerate(behaviours)]
    outs, meta = harness.run_sharded(binary, args, items, shards=shards, timeout=timeout, env_extra=env_extra)
    results, begun = {}, set()
    for o in outs:
        if "begin" in o:
            begun.add(o["begin"])
        elif "n" in o:
            results[o["n"]] = o
    crashed = sorted(begun - set(results))
    for rc, err in meta:
        # a process death that does not reproduce is not judged, but its signature is kept in the evidence
        for line in (err or "").splitlines():
            if line.startswith("fatal error:") or line.startswith("panic:"):
                sigs = rep.cov.setdefault("crash_signatures_seen", [])
                if line not in sigs and len(sigs) < 5:
                    sigs.append(line)
                break
    never = [i for i in range(len(items)) if i not in begun]
    suspects = [results[i] for i in sorted(results) if not results[i].get("ok")]
    for i in crashed[:20]:
        rc, o, err = harness.run(binary, args, [items[i]], timeout=300, env_extra=env_extra)
        got = [x for x in o if x.get("n") == i and "begin" not in x]
        if got:
            results[i] = got[0]
            if not got[0].get("ok"):
                suspects.append(got[0])
            else:
                rep.cov["unreproduced_crashes"] = rep.cov.get("unreproduced_crashes", 0) + 1
        else:
            tail = err[-3000:]
            if "github.com/tychoish/fun" in tail and ("panic:" in tail or "fatal error:" in tail):
                rep.violation(label + "/process-crash", "the process died while replaying this behaviour: " + tail[-1500:],
                              dict(behaviour=items[i], stderr=tail))
                results[i] = dict(n=i, ok=False)
            else:
                rep.infra_error("%s: behaviour %d kills the harness without a library frame: %s" % (label, i, tail[-500:]))
    if len(crashed) > 20:
        rep.infra_error("%s: %d behaviours killed their process" % (label, len(crashed)))
    if never:
        outs2, _ = harness.run_sharded(binary, args, [items[i] for i in never], shards=shards,
                                       timeout=timeout, env_extra=env_extra)
        for o in outs2:
            if "n" in o and "begin" not in o:
                results[o["n"]] = o
                if not o.get("ok"):
                    suspects.append(o)
    by_key = {}
    for s in suspects:
        by_key.setdefault(s.get("key", label + "/mismatch"), []).append(s)
    failures = []
    for key, group in sorted(by_key.items()):
        group.sort(key=lambda s: (size(items[s["n"]]["beh"]), s["n"]))
        reproduced = 0
        for s in group[:cap]:
            i = s["n"]
            rc, o, err = harness.run(binary, args, [items[i]], timeout=300, env_extra=env_extra)
            again = [x for x in o if x.get("n") == i and "begin" not in x]
            if again and not again[0].get("ok"):
                r = again[0]
                failures.append(r)
                reproduced += 1
                rep.violation(r.get("key", key), r.get("what", ""), dict(behaviour=items[i], result=r,
                              binary=binary.split("/")[-1], args=list(args)))
            else:
                rep.infra_error("%s: mismatch on behaviour %d did not reproduce in isolation: %s" % (label, i, json.dumps(s)[:400]))
        if len(group) > cap and reproduced:
            d = rep.cov.setdefault("further_failures_same_key", {})
            d[key] = d.get(key, 0) + len(group) - cap
    done = [items[i]["beh"] if wrap else behaviours[i] for i in results if results[i].get("ok")]
    rep.add_cases(done, nontrivial=nontrivial)
    trunc = sum(1 for r in results.values() if r.get("truncated"))
    if trunc:
        rep.cov["replayed_as_prefix_only"] = rep.cov.get("replayed_as_prefix_only", 0) + trunc
    missing = [i for i in range(len(items)) if i not in results]
    if missing:
        rep.infra_error("%s: %d behaviours produced no result" % (label, len(missing)))
    return failures


def capped_validate_all(rep, comp, module, cfg, histories, *, label, shards=6, timeout=900, key_fn=None, cap=3):
    """vlib.trace.validate_all, but at most `cap` rejected histories are isolated and reported; once the cap is
    reached the remaining histories of a rejected shard are left unvalidated (and not counted)."""
    from vlib import trace
    if not histories:
        rep.infra_error(label + ": no histories recorded")
        return
    shards = max(1, min(shards, len(histories)))
    parts = [histories[i::shards] for i in range(shards)]
    with cf.ThreadPoolExecutor(max_workers=shards) as ex:
        results = list(ex.map(lambda p: trace.validate(comp, module, cfg, p, timeout), parts))
    reported = 0
    work = list(zip(parts, results))
    while work:
        part, (acc, r, info) = work.pop(0)
        rep.add_tlc("%s/%s" % (module, cfg), r, "trace validation of %d histories" % len(part))
        if acc is None:
            rep.infra_error("%s: trace validation did not complete: %s" % (label, str(info)[:600]))
        elif acc:
            rep.add_cases(part, nontrivial=lambda h: len(h) > 6)
        else:
            if reported >= cap:
                rep.cov["rejected_shards_not_bisected"] = rep.cov.get("rejected_shards_not_bisected", 0) + 1
                continue
            hi, ei = trace.locate(part, info["at"])
            bad = part[hi]
            acc2, r2, info2 = trace.validate(comp, module, cfg, [bad], timeout)
            if acc2 is False:
                reported += 1
                key = key_fn(bad, info2) if key_fn else label + "/history-rejected"
                rep.violation(key, "history not explainable by %s: first unexplained event #%d %s" % (
                    module, info2["at"] - 1, json.dumps(info2["event"])[:300]), dict(history=bad, rejected_at=info2))
            else:
                rep.infra_error("%s: rejection did not reproduce on the single history" % label)
            rest = part[:hi] + part[hi + 1:]
            if rest and reported < cap:
                work.append((rest, trace.validate(comp, module, cfg, rest, timeout)))
