"""Deque half of C07 (called from c07.run)."""
from vlib import tlc, harness
from props import c07


def run(rep, tier, seed):
    quick = tier == "quick"
    qbin = harness.build("vh-queue")
    c07.stepped(rep, "deque", "DequeStep", "DequeLinTrace", qbin, "sched", quick, seed, "deque")
