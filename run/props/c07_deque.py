"""Deque half of C07 (called from c07.run)."""
from vlib import tlc, harness
from props import c07


def models(rep, tier):
    quick = tier == "quick"
    if c07.impl_models(rep, "deque", "DequeImpl", quick):
        r = tlc.run_tlc("deque", "DequeImpl", "MC_pingpong.cfg", workers=6, timeout=900)
        rep.add_tlc("DequeImpl/MC_pingpong.cfg", r, "two waiters on one cond (busy signalling): safety only")
        if not r.ok:
            rep.infra_error("DequeImpl/MC_pingpong.cfg failed: " + r.out[-800:])
        for cfg in ("MC_asis_popfirst.cfg", "MC_asis_signal.cfg", "MC_asis_close.cfg", "MC_asis_helper.cfg"):
            r = tlc.run_tlc("deque", "DequeImpl", cfg, workers=4, timeout=600)
            rep.self_test("DequeImpl/%s shows the pre-fix stuck waiter (NoStuck not vacuous)" % cfg, r.violated == "NoStuck", str(r.brief()))


def stepped(rep, tier, seed):
    quick = tier == "quick"
    qbin = harness.build("vh-queue")
    c07.stepped(rep, "deque", "DequeStep", "DequeLinTrace", qbin, "sched", quick, seed, "deque")
