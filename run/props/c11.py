"""C11 Orchestrator, Group, WorkerPool / HandlerWorkerPool, Cleanup: all submitted work runs, all errors are collected."""
import copy, json
from vlib import tlc, harness
from props import srv_common as sc

COMP = "srv"
BIN = "vh-srv"

# (module, quick edge cfgs, thorough edge cfgs, simulate cfg or None, quick sample of the edge behaviours, note)
PARTS = [
    ("OrchAbs", ["Orch_edge.cfg"], ["Orch_edge.cfg"], "Orch_sim.cfg", 900,
     "orchestrator: 2 members x {ok,error,panic} x {gate,ctx} x {new,running,finished}; add before start / while running / after cancel"),
    ("GroupAbs", ["Group_edge_q.cfg"], ["Group_edge.cfg", "Group_edge_pos.cfg"], "Group_sim.cfg", 700,
     "group: 3 members x outcome x mode x {new, already running, already finished} (up to renaming; thorough: 2 members in every "
     "position too); start, start with a member parked in its Start (yield point), cancel, close"),
    ("PoolAbs", ["Pool_edge_q.cfg", "Pool_edge_q2.cfg"], ["Pool_edge.cfg"], "Pool_sim.cfg", 900,
     "WorkerPool / HandlerWorkerPool: 3 jobs x outcome (incl. errors wrapping io.EOF / context errors), 1-2 workers, "
     "continue-on-error on/off (quick: WorkerPool with continue-on-error; HandlerWorkerPool with 2 workers)"),
    ("CleanupAbs", ["Cleanup_edge_q.cfg"], ["Cleanup_edge.cfg"], None, 900,
     "Cleanup service: 3 jobs x outcome (ok, error, panic, errors wrapping io.EOF / context errors), one worker per CPU with "
     "enough / 1 / 2 CPUs; add before start / while running / racing Close (burst); start with a cancelled context"),
]


def nontrivial(b):
    ops = [s["op"] for s in b["steps"]]
    return ("start" in ops or "starthold" in ops) and ("add" in ops or "burst" in ops or b["cfg"]["comp"] == "group") \
        and any(o in ops for o in ("cancel", "close", "finish", "burst"))


def generate(rep, quick, seed):
    """Behaviour generation for the four abstract specs, side by side (quick: <= 6 TLC workers)."""
    import concurrent.futures as cf
    jobs = []
    for mod, qedge, tedge, sim, _, note in PARTS:
        for cfg in (qedge if quick else tedge):
            jobs.append((mod, cfg, note, dict(workers=1, timeout=1500)))
        if sim:
            jobs.append((mod, sim, note + " - random deeper schedules with 4 units, all six outcome kinds",
                         dict(workers=1, timeout=1500, simulate=dict(num=150 if quick else 4000), depth=20, seed=seed)))
    # design level: implementation-shaped specs of the orchestrator's Run loop and of the Cleanup
    # service (fixed variants must satisfy C11; the as-is variants must show the two defects)
    impl = [("OrchImpl", "OrchMC.cfg", None, "orchestrator Run loop, 3 members x {new,running,finished}: StartedAtMostOnce AwaitedAll "
             "CollectsAll NoStranded WaitJustified + liveness Settles (fixed variant)"),
            ("OrchImpl", "OrchMC_asis.cfg", "AwaitedAll", "as-is variant: a service found running is awaited only until the orchestrator's context ends"),
            ("CleanupImpl", "CleanupMC.cfg", None, "Cleanup service, 3 jobs x {ok, failure, stop-signal error}, shutdown pool of 2 workers: "
             "AtMostOnce AllAcceptedRun AllSurfaced Completes + Settles (fixed variant)"),
            ("CleanupImpl", "CleanupMC_asis.cfg", "AllAcceptedRun", "as-is variant: jobs still queued when the context ends are dropped"),
            ("CleanupImpl", "CleanupMC_nocollect.cfg", "AllAcceptedRun", "variant whose processor returns the job's error to the worker group: "
             "an error wrapping io.EOF / a context error stops the pool before every accepted job ran"),
            ("CleanupImpl", "CleanupMC_nocollect2.cfg", "AllSurfaced", "same variant: that error is not reported by Wait")]
    with cf.ThreadPoolExecutor(max_workers=6) as ex:
        futs = [ex.submit(tlc.run_tlc, COMP, mod, cfg, **kw) for mod, cfg, note, kw in jobs]
        ifuts = [ex.submit(tlc.run_tlc, COMP, mod, cfg, workers=1, timeout=900) for mod, cfg, want, note in impl]
        results = [f.result() for f in futs]
        iresults = [f.result() for f in ifuts]
    out = {}
    ok = True
    for (mod, cfg, want, note), r in zip(impl, iresults):
        rep.add_tlc("%s/%s" % (mod, cfg), r, note)
        if want is None and not r.ok:
            rep.infra_error("model check of %s/%s failed (%s): spec and code must be re-aligned\n%s" % (mod, cfg, r.violated, r.out[-1500:]))
            ok = False
        elif want is not None:
            rep.self_test("%s is not vacuous (%s)" % (want, note), r.violated == want, str(r.brief()))
    for (mod, cfg, note, kw), r in zip(jobs, results):
        rep.add_tlc("%s/%s" % (mod, cfg), r, note)
        if not r.ok:
            rep.infra_error("behaviour generation %s/%s failed: %s" % (mod, cfg, r.out[-1500:]))
            ok = False
            continue
        out.setdefault(mod, {}).setdefault("sim" if "simulate" in kw else "edge", []).extend(r.tagged.get("BEH", []))
    if not ok:
        return None
    behs = []
    for mod, qedge, tedge, sim, nq, note in PARTS:
        e = sc.maximal(out[mod].get("edge", []))
        cap = nq if quick else (20000 if mod == "OrchAbs" else 15000)   # thorough: seeded sample of the larger covers
        behs += sc.sample(e, cap, seed)
        rep.cov.setdefault("edge_behaviours", {})[mod] = dict(maximal=len(e), replayed=min(len(e), cap))
        behs += out[mod].get("sim", [])
    return behs


def run(rep, tier, seed, replay_file=None):
    quick = tier == "quick"
    rep.assumptions += [
        "TLC is sound; the abstract specs spec/srv/{OrchAbs,GroupAbs,PoolAbs,CleanupAbs}.tla state C11 with the readings of DESIGN 5.0; "
        "pubsub.Queue (Remove / Wait / Close), sync.WaitGroup and Service Start/Wait/waitFor behave as modelled in OrchImpl.tla and CleanupImpl.tla",
        "a goroutine snapshot with no running/runnable goroutine is a fixed point (rt.Quiesce, DESIGN 3.3)",
        "readings: a service added after the orchestrator's context ended carries no obligation; found-running members are "
        "driven in gate mode (they return only when the driver says so); 'the group's own context' ends when the group's Run "
        "returns, so ctx-mode group members are not required to keep running after the start phase; pool obligations other "
        "than at-most-once are judged only while the pool runs (context live, no abort); accepted = Add returned nil before "
        "the shutdown event",
        "queues are unlimited; limited queues (Add may be refused) are not explored",
        "job / member outcomes: ok, plain error, panic, blocks-until-cancel, and errors wrapping io.EOF / context.Canceled / "
        "context.DeadlineExceeded.  The latter are failures like any other for Cleanup functions, Group and Orchestrator members "
        "and for what HandlerWorkerPool hands to its observer; for WorkerPool they are the worker group's documented stop signals "
        "(fun.WorkerGroupConf.CanContinueOnError: never observed, the group stops): such a job ends the regime 'the pool keeps "
        "running' and Wait() is not required to report its error",
        "Group: a member somebody else started before the group did (still running on its owner's context, or already finished) "
        "is not started again, is awaited and its failure collected - the orchestrator clause of C11 applied to 'awaits them all'",
        "Cleanup: jobs are invoked in the order of acceptance, min(accepted, returned + NumCPU) of them at quiescence; jobs, members "
        "and pool jobs are interchangeable, so the edge covers explore their configurations up to renaming (sorted along the names); "
        "Group member positions are varied by the random schedules and, thorough tier, by a 2-member cover without that reduction",
        "exhaustive claims hold for the constants of the cfg files only (edge cover: one shortest schedule per edge of the abstract state graph)",
    ]
    build = lambda: harness.build(BIN)
    if replay_file:
        if not sc.rerun_saved(rep, replay_file, build):
            rep.infra_error("replay file has no behaviour")
        return
    behs = generate(rep, quick, seed)
    if behs is None:
        return
    binary = build()
    env = {"GOMAXPROCS": str(2 + seed % 5)}
    # the Cleanup service's shutdown pool has runtime.NumCPU() workers: behaviours that fix that number are replayed by
    # a harness process pinned to as many CPUs ("ncpu=k", part of the saved replay arguments)
    groups = {}
    for i, b in enumerate(behs):
        groups.setdefault(b["cfg"]["workers"] if b["cfg"]["comp"] == "cleanup" else 0, []).append(i)
    results = {}
    for k in sorted(groups):
        idx = groups[k]
        _, res = sc.replay_collect(rep, binary, ["replay-c11"] + (["ncpu=%d" % k] if k else []), [behs[i] for i in idx],
                                   shards=8 if k == 0 else 4, env_extra=env, label="c11", nontrivial=nontrivial, timeout=2400)
        for j, r in res.items():
            results[idx[j]] = r
    pinned = [i for k, idx in groups.items() if k for i in idx]
    rep.self_test("pinning the harness to k CPUs gives the Cleanup service k workers (behaviours with a fixed number of CPUs are conclusive)",
                  bool(pinned) and all(i in results and not results[i].get("inconclusive") for i in pinned),
                  "%d behaviours" % len(pinned))
    by = {}
    for i, b in enumerate(behs):
        c = b["cfg"]["comp"]
        by.setdefault(c, [0, 0])
        by[c][0] += 1
        if i in results and results[i].get("ok") and not results[i].get("inconclusive"):
            by[c][1] += 1
    rep.cov["per_component"] = {c: dict(behaviours=v[0], conforming=v[1]) for c, v in by.items()}
    for c in ("orch", "cleanup"):
        s = next((b for b in behs if b["cfg"]["comp"] == c and len(b["steps"]) >= 5), None)
        if s:
            rep.sample(dict(kind="replayed behaviour (%s)" % c, behaviour=s))
    # self-tests of the binding: a wrong expectation must be rejected, for a count and for a Wait
    pick = next((b for b in behs if b["cfg"]["comp"] == "cleanup" and any(s["op"] == "start" for s in b["steps"])), None)
    if pick is None:
        rep.self_test("replayer rejects a wrong count expectation", False, "no cleanup behaviour")
    else:
        bad = copy.deepcopy(pick)
        k = next(i for i, s in enumerate(bad["steps"]) if s["op"] == "start")
        bad["steps"] = bad["steps"][:k + 1]
        name = bad["cfg"]["units"][0]["name"]
        bad["steps"][k]["exp"]["cnt"] = [dict(id=name, allow=[2])]
        nc = bad["cfg"]["workers"]
        rc, outs, err = harness.run(binary, ["replay-c11"] + (["ncpu=%d" % nc] if nc else []), [dict(n=0, beh=bad)], timeout=60)
        res = [o for o in outs if o.get("n") == 0 and "begin" not in o]
        rep.self_test("replayer rejects a wrong count expectation", bool(res) and not res[0].get("ok"),
                      str({k: v for k, v in (res[0] if res else {}).items() if k != "hist"})[:200])
    pick = next((b for b in behs if b["cfg"]["comp"] == "orch" and any(
        s["op"] == "wait" and any(a["k"] == "blocked" for o in s["exp"]["ops"] for a in o["allow"]) for s in b["steps"])), None)
    if pick is None:
        rep.self_test("replayer rejects a Wait expected to have returned while it is blocked", False, "no orchestrator behaviour")
    else:
        bad = copy.deepcopy(pick)
        k = next(i for i, s in enumerate(bad["steps"]) if s["op"] == "wait")
        bad["steps"] = bad["steps"][:k + 1]
        for o in bad["steps"][k]["exp"]["ops"]:
            o["allow"] = [dict(k="agg", must=[], pan="any", nil="any")]
        rc, outs, err = harness.run(binary, ["replay-c11"], [dict(n=0, beh=bad)], timeout=60)
        res = [o for o in outs if o.get("n") == 0 and "begin" not in o]
        rep.self_test("replayer rejects a Wait expected to have returned while it is blocked", bool(res) and not res[0].get("ok"),
                      str({k: v for k, v in (res[0] if res else {}).items() if k != "hist"})[:200])
    hooked = [i for i, b in enumerate(behs) if any(s["op"] == "relhold" for s in b["steps"])]
    concl = [i for i in hooked if i in results and not results[i].get("inconclusive")]
    rep.self_test("the yield point inside a member's Start is reached (group behaviours with relhold are conclusive)",
                  bool(hooked) and len(concl) >= 0.9 * len(hooked), "%d of %d" % (len(concl), len(hooked)))
    rep.cov["rule"] = ("behaviours = driver schedules of OrchAbs / GroupAbs / PoolAbs / CleanupAbs (add before start / while running / "
                       "racing shutdown / after cancel, start, cancel, close, release of gated members and jobs, Wait) over outcomes "
                       "{ok,error,panic,error wrapping io.EOF/context.Canceled/context.DeadlineExceeded} x {gate, blocks-until-cancel}, Group / "
                       "Orchestrator members new / already running / already finished, Cleanup with enough / 1 / 2 CPUs - edge cover of each abstract state graph (quick: seeded sample; "
                       "thorough: all) plus random deeper schedules with 4 units - replayed step by step against the real srv package "
                       "with harness-supplied services/jobs (counters, gates, scripted outcomes) and observation at quiescence; "
                       "non-trivial = started, with work submitted, and at least one shutdown / release step")
