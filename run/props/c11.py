"""C11 Orchestrator, Group, WorkerPool / HandlerWorkerPool, Cleanup: all submitted work runs, all errors are collected."""
import copy, json
from vlib import tlc, harness
from props import srv_common as sc

COMP = "srv"
BIN = "vh-srv"

# (module, edge cfg, simulate cfg or None, quick sample of the edge behaviours, note)
PARTS = [
    ("OrchAbs", "Orch_edge.cfg", "Orch_sim.cfg", 900,
     "orchestrator: 2 members x {ok,error,panic} x {gate,ctx} x {new,running,finished}; add before start / while running / after cancel"),
    ("GroupAbs", "Group_edge.cfg", "Group_sim.cfg", 600,
     "group: 3 members x outcome x mode; start, start with a member parked in its Start (yield point), cancel, close"),
    ("PoolAbs", "Pool_edge.cfg", "Pool_sim.cfg", 900,
     "WorkerPool / HandlerWorkerPool: 3 jobs x outcome, 1-2 workers, continue-on-error on/off"),
    ("CleanupAbs", "Cleanup_edge.cfg", None, 800,
     "Cleanup service: 3 jobs x outcome; add before start / while running / racing Close (burst); start with a cancelled context"),
]


def nontrivial(b):
    ops = [s["op"] for s in b["steps"]]
    return ("start" in ops or "starthold" in ops) and ("add" in ops or "burst" in ops or b["cfg"]["comp"] == "group") \
        and any(o in ops for o in ("cancel", "close", "finish", "burst"))


def generate(rep, quick, seed):
    """Behaviour generation for the four abstract specs, side by side (quick: <= 6 TLC workers)."""
    import concurrent.futures as cf
    jobs = []
    for mod, edge, sim, _, note in PARTS:
        if quick and mod == "PoolAbs":
            # quick tier: two smaller edge covers (WorkerPool with continue-on-error; HandlerWorkerPool)
            jobs.append((mod, "Pool_edge_q.cfg", note + " (quick subset: WorkerPool, continue-on-error)", dict(workers=1, timeout=1500)))
            jobs.append((mod, "Pool_edge_q2.cfg", note + " (quick subset: HandlerWorkerPool, 2 workers)", dict(workers=1, timeout=1500)))
        else:
            jobs.append((mod, edge, note, dict(workers=1, timeout=1500)))
        if sim:
            jobs.append((mod, sim, note + " - random deeper schedules with 4 units",
                         dict(workers=1, timeout=1500, simulate=dict(num=150 if quick else 4000), depth=20, seed=seed)))
    # design level: implementation-shaped specs of the orchestrator's Run loop and of the Cleanup
    # service (fixed variants must satisfy C11; the as-is variants must show the two defects)
    impl = [("OrchImpl", "OrchMC.cfg", None, "orchestrator Run loop, 3 members x {new,running,finished}: StartedAtMostOnce AwaitedAll "
             "CollectsAll NoStranded WaitJustified + liveness Settles (fixed variant)"),
            ("OrchImpl", "OrchMC_asis.cfg", "AwaitedAll", "as-is variant: a service found running is awaited only until the orchestrator's context ends"),
            ("CleanupImpl", "CleanupMC.cfg", None, "Cleanup service, 3 jobs: AtMostOnce AllAcceptedRun Completes + Settles (fixed variant)"),
            ("CleanupImpl", "CleanupMC_asis.cfg", "AllAcceptedRun", "as-is variant: jobs still queued when the context ends are dropped")]
    with cf.ThreadPoolExecutor(max_workers=6) as ex:
        futs = [ex.submit(tlc.run_tlc, COMP, mod, cfg, **kw) for mod, cfg, note, kw in jobs]
        ifuts = [ex.submit(tlc.run_tlc, COMP, mod, cfg, workers=1, timeout=900) for mod, cfg, want, note in impl]
        results = [f.result() for f in futs]
        iresults = [f.result() for f in ifuts]
    out = {}
    ok = True
    for (mod, cfg, want, note), r in zip(impl, iresults):
        rep.add_tlc("%s/%s" % (mod, cfg), r, note)
        if want is None and not r.ok:
            rep.infra_error("model check of %s/%s failed (%s): spec and code must be re-aligned\n%s" % (mod, cfg, r.violated, r.out[-1500:]))
            ok = False
        elif want is not None:
            rep.self_test("%s is not vacuous (%s)" % (want, note), r.violated == want, str(r.brief()))
    for (mod, cfg, note, kw), r in zip(jobs, results):
        rep.add_tlc("%s/%s" % (mod, cfg), r, note)
        if not r.ok:
            rep.infra_error("behaviour generation %s/%s failed: %s" % (mod, cfg, r.out[-1500:]))
            ok = False
            continue
        out.setdefault(mod, {}).setdefault("sim" if "simulate" in kw else "edge", []).extend(r.tagged.get("BEH", []))
    if not ok:
        return None
    behs = []
    for mod, edge, sim, nq, note in PARTS:
        e = sc.maximal(out[mod].get("edge", []))
        behs += sc.sample(e, nq if quick else 20000, seed)
        rep.cov.setdefault("edge_behaviours", {})[mod] = dict(maximal=len(e), replayed=min(len(e), nq if quick else 20000))
        behs += out[mod].get("sim", [])
    return behs


def run(rep, tier, seed, replay_file=None):
    quick = tier == "quick"
    rep.assumptions += [
        "TLC is sound; the abstract specs spec/srv/{OrchAbs,GroupAbs,PoolAbs,CleanupAbs}.tla state C11 with the readings of DESIGN 5.0; "
        "pubsub.Queue (Remove / Wait / Close), sync.WaitGroup and Service Start/Wait/waitFor behave as modelled in OrchImpl.tla and CleanupImpl.tla",
        "a goroutine snapshot with no running/runnable goroutine is a fixed point (rt.Quiesce, DESIGN 3.3)",
        "readings: a service added after the orchestrator's context ended carries no obligation; found-running members are "
        "driven in gate mode (they return only when the driver says so); 'the group's own context' ends when the group's Run "
        "returns, so ctx-mode group members are not required to keep running after the start phase; pool obligations other "
        "than at-most-once are judged only while the pool runs (context live, no abort); accepted = Add returned nil before "
        "the shutdown event",
        "queues are unlimited; limited queues (Add may be refused) are not explored",
        "exhaustive claims hold for the constants of the cfg files only (edge cover: one shortest schedule per edge of the abstract state graph)",
    ]
    build = lambda: harness.build(BIN)
    if replay_file:
        if not sc.rerun_saved(rep, replay_file, build):
            rep.infra_error("replay file has no behaviour")
        return
    behs = generate(rep, quick, seed)
    if behs is None:
        return
    binary = build()
    env = {"GOMAXPROCS": str(2 + seed % 5)}
    failures, results = sc.replay_collect(rep, binary, ["replay-c11"], behs, shards=8, env_extra=env,
                                          label="c11", nontrivial=nontrivial, timeout=2400)
    by = {}
    for i, b in enumerate(behs):
        c = b["cfg"]["comp"]
        by.setdefault(c, [0, 0])
        by[c][0] += 1
        if i in results and results[i].get("ok") and not results[i].get("inconclusive"):
            by[c][1] += 1
    rep.cov["per_component"] = {c: dict(behaviours=v[0], conforming=v[1]) for c, v in by.items()}
    for c in ("orch", "cleanup"):
        s = next((b for b in behs if b["cfg"]["comp"] == c and len(b["steps"]) >= 5), None)
        if s:
            rep.sample(dict(kind="replayed behaviour (%s)" % c, behaviour=s))
    # self-tests of the binding: a wrong expectation must be rejected, for a count and for a Wait
    pick = next((b for b in behs if b["cfg"]["comp"] == "cleanup" and any(s["op"] == "start" for s in b["steps"])), None)
    if pick is None:
        rep.self_test("replayer rejects a wrong count expectation", False, "no cleanup behaviour")
    else:
        bad = copy.deepcopy(pick)
        k = next(i for i, s in enumerate(bad["steps"]) if s["op"] == "start")
        bad["steps"] = bad["steps"][:k + 1]
        name = bad["cfg"]["units"][0]["name"]
        bad["steps"][k]["exp"]["cnt"] = [dict(id=name, allow=[2])]
        rc, outs, err = harness.run(binary, ["replay-c11"], [dict(n=0, beh=bad)], timeout=60)
        res = [o for o in outs if o.get("n") == 0 and "begin" not in o]
        rep.self_test("replayer rejects a wrong count expectation", bool(res) and not res[0].get("ok"),
                      str({k: v for k, v in (res[0] if res else {}).items() if k != "hist"})[:200])
    pick = next((b for b in behs if b["cfg"]["comp"] == "orch" and any(
        s["op"] == "wait" and any(a["k"] == "blocked" for o in s["exp"]["ops"] for a in o["allow"]) for s in b["steps"])), None)
    if pick is None:
        rep.self_test("replayer rejects a Wait expected to have returned while it is blocked", False, "no orchestrator behaviour")
    else:
        bad = copy.deepcopy(pick)
        k = next(i for i, s in enumerate(bad["steps"]) if s["op"] == "wait")
        bad["steps"] = bad["steps"][:k + 1]
        for o in bad["steps"][k]["exp"]["ops"]:
            o["allow"] = [dict(k="agg", must=[], pan="any", nil="any")]
        rc, outs, err = harness.run(binary, ["replay-c11"], [dict(n=0, beh=bad)], timeout=60)
        res = [o for o in outs if o.get("n") == 0 and "begin" not in o]
        rep.self_test("replayer rejects a Wait expected to have returned while it is blocked", bool(res) and not res[0].get("ok"),
                      str({k: v for k, v in (res[0] if res else {}).items() if k != "hist"})[:200])
    hooked = [i for i, b in enumerate(behs) if any(s["op"] == "relhold" for s in b["steps"])]
    concl = [i for i in hooked if i in results and not results[i].get("inconclusive")]
    rep.self_test("the yield point inside a member's Start is reached (group behaviours with relhold are conclusive)",
                  bool(hooked) and len(concl) >= 0.9 * len(hooked), "%d of %d" % (len(concl), len(hooked)))
    rep.cov["rule"] = ("behaviours = driver schedules of OrchAbs / GroupAbs / PoolAbs / CleanupAbs (add before start / while running / "
                       "racing shutdown / after cancel, start, cancel, close, release of gated members and jobs, Wait) over outcomes "
                       "{ok,error,panic} x {gate, blocks-until-cancel} - edge cover of each abstract state graph (quick: seeded sample; "
                       "thorough: all) plus random deeper schedules with 4 units - replayed step by step against the real srv package "
                       "with harness-supplied services/jobs (counters, gates, scripted outcomes) and observation at quiescence; "
                       "non-trivial = started, with work submitted, and at least one shutdown / release step")
