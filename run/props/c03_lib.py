"""Helpers of c03.py: the worker-group error contract (spec/pipeline/ErrContract*.tla, WorkersFault.tla,
WgErrCtl.tla, WgErrTrace.tla; harness/cmd/vh-wgerr)."""
import concurrent.futures as cf
import copy, json, os, random

from vlib import tlc, harness, replay, trace

COMP = "pipeline"
BINARY = "vh-wgerr"

IMPL_NOTE = ("C03 on the implementation-shaped worker group with failing user functions: NothingSwallowed NeverReported "
             "NilIffNoFailure AtMostOnce ContinueAll AbortedWorkerStops AbortBound NoStall AllDone; liveness Settles / Terminates")

IMPL_QUICK = [("WorkersFault", "MC_wf_pp.cfg"), ("WorkersFault", "MC_wf_map.cfg"), ("WorkersFault", "MC_wf_gen.cfg")]
# largest first, so that the three parallel TLC runs stay balanced
IMPL_FULL = [("WorkersFault", "MC_wf_%s_%s.cfg" % (c, s)) for c, s in (
    ("map", "wide"), ("map", "full"), ("pp", "wide"), ("pp", "full"), ("map", "live"), ("pp", "live"), ("gen", "wide"),
    ("map", "kinds"), ("gen", "full"), ("pp", "kinds"), ("gen", "live"), ("gen", "kinds"))]

# (module, cfg, invariant that MUST be violated, what it shows)
ASIS = [
    ("ErrContractMC", "EC_asis.cfg", "Refines", "as pinned: CanContinueOnError never consults ExcludedErrors"),
    ("WorkersFault", "MC_wf_asis_excl.cfg", "NeverReported", "as pinned: an excluded error reaches the collector"),
    ("WorkersFault", "MC_wf_pp_asis_abort.cfg", "AbortBound", "as pinned: ProcessParallel abort never cancels the group (ReadAll maps io.EOF to nil)"),
    ("WorkersFault", "MC_wf_map_asis_abort.cfg", "AbortBound", "as pinned: Map abort never cancels the group"),
    ("WorkersFault", "MC_wf_gen_asis_abort.cfg", "AbortBound", "as pinned: GenerateParallel abort never cancels the group"),
    ("WorkersFault", "MC_wf_gen_asis_paniceof.cfg", "AbortBound", "as committed in 4f757ff: GenerateParallel does not cancel when the aborting failure is a panic whose value is / wraps io.EOF"),
    ("WorkersFault", "MC_wf_gen_asis_noctxcheck.cfg", "AbortBound", "cancelling alone does not stop GenerateParallel: the generator is called without a context check"),
]
MUTS = [
    ("ErrContractMC", "EC_mut_nohandler.cfg", "Refines", "panic branch without o.ErrorHandler(err)"),
    ("ErrContractMC", "EC_mut_swap.cfg", "Refines", "default branch returns !ContinueOnError"),
    ("ErrContractMC", "EC_mut_ctxdefault.cfg", "Refines", "context errors reported by default"),
    ("ErrContractMC", "EC_mut_nopanicjoin.cfg", "Refines", "panic recovered without joining ErrRecoveredPanic"),
    ("ErrContractMC", "EC_mut_skipreported.cfg", "Refines", "ErrIteratorSkip reported"),
    ("ErrContractMC", "EC_mut_sentinelfirst.cfg", "Refines", "ErrIteratorSkip / io.EOF cases before the panic cases: a panic whose value is / wraps them is swallowed"),
    ("ErrContractMC", "EC_mut_ctxfirst.cfg", "Refines", "... and the context case too"),
    ("WorkersFault", "MC_wf_mut_sentinelfirst_eof.cfg", "NothingSwallowed", "panic(io.EOF) classified as end of input"),
    ("WorkersFault", "MC_wf_mut_sentinelfirst_skip.cfg", "AbortedWorkerStops", "panic(ErrIteratorSkip) classified as skip: abort mode keeps going"),
    ("WorkersFault", "MC_wf_mut_ctxfirst.cfg", "NothingSwallowed", "panic(context error) classified as a context error"),
    ("WorkersFault", "MC_wf_mut_resolver.cfg", "NothingSwallowed", "resolver wired to a different collector"),
    ("WorkersFault", "MC_wf_mut_swap.cfg", "AbortedWorkerStops", "continue / abort swapped"),
    ("WorkersFault", "MC_wf_mut_nohandler.cfg", "NothingSwallowed", "panic branch without o.ErrorHandler(err)"),
    ("WorkersFault", "MC_wf_mut_ctxdefault.cfg", "NeverReported", "context errors reported by default"),
    ("WorkersFault", "MC_wf_mut_skipreported.cfg", "NeverReported", "ErrIteratorSkip reported"),
    ("WorkersFault", "MC_wf_mut_nopanicjoin.cfg", "NothingSwallowed", "panic recovered without joining ErrRecoveredPanic"),
]

ASSUMPTIONS = [
    "TLC is sound; Go channels (rendezvous / close / select with ctx.Done), sync.Once, fun.WaitGroup and context "
    "cancellation behave as modelled in spec/pipeline/WorkersFault.tla (DESIGN 3.1, Appendix A)",
    "a goroutine snapshot with no running/runnable goroutine, seen twice in a row with the same observations, is a "
    "fixed point of the real run (rt.Quiesce, vh-wgerr settle)",
    "readings (DESIGN 5.0): 'reported' = errors.Is on the returned error / Close() of the output finds the injected "
    "sentinel - or, where the caller supplied its own collector (custom ErrorHandler/ErrorResolver), on what that "
    "collector resolves to; ErrCurrentOpAbort is unconstrained; whether io.EOF / a context error / an excluded error in "
    "abort mode returned by the user function stops anybody is unconstrained; ErrIteratorSkip must be continued after only "
    "with ContinueOnError; a context error with IncludeContextExpirationErrors must be reported",
    "the abort bound is judged on gated schedules only: when the failing user function has returned and the library is "
    "quiescent every other user function is held; they are released one at a time to quiescence and the items started "
    "from then on are counted (at most k allowed).  In free-running histories the bound is not judged",
    "exhaustive claims hold for the constants of the cfg files only (WorkersFault: n<=3,k<=2 with <=2 failures, n<=4,k<=3 "
    "in the thorough tier; option x kind x collector x construct matrix complete for one worker and three items); the "
    "interleavings between two driver steps are sampled by the Go scheduler, not enumerated",
    "sources are finite slices; user functions ignore the context and return / panic when released; a context error "
    "'returned by the user function' is context.Canceled returned while the group's context is live",
    "panic values covered: an error, a string, a struct, and values that are / wrap io.EOF, ErrIteratorSkip, "
    "context.Canceled, the excluded sentinel, ErrCurrentOpAbort (these panics must be reported with ErrRecoveredPanic; "
    "whether errors.Is then also finds the wrapped never-reported sentinel is not judged); panic([]error{...}) (ers.ParsePanic joins the errors WITHOUT "
    "ErrRecoveredPanic) is outside the kinds the property enumerates and is not explored",
]


def run_models(rep, jobs, note, *, par=3, workers=2, timeout=1500):
    """Model-check the design-level specs.  A failure is infrastructure trouble (spec and code must be
    re-aligned), never a verdict about the code."""
    def one(job):
        return job, tlc.run_tlc(COMP, job[0], job[1], workers=workers, timeout=timeout)
    ok = True
    with cf.ThreadPoolExecutor(max_workers=par) as ex:
        for job, r in ex.map(one, jobs):
            rep.add_tlc("%s/%s" % job, r, note)
            if not r.ok:
                ok = False
                rep.infra_error("model check of %s/%s failed (%s): spec and code must be re-aligned\n%s" % (
                    job[0], job[1], r.violated, r.out[-1200:]))
    return ok


def run_expected_violations(rep, muts, *, par=4):
    def one(m):
        return m, tlc.run_tlc(COMP, m[0], m[1], workers=1, timeout=300)
    with cf.ThreadPoolExecutor(max_workers=par) as ex:
        for m, r in ex.map(one, muts):
            rep.self_test("%s/%s: model violates %s (%s)" % (m[0], m[1], m[2], m[3]), r.violated == m[2], str(r.brief()))


def cells(rep):
    """The option x kind matrix: TLC checks Classify [= Contract on every cell (with ExcludedErrors consulted, as
    committed in 4f757ff) and prints the cells."""
    r = tlc.run_tlc(COMP, "ErrContractMC", "EC_fixed.cfg", workers=1, timeout=300)
    rep.add_tlc("ErrContractMC/EC_fixed.cfg", r, "Classify (transcription of the recover wrappers + CanContinueOnError, with "
                "ExcludedErrors consulted) refines Contract (property C03) on all 16 kinds x 2^4 options")
    if not r.ok:
        rep.infra_error("ErrContractMC/EC_fixed.cfg failed (%s): %s" % (r.violated, r.out[-1200:]))
        return []
    return replay.dedupe(r.tagged.get("CELL", []))


def gen(rep, cfg, note, *, simulate=None, depth=None, seed=None, workers=2, timeout=900):
    r = tlc.run_tlc(COMP, "WgErrCtl", cfg, workers=1 if simulate else workers, simulate=simulate, depth=depth,
                    seed=seed, timeout=timeout)
    if not simulate:
        rep.add_tlc("WgErrCtl/" + cfg, r, note)
    if not r.ok:
        rep.infra_error("behaviour generation %s failed: %s" % (cfg, r.out[-1500:]))
        return []
    return replay.dedupe(r.tagged.get("BEH", []))


def sample(behs, n, seed):
    behs = list(behs)
    random.Random(seed).shuffle(behs)
    return behs[:n]


def stratified_by(behs, key, per, seed):
    """`per` behaviours of every class `key(b)` (seeded choice): no class of the enlarged matrix is left to chance"""
    rnd = random.Random(seed)
    groups = {}
    for b in behs:
        groups.setdefault(key(b), []).append(b)
    out = []
    for k in sorted(groups):
        g = groups[k]
        rnd.shuffle(g)
        out += g[:per]
    return out


def fault_class(b):
    """construct x kinds of the failing items"""
    return (b["cfg"]["c"], tuple(sorted(f["kind"] for f in b["cfg"]["faults"])))


def stratified(behs, per, seed):
    """per construct, `per` of the shortest schedules (seeded choice among equally long ones): in the abort
    scenarios these are the ones in which the failure comes while most of the input is still unread"""
    rnd = random.Random(seed)
    groups = {}
    for b in behs:
        groups.setdefault(b["cfg"]["c"], []).append(b)
    out = []
    for c in sorted(groups):
        g = groups[c]
        rnd.shuffle(g)
        g.sort(key=lambda b: len(b["steps"]))
        out += g[:per]
    return out


def nontrivial(b):
    """at least one item fails, or a user function is released while others are held"""
    return bool(b["cfg"]["faults"]) or any(s["op"] == "rel" for s in b["steps"])


def _results(outs):
    res, begun = {}, set()
    for o in outs:
        if "begin" in o:
            begun.add(o["begin"])
        elif "n" in o:
            res[o["n"]] = o
    return res, begun


def replay_all(rep, binary, mode, items, *, shards=6, env=None, label="wgerr", per_key=2, timeout=1200,
               max_inconclusive=0.05, count=True):
    """Run `items` ({"n":i, ...}) through `vh-wgerr <mode>`; every failing item class (key) is re-run in
    isolation (up to per_key items per key) before it is reported.  Returns {n: result} of the first pass."""
    if not items:
        rep.infra_error("%s: nothing to replay" % label)
        return {}
    outs, meta = harness.run_sharded(binary, [mode], items, shards=shards, timeout=timeout, env_extra=env)
    res, begun = _results(outs)
    byn = {it["n"]: it for it in items}
    missing = [n for n in byn if n not in res]
    # a behaviour begun without a result killed its process; behaviours after it in the shard never began
    crashed = [n for n in missing if n in begun]
    never = [n for n in missing if n not in begun]
    if never:
        outs2, _ = harness.run_sharded(binary, [mode], [byn[n] for n in never], shards=shards, timeout=timeout, env_extra=env)
        r2, b2 = _results(outs2)
        res.update(r2)
        crashed += [n for n in never if n not in r2 and n in b2]
    for n in crashed[:3]:
        rc, o, err = harness.run(binary, [mode], [byn[n]], timeout=120, env_extra=env)
        r1, _ = _results(o)
        if n in r1:
            res[n] = r1[n]
            rep.cov["unreproduced_crashes"] = rep.cov.get("unreproduced_crashes", 0) + 1
            continue
        tail = err[-3000:]
        c = byn[n].get("beh", {}).get("cfg", {}).get("c", "classify")
        if "github.com/tychoish/fun" in tail and ("panic:" in tail or "fatal error:" in tail):
            rep.violation("wgerr/%s/escaped-as-panic" % c, "the process died while replaying this behaviour (a failure of the "
                          "user function escaped as a panic): " + tail[-1500:], dict(item=byn[n], mode=mode, stderr=tail))
        else:
            rep.infra_error("%s: item %d kills the harness without a library frame: %s" % (label, n, tail[-500:]))
    suspects = {}
    for n in sorted(res):
        if not res[n].get("ok"):
            suspects.setdefault(res[n].get("key", label + "/mismatch"), []).append(n)
    for key, ns in sorted(suspects.items()):
        reproduced = 0
        for n in ns[:per_key]:
            rc, o, err = harness.run(binary, [mode], [byn[n]], timeout=120, env_extra=env)
            r1, _ = _results(o)
            again = r1.get(n)
            if again is not None and not again.get("ok"):
                reproduced += 1
                slim = {k: v for k, v in again.items() if k != "hist"}
                rep.violation(again.get("key", key), "%s  [%d of %d replayed items fail with this key]" % (again.get("what", ""), len(ns), len(items)),
                              dict(item=byn[n], mode=mode, result=slim, history=again.get("hist")))
        if not reproduced:
            rep.infra_error("%s: mismatch %s on item %d did not reproduce in isolation: %s" % (
                label, key, ns[0], json.dumps({k: v for k, v in res[ns[0]].items() if k != "hist"})[:400]))
        rep.cov.setdefault("failing_items_by_key", {})[key] = len(ns)
    inconclusive = [r for r in res.values() if r.get("inconclusive")]
    rep.cov["inconclusive"] = rep.cov.get("inconclusive", 0) + len(inconclusive)
    if len(inconclusive) > max_inconclusive * max(1, len(items)):
        rep.infra_error("%s: %d of %d items inconclusive (e.g. %s)" % (label, len(inconclusive), len(items), inconclusive[0].get("inconclusive")))
    diverged = [r for r in res.values() if r.get("diverged")]
    rep.cov["schedules_diverged_from_reference_run"] = rep.cov.get("schedules_diverged_from_reference_run", 0) + len(diverged)
    still = [n for n in byn if n not in res and n not in crashed]
    if still:
        rep.infra_error("%s: %d items produced no result" % (label, len(still)))
    if count:
        done = [byn[n].get("beh", byn[n].get("cell")) for n in res if res[n].get("ok") and not res[n].get("inconclusive")]
        rep.add_cases(done, nontrivial=(nontrivial if mode == "replay" else (lambda c: c["kind"] != "ok")))
    return res


# ---------------------------------------------------------------------------- trace validation

def key_fn(hist, info):
    c = hist[0].get("c", "?") if hist and hist[0].get("ev") == "reset" else "?"
    return "wgerr/%s/%s" % (c, info.get("why", "history-rejected"))


def record(rep, binary, n, seed, shards=4):
    hists = []
    with cf.ThreadPoolExecutor(max_workers=shards) as ex:
        futs = [ex.submit(harness.run, binary, ["record", str(max(1, n // shards)), str(seed * 1000 + i)], None, 600,
                          {"GOMAXPROCS": str(1 + (seed + i) % 4)}) for i in range(shards)]
        for f in futs:
            rc, outs, err = f.result()
            if rc != 0:
                tail = err[-3000:]
                if "github.com/tychoish/fun" in tail and ("panic:" in tail or "fatal error:" in tail):
                    rep.violation("wgerr/free-run/escaped-as-panic", "the recorder died: a failure of a user function escaped "
                                  "as a panic: " + tail[-1500:], dict(stderr=tail))
                else:
                    rep.infra_error("recorder failed: " + tail[-800:])
            hists += [o["hist"] for o in outs if "hist" in o]
    return hists


def validate(rep, hists, *, shards=6, label="wgerr/trace"):
    trace.validate_all(rep, COMP, "WgErrTrace", "WgTrace.cfg", hists, label=label, shards=shards, key_fn=key_fn)


# ---------------------------------------------------------------------------- self-tests of the binding

def _first(behs, pred):
    for b in behs:
        if pred(b):
            return copy.deepcopy(b)
    return None


def binding_self_tests(rep, binary, behs, hists):
    """Feed the replayer behaviours with a deliberately wrong expectation and TLC histories with one corrupted
    field: each must be rejected, with the right key."""
    tests = []
    # 1. a reported error declared "never to be found"
    b = _first(behs, lambda b: b["cfg"]["coe"] and len(b["cfg"]["faults"]) == 1 and b["cfg"]["faults"][0]["kind"] == "err")
    if b:
        f = b["cfg"]["faults"][0]
        b["cfg"]["never"] = b["cfg"]["never"] + f["need"]
        tests.append(("an error found in the result that the (falsified) spec says must never be found",
                      "wgerr/%s/never-reported-error-found/%s" % (b["cfg"]["c"], f["need"][0]), b))
    # 2. a failure the run continues after declared "must abort"
    b = _first(behs, lambda b: b["cfg"]["coe"] and b["cfg"]["n"] >= 3 and b["cfg"]["k"] == 1 and len(b["cfg"]["faults"]) == 1
               and b["cfg"]["faults"][0]["kind"] == "err" and b["cfg"]["faults"][0]["item"] == 1)
    if b:
        b["cfg"]["faults"][0]["cont"] = "mustnot"
        b["cfg"]["full"] = False
        b["steps"] = [dict(op="start", arg=0, chk=True, held=[1]), dict(op="rel", arg=1, chk=True, held=[]),
                      dict(op="drain", arg=0, chk=True, held=[])]
        tests.append(("a worker that goes on after a failure the (falsified) spec says must abort",
                      "wgerr/%s/abort/failing-worker-takes-next-item" % b["cfg"]["c"], b))
    # 3. a sentinel the result cannot contain declared "needed"
    b = _first(behs, lambda b: len(b["cfg"]["faults"]) == 1 and b["cfg"]["faults"][0]["kind"] == "err")
    if b:
        b["cfg"]["faults"][0]["need"] = ["PANIC"]
        tests.append(("a needed sentinel that errors.Is does not find", "wgerr/%s/swallowed/err" % b["cfg"]["c"], b))
    # 4. an aborted run declared complete
    b = _first(behs, lambda b: not b["cfg"]["coe"] and b["cfg"]["k"] == 1 and b["cfg"]["n"] >= 2 and len(b["cfg"]["faults"]) == 1
               and b["cfg"]["faults"][0]["kind"] == "err" and b["cfg"]["faults"][0]["item"] == 1)
    if b:
        b["cfg"]["full"] = True
        tests.append(("items left unprocessed although the (falsified) spec says every item is processed",
                      "wgerr/%s/continue/item-not-processed" % b["cfg"]["c"], b))
    if len(tests) < 4:
        rep.self_test("replayer self-tests could be built", False, "only %d of 4 templates found among the behaviours" % len(tests))
    items = [dict(n=i, beh=t[2]) for i, t in enumerate(tests)]
    if items:
        rc, outs, err = harness.run(binary, ["replay"], items, timeout=120, env_extra={"GOMAXPROCS": "1"})
        res, _ = _results(outs)
        for i, (name, key, _) in enumerate(tests):
            r = res.get(i, {})
            rep.self_test("replayer rejects: " + name, (not r.get("ok", True)) and r.get("key") == key,
                          json.dumps({k: v for k, v in r.items() if k not in ("hist", "cfg")})[:300])
    # TLC must reject corrupted histories
    jobs = []

    def corrupt(pred, change, name, why):
        for h in hists:
            if pred(h):
                bad = copy.deepcopy(h)
                change(bad)
                jobs.append((name, why, bad))
                return
        rep.self_test("trace self-test could be built: " + name, False, "no suitable recorded history")

    def has_kind(h, kind):
        return any(e.get("ev") == "cb_exit" and e.get("kind") == kind for e in h)

    def res_of(h):
        return [e for e in h if e.get("ev") == "result"][0]

    def drop_e(h):
        r = res_of(h)
        r["is"] = [s for s in r["is"] if not s.startswith("E")]

    def make_ok(h):
        for e in h:
            if e.get("ev") == "cb_exit" and e.get("kind") == "err":
                e["kind"] = "ok"

    def dup_enter(h):
        i = [j for j, e in enumerate(h) if e.get("ev") == "cb_enter"][0]
        h.insert(i + 1, dict(h[i]))

    corrupt(lambda h: has_kind(h, "err") and any(s.startswith("E") for s in res_of(h)["is"]), drop_e,
            "the injected error removed from the recorded errors.Is table", "swallowed")
    corrupt(lambda h: has_kind(h, "err") and not res_of(h)["nil"] and sum(1 for e in h if e.get("ev") == "cb_exit" and e.get("kind") != "ok") == 1,
            make_ok, "a recorded failure turned into a success (result non-nil without a failure)", "non-nil-without-failure")
    corrupt(lambda h: any(e.get("ev") == "cb_enter" for e in h), dup_enter, "a user-function call duplicated", "item-processed-twice")

    def one(job):
        return job, trace.validate(COMP, "WgErrTrace", "WgTrace.cfg", [job[2]], timeout=300)
    with cf.ThreadPoolExecutor(max_workers=3) as ex:
        for (name, why, _), (acc, r, info) in ex.map(one, jobs):
            rep.self_test("trace spec rejects: " + name, acc is False and (info or {}).get("why") == why, str(info)[:300])


# ---------------------------------------------------------------------------- --replay

def attach_origin(rep, origin):
    """Violations reported by trace.validate_all carry only the rejected history; add what is needed to
    re-execute the case (the replayed item, or the recorder's arguments)."""
    for j, (key, what, rp) in enumerate(rep.violations):
        if isinstance(rp, dict) and "history" in rp and "item" not in rp and "record" not in rp:
            o = origin.get(id(rp["history"]))
            if o:
                rp = dict(rp)
                rp.update(o)
                rep.violations[j] = (key, what, rp)


def replay_saved(rep, path):
    """python3 run/check.py C03 --replay <path>: re-run one saved failing case."""
    obj = json.load(open(path))
    rp = obj["replay"]
    rep.level = "other"
    rep.cov["explanation"] = ("replay mode: one saved failing case (%s) re-executed against the current tree; run the check "
                              "without --replay for the evidence of the property" % os.path.basename(path))
    rep.cov["rule"] = "re-run of one saved failing case"
    binary = harness.build(BINARY)

    def judge(hists, what):
        acc, r, info = trace.validate(COMP, "WgErrTrace", "WgTrace.cfg", hists, timeout=300)
        rep.add_tlc("WgErrTrace/WgTrace.cfg", r, what)
        if acc is False:
            rep.violation(obj["key"], "still rejected by WgErrTrace: " + json.dumps(info)[:300], rp)
        elif acc is None:
            rep.infra_error("trace validation did not complete: " + str(info)[:500])

    if "item" in rp:
        item, mode = rp["item"], rp.get("mode", "replay")
        rep.add_cases([item])
        rep.sample(dict(kind="saved " + mode + " case", item=item))
        rc, outs, err = harness.run(binary, [mode], [item], timeout=300, env_extra={"GOMAXPROCS": "1"})
        res, _ = _results(outs)
        r = res.get(item["n"])
        if r is None:
            tail = err[-3000:]
            if "github.com/tychoish/fun" in tail and ("panic:" in tail or "fatal error:" in tail):
                rep.violation(obj["key"], "reproduced: the process died: " + tail[-1200:], rp)
            else:
                rep.infra_error("replay produced no result: " + tail[-500:])
            return
        rep.sample(dict(kind="result of the re-run", result={k: v for k, v in r.items() if k != "hist"}))
        if not r.get("ok"):
            rep.violation(r.get("key", obj["key"]), r.get("what", ""), rp)
        elif r.get("inconclusive"):
            rep.infra_error("the re-run was inconclusive: " + str(r.get("inconclusive")))
        elif rp.get("judge") == "trace" and r.get("hist"):
            judge([r["hist"]], "history of the re-executed schedule")
    elif "record" in rp:
        n, seed = rp["record"]
        hists = record(rep, binary, n, seed)
        rep.add_cases(hists)
        rep.sample(dict(kind="re-recorded free-running histories", args=rp["record"], count=len(hists)))
        if hists:
            judge(hists, "free-running histories re-recorded with the saved arguments")
    elif "history" in rp:
        rep.add_cases([rp["history"]])
        rep.sample(dict(kind="saved history", events=rp["history"][:12]))
        judge([rp["history"]], "re-validation of the saved history (data: it is not re-recorded)")
    else:
        rep.infra_error("unknown replay file format")
