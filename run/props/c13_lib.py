"""C13 helpers: the guard-probe build of vh-race, race-report parsing, job runners.

Nothing here issues a verdict: reports are parsed into facts (which two functions of the
library accessed the same word without ordering), c13.py turns them into trace events that
TLC judges against spec/lock/LockTrace.tla and re-runs every candidate in isolation."""
import json, os, re, subprocess, zlib, concurrent.futures as cf

from vlib import harness

LIB = "github.com/tychoish/fun"
GORACE = "halt_on_error=0 atexit_sleep_ms=0 history_size=3"


# ---------------------------------------------------------------- builds
def build_guard(race=False, timeout=900):
    """vh-race with -tags verif,c13guard: compiles only when the repository under test carries the
    verifGuard hooks (fixes/hook-c13-guard-probes.addonly.diff).  Returns the binary path or None (hooks
    absent - the probes are then 'not available', never an error).  Mirrors harness.build
    (VERIF_REPO -> alternative modfile)."""
    os.makedirs(harness.BIN, exist_ok=True)
    out = os.path.join(harness.BIN, "vh-race-guard" + ("-race" if race else ""))
    args = ["go", "build", "-trimpath", "-tags", "verif,c13guard", "-o", out]
    alt = os.environ.get("VERIF_REPO")
    if alt:
        tag = str(zlib.crc32(os.path.abspath(alt).encode()))
        out = out + "-alt" + tag
        args[6] = out
        modfile = os.path.join(harness.BIN, "alt%s.mod" % tag)
        with open(modfile, "w") as fh:
            fh.write("module verif/harness\n\ngo 1.20\n\nrequire github.com/tychoish/fun v0.0.0\n\n"
                     "replace github.com/tychoish/fun => %s\n" % os.path.abspath(alt))
        open(os.path.join(harness.BIN, "alt%s.sum" % tag), "a").close()
        args += ["-modfile", modfile]
    if race:
        args.append("-race")
    args.append("./cmd/vh-race")
    for attempt in range(3):
        p = subprocess.run(args, cwd=harness.HARNESS, env=harness.goenv(), stdout=subprocess.PIPE,
                           stderr=subprocess.STDOUT, text=True, timeout=timeout)
        # a build cache entry removed under a running build (cache trimming on a shared machine): build again
        if p.returncode == 0 or not ("go-build" in p.stdout and "no such file or directory" in p.stdout):
            break
    if p.returncode == 0:
        return out, ""
    if "VerifGuardHook" in p.stdout:
        return None, "guard hooks absent in the repository under test"
    raise harness.InfraError("guard build of vh-race failed for another reason than missing hooks:\n" + p.stdout[-3000:])


# ---------------------------------------------------------------- race reports
_HDR = re.compile(r"^(Read|Write|Previous read|Previous write|Atomic read|Atomic write|Previous atomic read|"
                  r"Previous atomic write) at (0x[0-9a-f]+) by (main goroutine|goroutine \d+)")


def simplify(fn):
    """github.com/tychoish/fun/pubsub.(*Queue[go.shape.int]).doAdd() -> pubsub.Queue.doAdd"""
    fn = fn.strip()
    if fn.endswith("()"):
        fn = fn[:-2]
    while True:                      # drop type arguments, innermost first
        new = re.sub(r"\[[^\[\]]*\]", "", fn)
        if new == fn:
            break
        fn = new
    fn = fn.replace("(*", "").replace(")", "").replace("(", "")
    if fn.startswith(LIB + "/"):
        fn = fn[len(LIB) + 1:]
    elif fn.startswith(LIB + "."):
        fn = "fun." + fn[len(LIB) + 1:]
    # the three implementations of the queueLimitTracker interface (pubsub/tracker.go) are one cell
    fn = re.sub(r"pubsub\.queue(NoLimitTrackerImpl|HardLimitTracker|LimitTrackerImpl)\.", "pubsub.queueLimitTracker.", fn)
    return fn


def parse_reports(text):
    """-> list of dict(accesses=[dict(kind, frames=[function names innermost first], restored=bool)], raw=str)"""
    reps = []
    blocks = text.split("==================")
    for b in blocks:
        if "WARNING: DATA RACE" not in b:
            continue
        accesses, cur = [], None
        for line in b.splitlines():
            m = _HDR.match(line)
            if m:
                cur = dict(kind=m.group(1), frames=[], files=[], restored=True)
                accesses.append(cur)
                continue
            if cur is None:
                continue
            if not line.strip():
                cur = None
                continue
            if "failed to restore the stack" in line:
                cur["restored"] = False
                continue
            if line.startswith("      "):      # "      <file>:<line> +0x..": the location of the frame above
                if cur["frames"]:
                    cur["files"][-1] = line.strip().split(" ")[0].rsplit(":", 1)[0]
            elif line.startswith("  "):
                cur["frames"].append(line.strip())
                cur["files"].append("")
        reps.append(dict(accesses=accesses[:2], raw=b.strip()[:6000]))
    return reps


def lib_name(fn, path):
    """Name of a library frame.  A generic function of the library instantiated for a type of another package
    carries that package's symbol prefix (main.init.7.func3.Processor[go.shape.int].Once.4, located in
    github.com/tychoish/fun@v0.0.0/process.go): it is named after the library package of its file."""
    if fn.startswith(LIB):
        return simplify(fn)
    name = simplify(fn).split(".")
    name = name[1:]                                       # the instantiating package
    while name and re.fullmatch(r"init|\d+|func\d+|gowrap\d+|deferwrap\d+", name[0]):
        name = name[1:]
    rel = path.split("@", 1)[1].split("/", 1)[1] if "@" in path else path.rsplit("tychoish/fun/", 1)[-1]
    pkg = os.path.dirname(rel).replace("/", ".") or "fun"
    return pkg + "." + ".".join(name)


def in_library(fn, path, lib_prefixes):
    if any(fn.startswith(p) for p in lib_prefixes):
        return True
    return LIB in lib_prefixes and (path.startswith(LIB + "@") or path.startswith("/repo/"))


def classify(rep, lib_prefixes=(LIB,)):
    """A report counts against the library only when BOTH racing accesses were performed on a stack
    that contains a library frame (the harness shares nothing but the object under test, so an
    access reached through the library is the library's).  Returns (verdict, key, functions):
    verdict in {'library', 'incomplete', 'foreign'}."""
    acc = rep["accesses"]
    if len(acc) < 2 or not all(a["restored"] and a["frames"] for a in acc):
        return "incomplete", None, []
    inner = []
    for a in acc:
        libf = [(f, p) for f, p in zip(a["frames"], a["files"]) if in_library(f, p, lib_prefixes)]
        if not libf:
            return "foreign", None, []
        inner.append(lib_name(*libf[0]) if LIB in lib_prefixes else simplify(libf[0][0]))
    key = "race/" + "+".join(sorted(inner))
    return "library", key, inner


_MARK = re.compile(r"^@@C13 (BEGIN|END|STUCK)\s*(\S*)")


def split_by_job(stderr):
    """-> dict job n -> stderr text printed between its markers; key None = outside any job"""
    out, cur = {}, None
    for line in stderr.splitlines():
        m = _MARK.match(line)
        if m:
            if m.group(1) == "BEGIN":
                cur = int(m.group(2))
            elif m.group(1) == "END":
                cur = None
            continue
        out.setdefault(cur, []).append(line)
    return {k: "\n".join(v) for k, v in out.items()}


def crash_kind(text):
    """A process that died inside a job: what killed it.  The runtime's own detector of unsynchronised map
    access ("fatal error: concurrent map iteration and map write") prints while the race detector may be
    printing a report on the same stream, so the two texts can be interleaved."""
    if "fatal error:" in text:
        m = re.search(r"concurrent map (iteration and map write|read and map write|writes)", text)
        if m:
            return "crash/concurrent-map-" + m.group(1).replace(" ", "-")
        m = re.search(r"fatal error: ([^\n=]+)", text)
        if m:
            return "crash/" + m.group(1).strip().replace(" ", "-")[:60]
        return "crash/fatal-error"
    m = re.search(r"^panic: ([^\n]*)", text, re.M)
    if m:
        return "crash/panic"
    return None


# ---------------------------------------------------------------- running jobs
def run_jobs(binary, mode, jobs, timeout=900, gomaxprocs=4):
    """Run the jobs of one shard in one process; when the process dies inside job n, record that and
    continue with the rest in a new process.  -> dict n -> dict(end=obj|None, stderr=str, crash=str|None)"""
    res = {}
    pending = list(jobs)
    guard = 0
    while pending:
        guard += 1
        env = {"GORACE": GORACE, "GOMAXPROCS": str(gomaxprocs)}
        rc, outs, err = harness.run(binary, [mode], pending, timeout=timeout, env_extra=env)
        per = split_by_job(err)
        ended = {o["end"]: o for o in outs if "end" in o}
        begun = [o["begin"] for o in outs if "begin" in o]
        fatal = [o for o in outs if "fatal" in o]
        if fatal:
            raise harness.InfraError("vh-race %s: %s" % (mode, fatal[0]["fatal"]))
        for j in pending:
            n = j["n"]
            if n in ended:
                res[n] = dict(end=ended[n], stderr=per.get(n, ""), crash=None)
        done_ns = set(ended)
        rest = [j for j in pending if j["n"] not in done_ns]
        if not rest:
            break
        # the process stopped early: the first job without an end record is the one it died in
        died = rest[0]
        n = died["n"]
        text = per.get(n, "") + "\n" + per.get(None, "")
        if n not in begun and rc == 0:
            raise harness.InfraError("vh-race %s stopped without running job %d (rc=%s): %s" % (mode, n, rc, err[-1500:]))
        if "@@C13 STUCK" in err:
            res[n] = dict(end=None, stderr=text, crash="stuck")
        else:
            res[n] = dict(end=None, stderr=text, crash=crash_kind(err) or ("exit-%s" % rc))
        pending = rest[1:]
        if guard > 50:
            raise harness.InfraError("vh-race %s keeps dying: %s" % (mode, err[-1500:]))
    return res


def run_sharded(binary, mode, jobs, shards, timeout=900, gomaxprocs=4):
    shards = max(1, min(shards, len(jobs) or 1))
    parts = [jobs[i::shards] for i in range(shards)]
    res = {}
    with cf.ThreadPoolExecutor(max_workers=shards) as ex:
        for r in ex.map(lambda p: run_jobs(binary, mode, p, timeout, gomaxprocs), parts):
            res.update(r)
    return res
