"""C04 pipelines terminate: no stuck consumer, no leaked goroutine (Split, Buffer, ParallelBuffer,
Map, ProcessParallel, GenerateParallel, MergeIterators, Chain, MergeSlices, MergeSliceIterators,
BufferedChannel, dt.Map and adt.Map iterators)."""
from vlib import harness, replay
from props import pipeline_common as pc


def run(rep, tier, seed, replay_file=None):
    if replay_file:
        return pc.replay_saved(rep, replay_file)
    quick = tier == "quick"
    rep.assumptions += pc.ASSUMPTIONS + [
        "C04 premise (DESIGN 5.0): the leak obligation starts when the input is exhausted and drained, or Close was "
        "called on the output (Split: on every output), or the context of the first advance is cancelled - by the client, "
        "or by Close of the output that made the first advance (that Close cancels the context the background work was "
        "started with); goroutines still inside a user function the harness has not released are not the library's",
        "reading of 'a finite input always leads to io.EOF (no deadlock)' for several consumers (Split outputs, concurrent "
        "ReadOne) that advance under contexts of their own: whatever the siblings did (Close, cancellation), a consumer "
        "whose own output is open and whose own context is live is not left blocked at a quiescent point where no user "
        "function is held - sources are finite and never block, so its advance ends with an item or with the end; "
        "abandoning an output without Close is still explored and not judged",
        "a worker that invokes a context-respecting user function with an already cancelled context more than 1000 times "
        "the spec's bound on ALL invocations of a run (n + 2k), each invocation returning the context's error at once, "
        "is counted as never exiting (the harness then parks it, so that the run can be observed at quiescence)",
        "the stop-versus-advance races and the fill races are sampled (RaceReps / FillReps repetitions per construct), "
        "not enumerated: a clean run bounds the probability of the race outcomes seen, it does not exclude them",
    ]
    # 1. design level
    jobs = pc.IMPL_SMALL + [("FirstAdvance", "MC_firstadvance.cfg")]
    if not quick:
        jobs += pc.IMPL_FULL
    if not pc.run_impl(rep, jobs, pc.C04_NOTE, par=3, workers=2 if quick else 4, timeout=1500):
        return
    pc.run_mutations(rep, pc.MUT_C04)

    # 2. model -> code: schedules with every cut point and every stop mode
    behs = pc.gen(rep, "Ctl_c04_edge.cfg", "one shortest schedule per terminal edge of the abstract state graph: "
                  "every (construct, n, k, cut point, stop mode, per-consumer context, burst) state is reached and then "
                  "cleaned up or finished; context-respecting user functions with options ContinueOnError+IncludeContextErrors")
    if quick:
        # the contended bursts are few and each is a (repeated) race: never sampled away
        behs = pc.sample([b for b in behs if not pc.contended(b)], 1500, seed) + [b for b in behs if pc.contended(b)]
    else:
        rep.cov["exhaustive"] = True      # all schedules of <= Depth steps for n <= 2, k <= 2 (Ctl_c04_all.cfg)
        behs += pc.gen(rep, "Ctl_c04_all.cfg", "every schedule of at most Depth driver steps", timeout=900)
        burst = pc.gen(rep, "Ctl_c04_burst.cfg", "map / gen / pbufg with n <= 5, k <= 3: one schedule per terminal edge", timeout=900)
        behs += pc.sample([b for b in burst if pc.contended(b)], 150, seed) + pc.sample([b for b in burst if not pc.contended(b)], 1500, seed)
    sim = pc.gen(rep, "Ctl_c04_sim.cfg", "random schedules n <= 8, k <= 4, all eight option combinations", simulate=dict(num=150 if quick else 3000),
                 depth=30, seed=seed)
    behs = replay.dedupe(behs + sim)
    # a contended burst is a race the hardware decides: those schedules get the race driver (own process, a hit is
    # re-run with more repetitions before it is reported)
    bursts = [b for b in behs if pc.contended(b)]
    behs = [b for b in behs if not pc.contended(b)]
    if quick:
        # every burst on a buffered pipe (BurstReps repetitions), a sample of those on a rendezvous (3 repetitions)
        hot = [b for b in bursts if any(s["op"] == "brel" and s["arg"] > 3 for s in b["steps"])]
        bursts = hot + pc.sample([b for b in bursts if b not in hot], 30, seed)
    races = pc.gen(rep, "Ctl_c04_race.cfg" if quick else "Ctl_c04_race_full.cfg",
                   "unsynchronised Close / cancel against free-running consumers, one configuration per construct")
    races = [b for b in races if b["steps"][0]["op"] in ("race-close", "race-cancel")]
    fills = pc.gen(rep, "Ctl_c04_fill.cfg" if quick else "Ctl_c04_fill_full.cfg",
                   "a consumer takes one or two items of a long input and stops while several senders fill the pipe, one configuration per construct")
    fills = [b for b in fills if b["steps"][0]["op"] in ("race-fill-close", "race-fill-cancel")]
    if not behs or not races or not fills:
        return
    binary = harness.build(pc.BINARY)
    env = {"GOMAXPROCS": str(1 + seed % 4)}
    replay.replay(rep, binary, ["replay"], behs, shards=6 if quick else 8, env_extra=env, label="pipeline",
                  nontrivial=pc.nontrivial, timeout=1800)
    # the races need real parallelism; a crash of the process (panic in a library goroutine) is re-run alone
    pc.replay_races(rep, binary, races, par=6 if quick else 8, env={"GOMAXPROCS": "4"})
    pc.replay_races(rep, binary, fills, par=6 if quick else 8, env={"GOMAXPROCS": "4"}, label="pipeline/stop-while-pipe-fills")
    if bursts:
        pc.replay_races(rep, binary, bursts, par=6 if quick else 8, env={"GOMAXPROCS": "4"}, label="pipeline/contended-burst",
                        retry_env={"VH_BURST_REPS": "400"})
    stops = [b for b in behs if any(s["op"] in ("close", "cancel") for s in b["steps"]) and len(b["steps"]) >= 4]
    if stops:
        rep.sample(dict(kind="replayed schedule with a stop", behaviour=stops[len(stops) // 2]))
    rep.sample(dict(kind="race behaviour", behaviour=races[0]))
    pc.binding_self_tests(rep, binary, "C04")
    rep.cov["rule"] = (
        "behaviours = driver schedules of PipelineCtl with Close / cancel of the parent context / cancel of ONE consumer's "
        "context / Close-then-cancel / cancel-then-Close / Close-before-any-advance / Split CloseOutput(j) at every cut point, "
        "single and burst releases of user functions (plain and context-respecting, options e/p/c) "
        "(one per terminal edge of the abstract graph; thorough: all of <= Depth steps for n<=2,k<=2, map/gen/pbufg n<=5,k<=3; "
        "random n<=8,k<=4) for all 17 constructs, plus per construct RaceReps unsynchronised stop-versus-advance repetitions "
        "and FillReps repetitions of a stop that lands while the senders fill the pipe; after every step the real construct "
        "runs to quiescence: a Close must have returned, a consumer that must have returned is not blocked - neither one "
        "that was stopped nor a live sibling of a stopped one -, Run has returned, no worker keeps calling a user function "
        "whose context is cancelled, and where the premise holds and no user function is held the census (goroutines with a "
        "tychoish/fun frame, minus the baseline taken at the start of the behaviour) is empty.  non-trivial = n > 0 and "
        "more than a bare finish")
