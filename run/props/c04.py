"""C04 pipelines terminate: no stuck consumer, no leaked goroutine (Split, Buffer, ParallelBuffer,
Map, ProcessParallel, GenerateParallel, MergeIterators, Chain, MergeSlices, MergeSliceIterators,
BufferedChannel, dt.Map and adt.Map iterators)."""
from vlib import harness, replay
from props import pipeline_common as pc


def run(rep, tier, seed, replay_file=None):
    if replay_file:
        return pc.replay_saved(rep, replay_file)
    quick = tier == "quick"
    rep.assumptions += pc.ASSUMPTIONS + [
        "C04 premise (DESIGN 5.0): the leak obligation starts when the input is exhausted and drained, or Close was "
        "called on the output (Split: on every output), or the context of the first advance is cancelled; goroutines "
        "still inside a user function the harness has not released are not the library's",
        "the stop-versus-advance races are sampled (RaceReps repetitions per construct), not enumerated: a clean run "
        "bounds the probability of the race outcomes seen, it does not exclude them",
    ]
    # 1. design level
    jobs = pc.IMPL_SMALL + [("FirstAdvance", "MC_firstadvance.cfg")]
    if not quick:
        jobs += pc.IMPL_FULL
    if not pc.run_impl(rep, jobs, pc.C04_NOTE, par=3, workers=2 if quick else 4, timeout=1500):
        return
    pc.run_mutations(rep, pc.MUT_C04)

    # 2. model -> code: schedules with every cut point and every stop mode
    behs = pc.gen(rep, "Ctl_c04_edge.cfg", "one shortest schedule per terminal edge of the abstract state graph: "
                  "every (construct, n, k, cut point, stop mode) state is reached and then cleaned up or finished")
    if quick:
        behs = pc.sample(behs, 1500, seed)
    else:
        rep.cov["exhaustive"] = True      # all schedules of <= Depth steps for n <= 2, k <= 2 (Ctl_c04_all.cfg)
        behs += pc.gen(rep, "Ctl_c04_all.cfg", "every schedule of at most Depth driver steps", timeout=900)
    sim = pc.gen(rep, "Ctl_c04_sim.cfg", "random schedules n <= 8, k <= 4", simulate=dict(num=150 if quick else 3000),
                 depth=30, seed=seed)
    behs = replay.dedupe(behs + sim)
    races = pc.gen(rep, "Ctl_c04_race.cfg" if quick else "Ctl_c04_race_full.cfg",
                   "unsynchronised Close / cancel against free-running consumers, one configuration per construct")
    races = [b for b in races if b["steps"][0]["op"] in ("race-close", "race-cancel")]
    if not behs or not races:
        return
    binary = harness.build(pc.BINARY)
    env = {"GOMAXPROCS": str(1 + seed % 4)}
    replay.replay(rep, binary, ["replay"], behs, shards=6 if quick else 8, env_extra=env, label="pipeline",
                  nontrivial=pc.nontrivial, timeout=1800)
    # the races need real parallelism; a crash of the process (panic in a library goroutine) is re-run alone
    pc.replay_races(rep, binary, races, par=6 if quick else 8, env={"GOMAXPROCS": "4"})
    stops = [b for b in behs if any(s["op"] in ("close", "cancel") for s in b["steps"]) and len(b["steps"]) >= 4]
    if stops:
        rep.sample(dict(kind="replayed schedule with a stop", behaviour=stops[len(stops) // 2]))
    rep.sample(dict(kind="race behaviour", behaviour=races[0]))
    pc.binding_self_tests(rep, binary, "C04")
    rep.cov["rule"] = (
        "behaviours = driver schedules of PipelineCtl with Close / cancel / Close-then-cancel / cancel-then-Close / "
        "Close-before-any-advance / Split CloseOutput(j) at every cut point (one per terminal edge of the abstract graph; "
        "thorough: all of <= Depth steps for n<=2,k<=2; random n<=8,k<=4) for all 16 constructs, plus per construct "
        "RaceReps unsynchronised stop-versus-advance repetitions; after every step the real construct runs to quiescence: "
        "a Close must have returned, a consumer that must have returned is not blocked, Run has returned, and where the "
        "premise holds and no user function is held the census (goroutines with a tychoish/fun frame, minus the baseline "
        "taken at the start of the behaviour) is empty.  non-trivial = n > 0 and more than a bare finish")
