"""C09 Broker makes progress while subscribers read, and shuts down cleanly."""
from vlib import harness
from props import broker_common as bc

LEVEL = "model_checking"
TRACE = "Trace_c09.cfg"


def _idx(h, pred):
    return [i for i, e in enumerate(h) if pred(e)]


def live_part(h):
    """index of the first shutdown event (or len)"""
    s = _idx(h, lambda e: e.get("ev") == "cancelparent" or e.get("op") == "stop")
    return s[0] if s else len(h)


def calm(h):
    return not any(e.get("ev") in ("cancel", "readoff", "skip") for e in h)


def publish_never_returns(h):
    if not calm(h):
        return None
    end = live_part(h)
    pubs = {e["id"] for e in h[:end] if e.get("ev") == "call" and e.get("op") == "pub"}
    rets = [i for i in _idx(h[:end], lambda e: e.get("ev") == "ret") if h[i]["id"] in pubs]
    quiet = _idx(h[:end], lambda e: e.get("ev") == "quiescent")
    if not rets or not quiet or quiet[-1] < rets[-1] or not any(e.get("ev") == "readon" for e in h[:rets[-1]]):
        return None
    del h[rets[-1]]
    return h


def buffer_not_empty(h):
    if not calm(h):
        return None
    end = live_part(h)
    quiet = _idx(h[:end], lambda e: e.get("ev") == "quiescent")
    if not quiet or not any(e.get("ev") == "readon" for e in h[:quiet[-1]]):
        return None
    h[quiet[-1]]["depth"] = 1
    return h


def goroutine_left(h):
    st = [e["id"] for e in h if e.get("ev") == "call" and e.get("op") == "stop"]
    if not st or not any(e.get("ev") == "ret" and e["id"] == st[0] for e in h) or h[-1].get("ev") != "quiescent":
        return None
    h[-1]["live"] = 1
    return h


def wait_never_returns(h):
    st = [e["id"] for e in h if e.get("ev") == "call" and e.get("op") == "stop"]
    ws = {e["id"] for e in h if e.get("ev") == "call" and e.get("op") == "wait"}
    rets = [i for i in _idx(h, lambda e: e.get("ev") == "ret") if h[i]["id"] in ws]
    if not st or not rets or h[-1].get("ev") != "quiescent" or any(e.get("ev") == "cancel" for e in h):
        return None
    del h[rets[-1]]
    return h


def cancelled_call_blocked(h):
    cancelled = {e["c"] for e in h if e.get("ev") == "cancel"}
    calls = {e["id"]: e for e in h if e.get("ev") == "call" and e["c"] in cancelled and e["op"] in ("pub", "sub", "unsub", "stats")}
    rets = [i for i in _idx(h, lambda e: e.get("ev") == "ret") if h[i]["id"] in calls]
    if not rets or h[-1].get("ev") != "quiescent":
        return None
    del h[rets[-1]]
    return h


SELFTESTS = [
    ("BrokerTrace rejects a Publish left blocked while every subscriber receives", TRACE, publish_never_returns, "progress/publish-blocked"),
    ("BrokerTrace rejects a non-empty distributor at a live quiescent point", TRACE, buffer_not_empty, "progress/accepted-not-dispatched"),
    ("BrokerTrace rejects a broker goroutine left after Stop", TRACE, goroutine_left, "shutdown/goroutine-left"),
    ("BrokerTrace rejects a Wait that has not returned after Stop", TRACE, wait_never_returns, "shutdown/wait-blocked"),
    ("BrokerTrace rejects a call left blocked although its context is cancelled", TRACE, cancelled_call_blocked, "shutdown/call-ignores-its-context"),
]


def run(rep, tier, seed, replay_file=None):
    quick = tier == "quick"
    rep.assumptions += [
        "TLC is sound; channels, select, sync.Map.Range, Queue/Deque blocking contracts (C07) and fun.WaitGroup (C14) behave as modelled in spec/broker/BrokerImpl.tla",
        "a goroutine snapshot with nothing runnable is a fixed point (rt.Quiesce, DESIGN 3.3); 'promptly' = by the next quiescent point, no wall-clock verdicts",
        "'accepted and dispatched' as fixed in DESIGN 5.0: at quiescence, context live and every subscriber receiving, the distributor is empty "
        "and no Publish is blocked; messages evicted by a load-shedding distributor were not accepted",
        "liveness (accepted ~> dispatched, Publish returns, shutdown completes) is established on BrokerImpl under weak fairness of the library's steps; "
        "on the real code its quiescence counterpart is judged",
        "a Stop that has been called must have returned by the next quiescent point (shuts down cleanly)",
        "Deque back-ends are stepped with one dispatch worker (two idle waiters on one Deque condition variable never quiesce, DESIGN 3.3); "
        "recorder runs whose live phase does not quiesce carry only the post-shutdown obligations",
    ]
    if replay_file:
        bc.replay_file(rep, replay_file, [TRACE])
        return
    with bc.phase(rep, "build"):
        binary = harness.build("vh-broker")
    with bc.phase(rep, "impl-models"):
        if bc.run_impl(rep, bc.progress_models(quick), workers=4 if quick else 5, parallel=3):
            bc.run_asis(rep, ["stats", "wait", "recv"])
    with bc.phase(rep, "schedule-generation"):
        scheds, _ = bc.gen_schedules(rep, quick, seed, 1200 if quick else 9000, ("buffered", "window"))
    with bc.phase(rep, "schedule-execution"):
        hists = bc.run_schedules(rep, binary, scheds, 12, seed, "broker/sched") if scheds else []
    with bc.phase(rep, "recorder"):
        rec = bc.record(rep, binary, 400 if quick else 4000, seed)
    if not rec:
        rep.infra_error("recorder produced no history")
    if hists or rec:
        with bc.phase(rep, "trace-validation"):
            bc.judge(rep, hists + rec, TRACE, "broker/history", shards=8)
    if hists:
        rep.sample(dict(kind="driver schedule (BrokerStep) executed with observation at quiescence", schedule=scheds[len(scheds) // 3]))
        rep.sample(dict(kind="recorded history judged by BrokerTrace", events=max(hists[:200], key=len)[:30]))
    with bc.phase(rep, "self-tests"):
        bc.mutate_selftests(rep, hists + rec, SELFTESTS)
    rep.cov["rule"] = ("schedules = scenarios of BrokerStep (publish bursts of 1-4 before / while subscribers receive, pause and resume, "
                       "Stop / parent cancel at idle, mid-dispatch, mid-publish and with backlog, Wait before and after Stop, every API call "
                       "with an already or later cancelled context) x every back-end x ParallelDispatch x WorkerPoolSize x BufferSize, "
                       "executed on a real Broker with observation at quiescence (pending calls, distributor length, census of library "
                       "goroutines); histories = those runs + random concurrent recorder runs, validated by BrokerTrace; non-trivial = "
                       "history longer than 4 events")
