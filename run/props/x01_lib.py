"""Helpers of the extra check X01 (channel operations and distributors)."""
import collections, concurrent.futures as cf, copy, json, threading

from vlib import harness, trace

SPEC_FILES = None


def extra_files():
    """QueueCore / DequeCore live in spec/queue and spec/deque; run_tlc copies only spec/lib and spec/chan."""
    global SPEC_FILES
    if SPEC_FILES is None:
        import os
        from vlib import tlc
        SPEC_FILES = {"QueueCore.tla": open(os.path.join(tlc.SPEC, "queue", "QueueCore.tla")).read(),
                      "DequeCore.tla": open(os.path.join(tlc.SPEC, "deque", "DequeCore.tla")).read()}
        if os.environ.get("X01_MASKSKIP") == "0":
            # development aid: judge with the named choice MaskSkip = FALSE (the reading after
            # fixes/distributor-input-filter-keeps-skip.diff) without editing the cfg files: the overriding copies are
            # placed next to the spec by run_tlc.  When that fix is committed, set MaskSkip = FALSE in spec/chan/*.cfg.
            import glob
            for f in glob.glob(os.path.join(tlc.SPEC, "chan", "*.cfg")):
                text = open(f).read()
                if "MaskSkip = TRUE" in text:
                    SPEC_FILES[os.path.basename(f)] = text.replace("MaskSkip = TRUE", "MaskSkip = FALSE")
    return SPEC_FILES


# ------------------------------------------------------------------------------------------------ sampling
def _kind(r):
    r = str(r)
    if r.startswith("v:"):
        return "v" if len(r) > 2 else "v0"
    return r.split("|")[0]


def step_class(b):
    """Class of a ChanStep behaviour = the kind of its last edge: channel, actions, kinds of the results of the branch,
    number of parked operations before it, whether the spec leaves a choice."""
    c0, st = b[0], b[-1]
    res = st["br"]["res"] if isinstance(st["br"]["res"], dict) else {}
    ids = {a["id"] for a in st["acts"]}
    return json.dumps([c0["cap"], c0["nil"],
                       [(a["op"], a["k"], a["meth"], a["nb"], a["pre"], a["bad"]) for a in st["acts"]],
                       sorted(_kind(res[i]) for i in res if i in ids), sorted(_kind(res[i]) for i in res if i not in ids),
                       len(st["allowed"]) > 1])


def dist_class(b):
    s0, st = b[0], b[-1]
    return json.dumps([s0["view"], s0["arg"], s0["cap"], s0["hard"], st["op"], st["view"], st["arg"], st["canc"], _kind(st["res"]),
                       min(st["len"], 3), st["closed"]])


def stratified(behs, per_class, rng, key):
    cl = collections.defaultdict(list)
    for b in behs:
        cl[key(b)].append(b)
    out = []
    for k in sorted(cl):
        v = cl[k]
        rng.shuffle(v)
        out += v[:per_class]
    return out, len(cl)


def has_burst(b):
    return any(len(s["acts"]) > 1 for s in b)


# ------------------------------------------------------------------------------------------------ replays
def run_items(rep, binary, sub, items, label, shards, env=None, report=True, nontrivial=lambda b: True):
    """Execute behaviours / schedules on the real code.  A failing one is re-run alone before it is reported.
    Returns (results by n, list of confirmed failures)."""
    outs, meta = harness.run_sharded(binary, [sub], items, shards=shards, timeout=1500, env_extra=env)
    results, begun = {}, set()
    for o in outs:
        if "begin" in o:
            begun.add(o["begin"])
        elif "n" in o:
            results[o["n"]] = o
    byn = {it["n"]: it for it in items}
    failures = []
    for i in sorted((begun - set(results)) | (set(byn) - begun)):       # killed its process / never begun
        rc, o, err = harness.run(binary, [sub], [byn[i]], timeout=120, env_extra=env)
        got = [x for x in o if x.get("n") == i and "begin" not in x]
        if got:
            results[i] = got[0]
        else:
            tail = err[-3000:]
            if "github.com/tychoish/fun" in tail and ("panic:" in tail or "fatal error:" in tail):
                failures.append(dict(n=i, key=label + "/process-crash", what="the process died: " + tail[-1200:]))
                if report:
                    rep.violation(label + "/process-crash", "the process died while executing this behaviour: " + tail[-1200:],
                                  dict(kind=sub, item=byn[i], stderr=tail))
            else:
                rep.infra_error("%s: behaviour %d kills the harness without a library frame: %s" % (label, i, tail[-400:]))
    stats = collections.Counter()
    reported = collections.Counter()
    for i, r in sorted(results.items()):
        if r.get("inconclusive"):
            stats["inconclusive"] += 1
            continue
        if r.get("ok"):
            stats["truncated" if "truncated" in r else "complete"] += 1
            continue
        stats["failed"] += 1
        if not report:
            failures.append(r)
            continue
        if reported[r.get("key")] >= 2 or sum(reported.values()) >= 10:
            continue
        reported[r.get("key")] += 1
        rc, o, err = harness.run(binary, [sub], [byn[i]], timeout=120, env_extra=env)
        again = [x for x in o if x.get("n") == i and "begin" not in x]
        if again and not again[0].get("ok"):
            failures.append(again[0])
            rep.violation(again[0].get("key", label + "/mismatch"), again[0].get("what", ""), dict(kind=sub, item=byn[i], result=again[0]))
        else:
            rep.infra_error("%s: failure of behaviour %d did not reproduce in isolation: %s" % (label, i, json.dumps(r)[:400]))
    if report:
        done = [byn[i]["beh"] for i, r in results.items() if r.get("ok") and not r.get("inconclusive")]
        rep.add_cases(done, nontrivial=nontrivial)
        for k, v in stats.items():
            rep.cov[label + "_" + k] = rep.cov.get(label + "_" + k, 0) + v
        if stats["inconclusive"] > 0.05 * max(1, len(items)):
            rep.infra_error("%s: %d of %d behaviours inconclusive" % (label, stats["inconclusive"], len(items)))
        if len(results) < len(items):
            rep.infra_error("%s: %d behaviours produced no result" % (label, len(items) - len(results)))
    return results, failures


def record(rep, binary, sub, n, seed, shards, label):
    hists, inconcl = [], 0
    with cf.ThreadPoolExecutor(max_workers=shards) as ex:
        futs = [ex.submit(harness.run, binary, [sub, str(max(1, n // shards)), str(seed * 1000 + i)], None, 300) for i in range(shards)]
        for f in futs:
            try:
                rc, outs, err = f.result()
            except harness.InfraError as e:
                # e.g. code under test that spins for ever: no quiescent point, the recorder cannot finish
                rep.infra_error("%s recorder: %s" % (label, e))
                continue
            if rc != 0:
                if "github.com/tychoish/fun" in err and ("panic:" in err or "fatal error:" in err):
                    rep.violation(label + "/record/process-crash", "recorder died: " + err[-1200:], dict(kind="crash", stderr=err[-3000:]))
                else:
                    rep.infra_error("recorder failed: " + err[-600:])
            hists += [o["hist"] for o in outs if "hist" in o]
            inconcl += sum(1 for o in outs if "inconclusive" in o)
    rep.cov[label + "_record_inconclusive"] = inconcl
    if inconcl > 0.05 * max(1, n):
        rep.infra_error("%s record: %d of %d runs reached no quiescent point" % (label, inconcl, n))
    return hists


# ------------------------------------------------------------------------------------------------ trace validation
def validate(module, cfg, histories, timeout=900):
    return trace.validate("chan", module, cfg, histories, timeout, extra_files=extra_files())


def validate_all(rep, module, cfg, histories, *, label, shards, key_fn, timeout=900, max_violations=3):
    """vlib.trace.validate_all with the extra spec files (QueueCore / DequeCore) placed next to the spec."""
    if not histories:
        rep.infra_error(label + ": no histories recorded")
        return
    shards = max(1, min(shards, len(histories)))
    parts = [histories[i::shards] for i in range(shards)]
    lock = threading.Lock()
    state = dict(viol=0, skipped=0)

    def work(part):
        while part:
            with lock:
                if state["viol"] >= max_violations:
                    state["skipped"] += len(part)
                    return
            acc, r, info = validate(module, cfg, part, timeout)
            with lock:
                rep.add_tlc("%s/%s" % (module, cfg), r, "trace validation of %d histories" % len(part))
                if acc is None:
                    rep.infra_error("%s: trace validation did not complete: %s" % (label, str(info)[:600]))
                    return
                if acc:
                    rep.add_cases(part, nontrivial=lambda h: len(h) > 4)
                    return
            hi, ei = trace.locate(part, info["at"])
            bad = part[hi]
            acc2, r2, info2 = validate(module, cfg, [bad], timeout)
            with lock:
                rep.add_cases(part[:hi], nontrivial=lambda h: len(h) > 4)
                if acc2 is False:
                    rep.violation(key_fn(bad, info2), "history not explainable by %s: first unexplained event #%d %s" % (
                        module, info2["at"] - 1, json.dumps(info2["event"])[:300]), dict(kind="trace", module=module, cfg=cfg, history=bad, rejected_at=info2))
                    state["viol"] += 1
                else:
                    rep.infra_error("%s: rejection did not reproduce on the single history" % label)
            part = part[hi + 1:]

    with cf.ThreadPoolExecutor(max_workers=shards) as ex:
        list(ex.map(work, parts))
    if state["skipped"]:
        rep.cov["histories_not_validated_after_violations"] = rep.cov.get("histories_not_validated_after_violations", 0) + state["skipped"]


def chan_trace_key(hist, info):
    ev = info.get("event", {})
    calls = {e["id"]: e for e in hist if e.get("ev") == "call"}

    def name(i):
        c = calls.get(i, {})
        if c.get("op") == "start":
            return "%s/%s" % (c.get("meth"), "nb" if c.get("nb") else "b")
        return c.get("op", "?")
    if ev.get("ev") == "quiescent":
        # TLC cannot say which of the calls still pending is the wrong one; a NonBlocking call among them certainly is
        nb = sorted({name(i) for i in ev.get("blocked", []) if calls.get(i, {}).get("nb")})
        if nb:
            return "chan/trace/quiescent/%s/blocked" % "+".join(nb)
        return "chan/trace/quiescent/%s" % ("pending-calls-not-explained" if ev.get("blocked") else "returned-or-len")
    if ev.get("ev") == "ret":
        if str(ev.get("res", "")).startswith("panic"):
            return "chan/trace/%s/panic" % name(ev.get("id"))
        return "chan/trace/%s/unexplainable-result" % name(ev.get("id"))
    return "chan/trace/history-rejected"


def dist_trace_key(hist, info):
    ev = info.get("event", {})
    kind = hist[0].get("kind", "?")
    calls = {e["id"]: e for e in hist if e.get("ev") == "call"}
    if ev.get("ev") == "quiescent":
        return "dist/%s/trace/quiescent/%s" % (kind, "pending-calls-not-explained" if ev.get("blocked") else "returned-or-len")
    if ev.get("ev") == "ret":
        c = calls.get(ev.get("id"), {})
        if str(ev.get("res", "")).startswith("panic"):
            return "dist/%s/trace/%s/panic" % (kind, c.get("op", "?"))
        return "dist/%s/trace/%s/%s/unexplainable-result" % (kind, c.get("op", "?"), c.get("view", "?"))
    return "dist/%s/trace/history-rejected" % kind


# ------------------------------------------------------------------------------------------------ self-tests
def corrupt_value(h):
    """A copy of history h with the value of one successful receive replaced by one that was never sent."""
    idx = [i for i, e in enumerate(h) if e.get("ev") == "ret" and str(e.get("res", "")).startswith("v:") and len(e["res"]) > 2]
    if not idx:
        return None
    bad = copy.deepcopy(h)
    bad[idx[-1]]["res"] = "v:never-sent"
    return bad


def drop_return(h, ok=lambda call, ret: True):
    """A copy of h in which the last suitable return is dropped and the call claimed blocked at every later quiescent
    point (TLC must reject at such a point: the abstract state obliges the call to return)."""
    calls = {e["id"]: e for e in h if e.get("ev") == "call"}
    idx = [i for i, e in enumerate(h) if e.get("ev") == "ret" and ok(calls.get(e["id"], {}), e)]
    idx = [i for i in idx if any(x.get("ev") == "quiescent" for x in h[i:])]
    if not idx:
        return None
    bad = copy.deepcopy(h)
    rid = bad[idx[-1]]["id"]
    del bad[idx[-1]]
    for e in bad[idx[-1]:]:
        if e.get("ev") == "quiescent":
            e["blocked"] = sorted(set(e["blocked"]) | {rid})
    return bad
