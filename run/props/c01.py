"""C01 parallel iterator stages deliver every item exactly once (Split, ProcessParallel /
ParallelForEach / Worker, Map with NumWorkers>1, ParallelBuffer, MergeIterators, GenerateParallel,
Buffer, concurrent ReadOne on a channel-backed iterator)."""
from vlib import harness, replay
from props import pipeline_common as pc


def run(rep, tier, seed, replay_file=None):
    if replay_file:
        return pc.replay_saved(rep, replay_file)
    quick = tier == "quick"
    rep.assumptions += pc.ASSUMPTIONS + [
        "C01 premise (DESIGN 5.0): only undisturbed runs are judged - no Close, no cancellation, no failing user function",
    ]
    # 1. design level: every interleaving of the implementation-shaped specs
    jobs = pc.IMPL_SMALL if quick else pc.IMPL_SMALL + pc.IMPL_FULL
    if not pc.run_impl(rep, jobs, pc.C01_NOTE, par=3, workers=2 if quick else 4, timeout=1500):
        return
    pc.run_mutations(rep, pc.MUT_C01)

    # 2. model -> code: controllable schedules of PipelineCtl (AllowStop = FALSE), replayed at quiescence
    behs = pc.gen(rep, "Ctl_c01_edge.cfg", "one shortest undisturbed schedule per terminal edge of the abstract state graph")
    free = pc.gen(rep, "Ctl_c01_free.cfg", "free-running completion, n <= 24, k <= 6 (no stepping: the Go scheduler interleaves)")
    if quick:
        free = pc.sample(free, 400, seed)
    else:
        rep.cov["exhaustive"] = True      # all schedules of <= Depth steps for n <= 3, k <= 2 (Ctl_c01_all.cfg)
        behs += pc.gen(rep, "Ctl_c01_all.cfg", "every undisturbed schedule of at most Depth driver steps")
    sim = pc.gen(rep, "Ctl_c01_sim.cfg", "random schedules n <= 8, k <= 4", simulate=dict(num=150 if quick else 2500),
                 depth=30, seed=seed)
    behs = replay.dedupe(behs + sim + free)
    # a contended burst is a race the hardware decides: those schedules get the race driver (own process, a hit is
    # re-run with more repetitions before it is reported)
    bursts = [b for b in behs if pc.contended(b)]
    behs = [b for b in behs if not pc.contended(b)]
    races = pc.gen(rep, "Ctl_c01_race.cfg" if quick else "Ctl_c01_race_full.cfg",
                   "undisturbed runs whose advances are concurrent from the very first one, one configuration per construct")
    races = [b for b in races if b["steps"][0]["op"] == "race-start"]
    if not behs or not races:
        return
    binary = harness.build(pc.BINARY)
    env = {"GOMAXPROCS": str(1 + seed % 4)}
    replay.replay(rep, binary, ["replay"], behs, shards=6 if quick else 8, env_extra=env, label="pipeline",
                  nontrivial=pc.nontrivial, timeout=1200)
    pc.replay_races(rep, binary, races, par=4 if quick else 6, env={"GOMAXPROCS": "8"}, label="pipeline/concurrent-start")
    if bursts:
        pc.replay_races(rep, binary, bursts, par=6, env={"GOMAXPROCS": "4"}, label="pipeline/contended-burst",
                        retry_env={"VH_BURST_REPS": "200"})
    held = [b for b in behs if any(s["op"] == "rel" for s in b["steps"]) and b["cfg"]["n"] >= 2]
    if held:
        rep.sample(dict(kind="replayed schedule (user functions released one by one)", behaviour=held[len(held) // 2]))
    rep.sample(dict(kind="replayed schedule", behaviour=behs[len(behs) // 3]))
    pc.binding_self_tests(rep, binary, "C01")
    rep.cov["rule"] = (
        "behaviours = driver schedules of PipelineCtl without stop actions (one per terminal edge of the abstract graph; "
        "thorough: all of <= Depth steps for n<=3,k<=2; random n<=8,k<=4; free-running n<=24,k<=6; RaceReps repetitions per construct of a run whose first advances are concurrent) for map, pp, pfe, worker, "
        "pbuf, pbufg (the body of ParallelBuffer with a gate in front of the send), split, buffer, merge, gen, multiread, with single and burst releases of the user functions, "
        "plain inputs and inputs / MergeIterators operands that carry a recorded non-fatal error (AddError; upstream Map in ContinueOnError mode); after every step the real construct runs to quiescence and the "
        "observations are compared with the spec's allowed sets: every user-function call is for an input item not seen "
        "before, every output is f(input item) not output before and allowed (may), the end of an output only when "
        "allowed (eofs), no consumer blocked with nothing held (must), at the end output bag = f(input bag), input order "
        "for one worker / Buffer / per Split output.  non-trivial = n > 0 and more than a bare finish")
