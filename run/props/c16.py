"""C16 dt.List / dt.Stack stay well-formed and match a sequence model.

TLC enumerates behaviours of spec/list/ListSeq.tla and StackSeq.tla (all operation sequences to a
depth, one shortest behaviour per edge of the abstract state graph, random deep walks); every
behaviour carries the expected return value and the full expected state after every step;
harness/cmd/vh-list replays them on real dt.List / dt.Stack objects and compares after every step.

Also home of the helpers shared with c17.py (parallel TLC runs, replay with bounded isolation
re-runs, --replay of a saved case)."""
import concurrent.futures as cf
import json, random
from vlib import tlc, harness, replay as vreplay

COMP = "list"
BIN = "vh-list"

LIST_FAMS = ("push pop new append remove drop swap set extend copy json sort issorted innil").split()


# ----------------------------------------------------------------------------- shared helpers

def tlc_jobs(rep, jobs, parallel=3):
    """jobs: list of dict(name=, comp=, module=, cfg=, note=, kw=dict(...)).  Runs up to `parallel`
    TLC processes at a time (each with its own worker count in kw), records every run, returns
    name -> result.  A failed run is an infrastructure error (never a verdict)."""
    out = {}
    with cf.ThreadPoolExecutor(max_workers=parallel) as ex:
        futs = {j["name"]: ex.submit(tlc.run_tlc, j["comp"], j["module"], j["cfg"], **j.get("kw", {})) for j in jobs}
        for j in jobs:
            r = futs[j["name"]].result()
            rep.add_tlc(j["name"], r, j.get("note", ""))
            if not r.ok and not j.get("expect_violation"):
                rep.infra_error("TLC run %s failed (%s): %s" % (j["name"], r.violated or ("timeout" if r.timed_out else r.rc), r.out[-1200:]))
            out[j["name"]] = r
    return out


def replay_limited(rep, binary, mode, behs, *, shards=8, label, nontrivial=lambda b: True, per_key=3,
                   timeout=900, max_inconclusive=0.05):
    """Like vlib.replay.replay, but when thousands of behaviours trip the same defect only the
    `per_key` shortest per key are re-run in isolation and reported (rule 1: nothing is reported
    that was not reproduced alone); the others are counted in coverage.failing_by_key."""
    if not behs:
        rep.infra_error("%s: no behaviours to replay" % label)
        return {}
    items = [dict(n=i, beh=b) for i, b in enumerate(behs)]
    outs, meta = harness.run_sharded(binary, [mode], items, shards=shards, timeout=timeout)
    results, begun = {}, set()
    for o in outs:
        if "begin" in o:
            begun.add(o["begin"])
        elif "n" in o:
            results[o["n"]] = o
    # a behaviour without a result: its process died (panics are recovered, so this is unexpected) or
    # its shard died earlier; run each alone
    for i in [i for i in range(len(items)) if i not in results][:200]:
        rc, o, err = harness.run(binary, [mode], [items[i]], timeout=120)
        got = [x for x in o if x.get("n") == i and "begin" not in x]
        if got:
            results[i] = got[0]
        else:
            tail = err[-3000:]
            if "github.com/tychoish/fun" in tail and ("panic:" in tail or "fatal error:" in tail):
                rep.violation(label + "/process-crash", "the process died while replaying this behaviour: " + tail[-1500:],
                              dict(mode=mode, behaviour=items[i]["beh"], stderr=tail))
            else:
                rep.infra_error("%s: behaviour %d kills the harness without a library frame: %s" % (label, i, tail[-500:]))
    missing = [i for i in range(len(items)) if i not in results]
    if missing:
        rep.infra_error("%s: %d behaviours produced no result" % (label, len(missing)))
    by_key = {}
    for i, r in results.items():
        if not r.get("ok"):
            by_key.setdefault(r.get("key", label + "/mismatch"), []).append(i)
    counts = rep.cov.setdefault("failing_by_key", {})
    for key, idx in sorted(by_key.items()):
        counts[key] = counts.get(key, 0) + len(idx)
        idx.sort(key=lambda i: (len(json.dumps(items[i]["beh"])), i))
        for i in idx[:per_key]:
            rc, o, err = harness.run(binary, [mode], [items[i]], timeout=120)
            again = [x for x in o if x.get("n") == i and "begin" not in x]
            if again and not again[0].get("ok"):
                r = again[0]
                rep.violation(r.get("key", key), r.get("what", ""), dict(mode=mode, behaviour=items[i]["beh"], result=r, binary=BIN))
            else:
                rep.infra_error("%s: mismatch on behaviour %d did not reproduce in isolation: %s" % (label, i, json.dumps(results[i])[:400]))
    inconclusive = [r for r in results.values() if r.get("ok") and r.get("inconclusive")]
    done = [items[i]["beh"] for i, r in results.items() if r.get("ok") and not r.get("inconclusive")]
    rep.add_cases(done, nontrivial=nontrivial)
    rep.cov["inconclusive"] = rep.cov.get("inconclusive", 0) + len(inconclusive)
    if len(inconclusive) > max_inconclusive * max(1, len(items)):
        rep.infra_error("%s: %d of %d behaviours inconclusive (e.g. %s)" % (label, len(inconclusive), len(items), inconclusive[0].get("inconclusive")))
    return by_key


def expect_mismatch(rep, binary, mode, name, beh, key_prefix=""):
    """Self-test of the binding: a behaviour with a wrong expectation must be rejected."""
    rc, outs, err = harness.run(binary, [mode], [dict(n=0, beh=beh)], timeout=60)
    res = [o for o in outs if o.get("n") == 0 and "begin" not in o]
    ok = bool(res) and not res[0].get("ok") and res[0].get("key", "").startswith(key_prefix)
    rep.self_test(name, ok, json.dumps(res)[:300])


def expect_pass(rep, binary, mode, name, beh):
    rc, outs, err = harness.run(binary, [mode], [dict(n=0, beh=beh)], timeout=60)
    res = [o for o in outs if o.get("n") == 0 and "begin" not in o]
    rep.self_test(name, bool(res) and res[0].get("ok") and not res[0].get("inconclusive"), json.dumps(res)[:300])


def replay_saved(rep, path):
    """--replay <file>: re-run one saved case against the current tree."""
    obj = json.load(open(path))["replay"]
    binary = harness.build(BIN)
    rc, outs, err = harness.run(binary, [obj["mode"]], [dict(n=0, beh=obj["behaviour"])], timeout=120)
    res = [o for o in outs if o.get("n") == 0 and "begin" not in o]
    if not res:
        tail = err[-3000:]
        if "github.com/tychoish/fun" in tail and ("panic:" in tail or "fatal error:" in tail):
            rep.violation(obj.get("result", {}).get("key", "replay/process-crash"), tail[-1500:], obj)
        else:
            rep.infra_error("replay produced no result: " + tail[-500:])
    elif not res[0].get("ok"):
        rep.violation(res[0].get("key", "replay/mismatch"), res[0].get("what", ""), dict(obj, result=res[0]))
    else:
        rep.add_cases([obj["behaviour"]])
        rep.sample(dict(kind="saved case re-run: passes on the current tree", result=res[0]))



# ----------------------------------------------------------------------------- the check

def run(rep, tier, seed, replay_file=None):
    if replay_file:
        replay_saved(rep, replay_file)
        return
    quick = tier == "quick"
    rep.assumptions += [
        "TLC is sound; the sequential meaning of the API is the one written in spec/list/ListSeq.tla and StackSeq.tla "
        "(readings in their headers: ring semantics of Swap with the root, Set succeeds on detached elements, "
        "Item.Append judged for the head / detached receivers only, Stack Detach/Attach/Set not judged)",
        "single goroutine: dt.List / dt.Stack document that callers do their own locking",
        "SortMerge is offered by the model only where the sorted permutation is unique (C17 judges it elsewhere)",
        "nil receivers are used only where the documentation allows them (Ok, Set, Swap, In for Element; Ok, Remove for Item)",
        "bounds: <= 3-4 live elements in exhaustive runs, <= 8 in random walks; values from a fixed 8-value sequence",
    ]
    sim_n = 60 if quick else 500
    L, S = "ListSeq", "StackSeq"

    def job(module, cfg, note, **kw):
        return dict(name=module + "/" + cfg, comp=COMP, module=module, cfg=cfg, note=note, kw=dict(dict(workers=1, timeout=1200), **kw))

    def sim(module, cfg, note):
        return job(module, cfg, note, simulate=dict(num=sim_n), depth=31, seed=seed)
    impl = [job("ListImpl", "Impl_fixed.cfg" if quick else "Impl_fixed_4.cfg",
                "pointer-level model with the proposed repairs: Conform (walks = abs, Len, ownership) for every op sequence",
                workers=1 if quick else 3)]
    for v in ("append", "swap", "sortmerge"):
        j = job("ListImpl", "Impl_asis_%s.cfg" % v, "as shipped (%s): Conform must be violated" % v)
        j["expect_violation"] = True
        impl.append(j)
    lsim = sim(L, "Sim.cfg", "random walks, depth 30, 8 elements (1/20 of the last-step successors)")
    ssim = sim(S, "Stack_sim.cfg", "random walks, depth 30, 8 items (1/8 of the last-step successors)")
    if quick:
        stages = [(5, [
            job(L, "Edge_q.cfg", "edge cover, 3 elements, random 1/4 of the edges (seeded)", workers=2, seed=seed),
            job(L, "All_d2.cfg", "every operation sequence of length 2"),
            job(S, "Stack_edge_q.cfg", "edge cover, 4 items, random 1/3 of the edges (seeded)", seed=seed),
            job(S, "Stack_all_d3.cfg", "every operation sequence of length 3"),
            lsim, ssim] + impl)]
    else:
        # staged so that only one or two big behaviour sets are in memory at a time; <= 6 TLC workers at any moment
        stages = [
            (2, [job(L, "Edge_3a.cfg", "edge cover, 3 elements, every edge labelled Append or Swap", workers=3)] + impl[1:]),
            (2, [job(L, "Edge_3b.cfg", "edge cover, 3 elements, every edge with any other label (3a + 3b = the complete cover)", workers=3), impl[0]]),
            (1, [job(L, "Edge_4.cfg", "edge cover, 4 elements, random 1/20 of the edges (seeded)", workers=4, seed=seed, heap="6g")]),
            (2, [job(L, "All_d3.cfg", "every sequence of length 3 of the state-changing operation families", workers=3, heap="6g"), lsim]),
            (2, [job(S, "Stack_edge.cfg", "edge cover, 4 items: every edge", workers=3), ssim]),
            (1, [job(S, "Stack_all.cfg", "every operation sequence of length 4", workers=4)]),
        ]
    binary = harness.build(BIN)
    shards = 8
    mutating = {"PushBack", "PushFront", "AppendMany", "PopFront", "PopBack", "Extend", "ExtendCopy", "JSONRound",
                "SortQuick", "SortMerge", "Append", "Remove", "Drop", "Swap", "Set", "SetJSON"}
    ops, nbeh, samples = {}, dict(list=0, stack=0), dict(list=[], stack=[])
    for parallel, jobs in stages:
        res = tlc_jobs(rep, jobs, parallel=parallel)
        for v in ("append", "swap", "sortmerge"):
            r = res.get("ListImpl/Impl_asis_%s.cfg" % v)
            if r is not None:
                rep.self_test("Conform-not-vacuous: the as-shipped %s violates it in the model" % v, r.violated == "Conform", str(r.brief()))
        if rep.infra:
            return
        lbehs, sbehs = [], []
        for name, r in res.items():
            if name.startswith(L):
                lbehs.extend(r.tagged.get("BEH", []))
            elif name.startswith(S):
                sbehs.extend(r.tagged.get("BEH", []))
            r.tagged.clear()
        del res
        for kind, behs in (("list", lbehs), ("stack", sbehs)):
            if not behs:
                continue
            behs = vreplay.dedupe(behs)
            nbeh[kind] += len(behs)
            for b in behs:
                for st in b:
                    k = kind + "." + st["op"] + "[" + st["cs"] + "]"
                    ops[k] = ops.get(k, 0) + 1
            samples[kind] += [b for b in behs[:2000] if 3 <= len(b) <= 6][:50]
            if kind == "list":
                replay_limited(rep, binary, "list", behs, shards=shards, label="list",
                               nontrivial=lambda b: sum(1 for x in b if x["op"] in mutating and not x["cs"].startswith("rej")) >= 2)
            else:
                replay_limited(rep, binary, "stack", behs, shards=shards, label="stack",
                               nontrivial=lambda b: sum(1 for x in b if x["op"] != "NewItem" and not x["cs"].startswith("rej")) >= 2)
            del behs
        del lbehs, sbehs
    rnd = random.Random(seed)
    if samples["list"]:
        rep.sample(dict(kind="replayed List behaviour (op, args, expected return, expected lists/values/Ok after the step)",
                        steps=rnd.choice(samples["list"])))
    if samples["stack"]:
        rep.sample(dict(kind="replayed Stack behaviour", steps=rnd.choice(samples["stack"])))
    rep.cov["operation_cases_exercised"] = ops
    rep.cov["behaviours"] = nbeh

    # self-tests of the binding: a wrong expectation must be rejected, the right one accepted
    good = [dict(op="PushBack", cs="ok", a=["A"], iv=[2], ret="-", A=[1], B=[], val=[2], ok=[True]),
            dict(op="PushFront", cs="ok", a=["A"], iv=[5], ret="-", A=[2, 1], B=[], val=[2, 5], ok=[True, True]),
            dict(op="PopBack", cs="ok", a=["A"], iv=[], ret="e1", A=[2], B=[], val=[2, 5], ok=[True, True])]
    expect_pass(rep, binary, "list", "list replayer accepts a correct behaviour", good)
    bad = json.loads(json.dumps(good)); bad[1]["A"] = [1, 2]
    expect_mismatch(rep, binary, "list", "list replayer rejects a wrong order", bad, "list/PushFront/forward-walk")
    bad = json.loads(json.dumps(good)); bad[2]["ret"] = "e2"
    expect_mismatch(rep, binary, "list", "list replayer rejects a wrong return value", bad, "list/PopBack/return")
    bad = json.loads(json.dumps(good)); bad[2]["A"] = [2, 1]
    expect_mismatch(rep, binary, "list", "list replayer rejects a popped element still listed", bad, "list/PopBack/")
    sgood = [dict(op="Push", cs="ok", a=["S"], iv=[2], ret="-", S=[1], T=[], val=[2]),
             dict(op="Push", cs="ok", a=["S"], iv=[7], ret="-", S=[2, 1], T=[], val=[2, 7]),
             dict(op="Pop", cs="ok", a=["S"], iv=[], ret="i2", S=[1], T=[], val=[2, 7])]
    expect_pass(rep, binary, "stack", "stack replayer accepts a correct behaviour", sgood)
    bad = json.loads(json.dumps(sgood)); bad[1]["S"] = [1, 2]
    expect_mismatch(rep, binary, "stack", "stack replayer rejects FIFO order", bad, "stack/Push/walk")
    bad = json.loads(json.dumps(sgood)); bad[2]["S"] = [2, 1]
    expect_mismatch(rep, binary, "stack", "stack replayer rejects a popped item still listed", bad, "stack/Pop/")
    # thorough: the complete edge cover of the 3-element abstract state graph and all short sequences were replayed
    rep.cov["exhaustive"] = not quick
    rep.cov["rule"] = (
        "behaviours = operation sequences of ListSeq / StackSeq over two containers with handles drawn from every element "
        "ever returned, the roots and nil: (quick) a seeded random 1/4 of the one-shortest-behaviour-per-edge cover for 3 "
        "elements, all sequences of length 2 (List) / 3 (Stack), random walks of depth 30 over 8 elements; (thorough) the "
        "complete edge cover for 3 elements, a sampled one for 4, all sequences of length 3 (List) / 4 (Stack), more walks. "
        "After EVERY step the real structure is compared with the spec's state: Front..Next walk, reversed Back..Previous "
        "walk (by element identity, bounded by Len+3), Len, Slice, Iterator, Reverse, Copy, In(list) for every handle, "
        "Ok, Value, the return value; at the end PopIterator / PopReverse on copies. non-trivial = at least two accepted "
        "mutating operations")
