"""C03 worker-group error contract: nothing lost, nothing leaked, abort stops (ProcessParallel /
ParallelForEach / Worker / Map / GenerateParallel under every WorkerGroupConf)."""
import concurrent.futures as cf

from vlib import harness, replay
from props import c03_lib as L

LEVEL = "model_checking"


def run(rep, tier, seed, replay_file=None):
    if replay_file:
        return L.replay_saved(rep, replay_file)
    quick = tier == "quick"
    rep.assumptions += L.ASSUMPTIONS
    rep.assumptions.append(
        "WorkersFault is model-checked with AbortCancels = TRUE, i.e. with the PROPOSED repair of the abort path "
        "(fixes/workergroup-abort-cancels.diff), which satisfies AbortBound; the code as it is corresponds to AbortCancels = FALSE "
        "(the MC_wf_*_asis_abort configs: TLC violates AbortBound there exactly as the real code does - known finding "
        "wgerr/<construct>/abort/other-workers-consume-input*, the repair was withdrawn because TestParallelForEach/AbortOnPanic "
        "contradicts it); everything else (NothingSwallowed, NeverReported, NilIffNoFailure, exactly-once under Continue*, "
        "'the failing worker takes no further item') is the same in both variants and is judged on the real code")
    pool = cf.ThreadPoolExecutor(max_workers=2)

    # 1. design level, in the background: the implementation-shaped worker group with failing user functions
    #    (every interleaving), with the proposed repairs switched on; the as-pinned variants and seeded
    #    mutations must violate the named invariant (non-vacuity)
    jobs = L.IMPL_QUICK if quick else L.IMPL_QUICK + L.IMPL_FULL
    f_impl = pool.submit(L.run_models, rep, jobs, L.IMPL_NOTE, par=3, workers=2 if quick else 4)
    f_muts = pool.submit(L.run_expected_violations, rep, L.ASIS + L.MUTS, par=3 if quick else 4)

    # 2. the option x kind matrix: Classify refines Contract (TLC), every cell replayed on the real
    #    recover wrappers + CanContinueOnError
    gens = cf.ThreadPoolExecutor(max_workers=6)
    f_cells = gens.submit(L.cells, rep)
    # 3. model -> code: controllable schedules with what the property allows
    f_behs = gens.submit(L.gen, rep, "Ctl_wg_matrix.cfg", "option x kind x collector matrix on every construct (k=1, n=3, failure at any position)")
    f_edge = gens.submit(L.gen, rep, "Ctl_wg_edge.cfg",
                         "one shortest schedule per terminal edge of the abstract state graph: every reachable (fault script, held set), "
                         "pp/map/gen, n<=4, k<=3, <=2 failing items (err/skip/eof)")
    f_edge2 = None if quick else gens.submit(
        L.gen, rep, "Ctl_wg_edge_full.cfg", "the same for all five constructs, n<=5, five failure kinds (a seeded sample is replayed)", timeout=1500)
    f_abort = gens.submit(L.gen, rep, "Ctl_wg_abort.cfg", "abort mode with inputs long enough (n >= 2k+1) for 'k more items' and 'the rest of the input' to differ")
    f_cancel = gens.submit(L.gen, rep, "Ctl_wg_cancel.cfg", "the caller cancels its context / the consumer closes the output while user "
                           "functions are held; the held ones then fail (err, wrapped, panicErr): still reported, and Run of a worker group waits")
    f_sim = gens.submit(L.gen, rep, "Ctl_wg_sim.cfg", "random schedules n <= 8, k <= 4", simulate=dict(num=150 if quick else 4000), depth=16, seed=seed)
    binary = harness.build(L.BINARY)
    cells, behs, edge, abort, sim = f_cells.result(), f_behs.result(), f_edge.result(), f_abort.result(), f_sim.result()
    cancel = [b for b in f_cancel.result() if any(st["op"] == "cancel" for st in b["steps"])]
    cancel_class = lambda b: (b["cfg"]["c"], [st["arg"] for st in b["steps"] if st["op"] == "cancel"][0], bool(b["cfg"]["faults"]))
    cancel = L.stratified_by(cancel, cancel_class, 30 if quick else 800, seed)
    if quick:
        # the matrix: every (construct, failure kind) class is represented (5 x 15 classes, 14 cells each)
        behs, edge = L.stratified_by(behs, L.fault_class, 14, seed), L.sample(edge, 800, seed)
        abort = L.stratified(abort, 50, seed) + L.sample(abort, 100, seed)
    else:
        # finite spaces enumerated completely: the option x kind x collector x construct matrix, every terminal edge of
        # the abstract graphs of Ctl_wg_edge.cfg and Ctl_wg_abort.cfg (the n<=5 graph and the random schedules are samples)
        rep.cov["exhaustive"] = True
        edge = edge + L.sample(f_edge2.result(), 12000, seed)
    gens.shutdown()
    behs = replay.dedupe(behs + edge + abort + cancel + sim)
    if not cells or not behs:
        f_impl.result(); f_muts.result()
        return
    # gated schedules are controlled by the driver; the number of Ps only changes how the steps between two
    # quiescent points interleave
    env = {"GOMAXPROCS": str(1 + (seed - 1) % 3)}
    L.replay_all(rep, binary, "classify", [dict(n=i, cell=c) for i, c in enumerate(cells)], shards=2, env=env, label="wgerr/classify")
    items = [dict(n=i, beh=b) for i, b in enumerate(behs)]
    res = L.replay_all(rep, binary, "replay", items, shards=6 if quick else 10, env=env, label="wgerr")
    trans = [r["transcription"] for r in res.values() if r.get("transcription")]
    if trans:
        rep.cov["classify_differs_from_transcription_within_contract"] = trans[:5]

    # 4. code -> model: the history of every accepted replay, and free-running runs, judged by TLC
    origin, hists = {}, []
    for it in items:
        r = res.get(it["n"])
        if r and r.get("ok") and not r.get("inconclusive") and r.get("hist"):
            hists.append(r["hist"])
            origin[id(r["hist"])] = dict(item=it, mode="replay", judge="trace")
    nrec = 100 if quick else 2000
    free = L.record(rep, binary, nrec, seed)
    for h in free:
        origin[id(h)] = dict(record=[nrec, seed])
    L.validate(rep, hists + free, shards=6 if quick else 10)
    L.attach_origin(rep, origin)

    # 5. self-tests of the binding
    L.binding_self_tests(rep, binary, behs, hists)
    f_impl.result(); f_muts.result()
    pool.shutdown()

    held = [b for b in behs if sum(1 for s in b["steps"] if s["op"] == "rel") >= 2 and b["cfg"]["faults"]]
    if held:
        rep.sample(dict(kind="replayed schedule (user functions released one by one; expectations printed by TLC)", behaviour=held[len(held) // 2]))
    if cells:
        rep.sample(dict(kind="matrix cell replayed on CanContinueOnError", cell=[c for c in cells if c["kind"] == "excl" and c["o"]["exc"]][0]))
    if hists:
        rep.sample(dict(kind="recorded history (validated by TLC against WgErrTrace)", events=max(hists[:50], key=len)[:14]))
    rep.cov["rule"] = (
        "cells = all 16 kinds (10 returned / panicking failure kinds, 5 panics whose value is or wraps a never-reported sentinel, ok) x 2^4 options of ErrContract, each replayed on the four real recover wrappers + "
        "CanContinueOnError (reported? continue? against Contract).  behaviours = driver schedules of WgErrCtl (complete option x "
        "kind x collector matrix on pp/pfe/worker/map/gen with one worker; one schedule per terminal edge of the abstract graph "
        "for n<=4, k<=3, <=2 failing items (thorough: plus a sample of the n<=5 / five-kind / five-construct graph); abort scenarios n=5..8, k=2..3; random n<=8,k<=4; quick tier: seeded "
        "samples) replayed with gated user functions that return / panic as scripted; after every step the real construct runs "
        "to quiescence; at the end the errors.Is table of the result (returned error / Close()) is compared with what the spec "
        "allows for the failures that occurred (must be found / never found / nil iff), items processed at most once, exactly "
        "once in continue mode; after a cancellation by the caller / a Close by the consumer while user functions are held the Run of a "
        "worker group is still blocked and the failures those functions then return are still reported; in abort mode: the failing worker takes no further item and at most k items are started "
        "after the failing user function returned.  histories = every accepted replay plus free-running runs, validated by TLC "
        "against WgErrTrace.  non-trivial = at least one failing item or a release while others are held")
