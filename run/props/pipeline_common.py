"""Shared by c01.py / c04.py: the pipeline component (spec/pipeline, harness/cmd/vh-pipeline)."""
import concurrent.futures as cf
import json, os, random

from vlib import tlc, harness, replay

COMP = "pipeline"
BINARY = "vh-pipeline"

C01_NOTE = "C01: Conservation CloseAfterDrain SetupOnce EofComplete NoStall (+ order for one worker / Buffer)"
C04_NOTE = "C04: AllDone BlockedConsumerReleased NoDeadlock (Split: consumers with contexts of their own) RunReturns CloseIdempotent NoopCloseStartsNothing; liveness Settles, LiveTerminates (finite input => <>EOF under weak fairness)"

# (module, cfg) of the implementation-shaped specs; every cfg checks the C01 and the C04 invariants of
# its module on the same state space (the C01 ones bind in undisturbed states, the C04 ones after a stop)
IMPL_SMALL = [
    ("Workers", "MC_map.cfg"), ("Workers", "MC_pp.cfg"), ("Workers", "MC_pbuf.cfg"),
    ("Split", "MC_split.cfg"), ("Merge", "MC_merge.cfg"), ("Generate", "MC_gen.cfg"),
    ("Buffer", "MC_buffer0.cfg"), ("Buffer", "MC_buffer2.cfg"),
]
# thorough: larger constants, and the liveness property once more under the restricted LiveSpec
IMPL_FULL = [
    ("Workers", "MC_map_full.cfg"), ("Workers", "MC_pp_full.cfg"), ("Workers", "MC_pbuf_full.cfg"),
    ("Split", "MC_split_full.cfg"), ("Merge", "MC_merge_full.cfg"), ("Generate", "MC_gen_full.cfg"),
    ("Generate", "MC_gen_cap3.cfg"), ("Buffer", "MC_buffer1.cfg"),
    ("Workers", "MC_map_live.cfg"), ("Workers", "MC_pp_live.cfg"), ("Workers", "MC_pbuf_live.cfg"),
    ("Split", "MC_split_live.cfg"), ("Merge", "MC_merge_live.cfg"), ("Generate", "MC_gen_live.cfg"),
    ("Buffer", "MC_buffer_live.cfg"),
    # a room check followed by a plain send is harmless for ONE sender (the mutation needs several, see MUT_C04)
    ("Workers", "MC_pbuf_fastpath1.cfg"),
    # a generator that respects its context; and "a context error may be continued" on top of it, which a worker
    # loop that looks at its own context before every call (LoopChecksCtx, not the code) would survive
    ("Generate", "MC_gen_ctx.cfg"), ("Generate", "MC_gen_ctx_continue.cfg"),
    # the error check on every advance is harmless while no operand carries a recorded error (why plain merges look fine)
    ("Merge", "MC_merge_errcheck_plain.cfg"),
]
# seeded mutations of the Impl specs: the named invariant MUST be violated (non-vacuity self-tests)
MUT_C01 = [
    ("Workers", "MC_mut_closeearly.cfg", "EofComplete", "output closed when the reader is done, not when the WaitGroup drains"),
    ("Split", "MC_split_mut_noonce.cfg", "Conservation", "setup without Once: a second reader"),
    ("Merge", "MC_merge_mut_first.cfg", "EofComplete", "MergeIterators closes on the first source EOF"),
    ("Generate", "MC_gen_mut_first.cfg", "EofComplete", "GenerateParallel closes when the first worker is done"),
    ("Merge", "MC_merge_mut_errcheck.cfg", "EofComplete", "the merged producer checks the operands' error stack on every advance: the merge ends when an "
     "operand that finished normally but has a non-nil Close() is exhausted"),
]
MUT_C04 = [
    ("Workers", "MC_mut_nodone.cfg", "AllDone", "a send that no longer selects on ctx.Done"),
    ("Buffer", "MC_buffer_mut_nodone.cfg", "AllDone", "a send that no longer selects on ctx.Done"),
    ("Buffer", "MC_buffer_mut_noposthook.cfg", "NoStall", "PostHook close removed: consumer never sees io.EOF"),
    ("FirstAdvance", "MC_firstadvance_asis.cfg", "NoPanic", "as pinned: Close between the state check and the once of the first advance panics"),
    ("Split", "MC_split_abandon.cfg", "NoLeakOnPartialClose", "explored, not judged (DESIGN 5.0): abandoning the output whose context the reader uses"),
    ("Split", "MC_split_mut_eofclose.cfg", "NoDeadlock", "the pipe is closed only when the input reports io.EOF: a reader that ends with its context leaves the siblings blocked"),
    ("Workers", "MC_pbuf_mut_fastpath.cfg", "AllDone", "room check + plain send with several senders on one buffered pipe: the loser ignores its context"),
    ("Generate", "MC_gen_mut_spin.cfg", "Settles", "a context error is continued (the worker loop has no context check of its own): the worker calls a context-respecting generator for ever"),
]


def run_impl(rep, jobs, note, *, par=3, workers=2, timeout=900):
    """Model-check the Impl specs (several TLC runs side by side).  A failure is infrastructure
    trouble - the spec no longer satisfies the property and must be re-aligned with the code -
    never a verdict about the code."""
    def one(job):
        return job, tlc.run_tlc(COMP, job[0], job[1], workers=workers, timeout=timeout)
    ok = True
    with cf.ThreadPoolExecutor(max_workers=par) as ex:
        for job, r in ex.map(one, jobs):
            rep.add_tlc("%s/%s" % job, r, note)
            if not r.ok:
                ok = False
                rep.infra_error("model check of %s/%s failed (%s): spec and code must be re-aligned\n%s" % (
                    job[0], job[1], r.violated, r.out[-1200:]))
    return ok


def run_mutations(rep, muts, *, par=3):
    def one(m):
        return m, tlc.run_tlc(COMP, m[0], m[1], workers=1, timeout=300)
    with cf.ThreadPoolExecutor(max_workers=par) as ex:
        for m, r in ex.map(one, muts):
            hit = r.violated == m[2] or ("Temporal property %s was violated" % m[2]) in r.out
            rep.self_test("%s/%s: model violates %s (%s)" % (m[0], m[1], m[2], m[3]), hit, str(r.brief()))


def gen(rep, cfg, note, *, simulate=None, depth=None, seed=None, workers=2, timeout=600):
    r = tlc.run_tlc(COMP, "PipelineCtl", cfg, workers=1 if simulate else workers, simulate=simulate, depth=depth,
                    seed=seed, timeout=timeout)
    if not simulate:
        rep.add_tlc("PipelineCtl/" + cfg, r, note)
    if not r.ok:
        rep.infra_error("behaviour generation %s failed: %s" % (cfg, r.out[-1500:]))
        return []
    return replay.dedupe(r.tagged.get("BEH", []))


def nontrivial(b):
    """a schedule that exercises more than start-and-finish: at least one item and a step that
    interleaves with the pipeline (a held user function, a stop, a race, or a free run)"""
    ops = [s["op"] for s in b["steps"]]
    return b["cfg"]["n"] > 0 and (len(ops) > 1 or ops[0] in ("freerun", "race-close", "race-cancel", "race-fill-close", "race-fill-cancel"))


def contended(b):
    """a schedule with a contended burst: several user functions return at the same instant and their sends
    compete for the room of the pipe (the spec asks for repetitions: arg > 1)"""
    return any(s["op"] == "brel" and s["arg"] > 1 for s in b["steps"])


def sample(behs, n, seed):
    behs = list(behs)
    random.Random(seed).shuffle(behs)
    return behs[:n]


def step(op, arg, **kw):
    d = dict(op=op, arg=arg, set=[], may=[], eofs=[], must=[], live=[], run="may", leak=False, calls=0, full=False, stop="")
    d.update(kw)
    return d


def binding_self_tests(rep, binary, prop):
    """Feed the replayer behaviours with a deliberately wrong expectation: each must be rejected
    with the right key.  This shows the comparison is live and the oracles are not vacuous."""
    cfg = dict(c="split", n=3, k=2, cap=0, ord=True, fn=False, out=2, opt="", cb="plain")
    tests = []
    if prop == "C01":
        tests += [
            ("an item delivered that the spec does not allow yet", "split/output/not-allowed-yet",
             dict(cfg=cfg, steps=[step("read", 1, may=[], must=[1])])),
            ("the end of the output before every item was delivered", "buffer/eof/premature",
             dict(cfg=dict(c="buffer", n=1, k=1, cap=1, ord=True, fn=False, out=1, opt="", cb="plain"),
                  steps=[step("read", 1, may=[1], must=[1]), step("read", 1, may=[1], must=[1], eofs=[])])),
            ("delivered bag differs from the input bag at the end", "map/end/item-lost",
             dict(cfg=dict(c="map", n=2, k=2, cap=0, ord=False, fn=True, out=1, opt="", cb="plain"),
                  steps=[step("read", 1, may=[]), step("rel", 1, may=[1], must=[1], full=True)])),
            ("a burst release is executed: both results arrive although the (wrong) expectation allows none", "pbufg/output/not-allowed-yet",
             dict(cfg=dict(c="pbufg", n=3, k=2, cap=1, ord=False, fn=True, out=1, opt="", cb="plain"),
                  steps=[step("read", 1, may=[]), step("brel", 2, set=[1, 2], may=[], must=[1])])),
        ]
    else:
        tests += [
            ("census sees the reader Split leaves behind when only the other output is closed", "split/close-some/goroutine-leak/fun.ChanSend.Write",
             dict(cfg=cfg, steps=[step("read", 1, may=[1, 2, 3], must=[1]),
                                  step("close", 2, may=[1, 2, 3], eofs=[1, 2], leak=True, stop="close-some")])),
            ("a consumer still blocked is noticed", "map/close/reader-still-blocked",
             dict(cfg=dict(c="map", n=2, k=1, cap=0, ord=True, fn=True, out=1, opt="", cb="plain"),
                  steps=[step("read", 1, must=[1], stop="close")])),
            ("cancelling ONE consumer's context is executed: it stops the reader it started, the sibling sees the end", "split/eof/premature",
             dict(cfg=cfg, steps=[step("read", 1, may=[1, 2, 3], must=[1], live=[1, 2]),
                                  step("cancel", 1, may=[1, 2, 3], eofs=[1], must=[1, 2], live=[2], stop="cancel-some"),
                                  step("read", 2, may=[1, 2, 3], eofs=[1], must=[1, 2], live=[2], stop="cancel-some")])),
        ]
    items = [dict(n=i, beh=t[2]) for i, t in enumerate(tests)]
    rc, outs, err = harness.run(binary, ["replay"], items, timeout=120)
    res = {o["n"]: o for o in outs if "begin" not in o and "n" in o}
    for i, (name, key, _) in enumerate(tests):
        r = res.get(i, {})
        rep.self_test("replayer rejects: " + name, (not r.get("ok", True)) and r.get("key") == key, json.dumps(r)[:300])


def _classify(item, rc, outs, err):
    res = [o for o in outs if "begin" not in o and o.get("n") == item["n"]]
    if res:
        return ("fail", res[0]) if not res[0].get("ok") else ("ok", res[0])
    tail = err[-3000:]
    if "github.com/tychoish/fun" in tail and ("panic:" in tail or "fatal error:" in tail):
        return "crash", tail
    return "infra", tail


def replay_races(rep, binary, races, *, par=6, env=None, label="pipeline/stop-races-advance", timeout=900, retry_env=None):
    """The race behaviours are probabilistic (the Go scheduler decides where the stop lands), so they get
    their own driver: one process per behaviour (a panic in a library goroutine kills the process), and a
    hit is re-run alone up to three times before it is reported - a VIOLATION is issued only for a
    reproduced hit.  Hits that did not reproduce are infrastructure trouble unless another behaviour of
    the batch reproduced (then they are counted as corroborating, unreproduced observations)."""
    items = [dict(n=i, beh=b) for i, b in enumerate(races)]

    def one(item):
        try:
            rc, outs, err = harness.run(binary, ["replay"], [item], timeout=timeout, env_extra=env)
        except harness.InfraError as e:
            return item, ("infra", str(e))
        return item, _classify(item, rc, outs, err)
    with cf.ThreadPoolExecutor(max_workers=par) as ex:
        first = list(ex.map(one, items))
    passed, reproduced, unreproduced, suspects = [], {}, [], []
    for item, (kind, info) in first:
        if kind == "ok":
            if info.get("inconclusive"):
                rep.cov["inconclusive"] = rep.cov.get("inconclusive", 0) + 1
            else:
                passed.append(item["beh"])
        elif kind == "infra":
            rep.infra_error("%s: behaviour %d produced no result: %s" % (label, item["n"], str(info)[-400:]))
        else:
            suspects.append((item, info.get("key") if kind == "fail" else label + "/process-crash"))

    def again(item):
        # a re-run may ask for more repetitions of the same race (VH_BURST_REPS): same schedule, same oracle
        try:
            rc, outs, err = harness.run(binary, ["replay"], [item], timeout=timeout, env_extra=dict(env or {}, **(retry_env or {})))
        except harness.InfraError as e:
            return item, ("infra", str(e))
        return item, _classify(item, rc, outs, err)

    def reproduce(sus):
        item, key0 = sus
        for attempt in range(3):
            _, (k2, i2) = again(item)
            if k2 == "fail":
                return key0, item, (i2.get("key", key0), i2.get("what", ""),
                                    dict(behaviour=item, result=i2, binary=BINARY, args=["replay"]))
            if k2 == "crash":
                return key0, item, (label + "/process-crash", "the process died (panic in a library goroutine) while a stop "
                                    "raced with the consumers' advances: " + i2[-1500:], dict(behaviour=item, stderr=i2))
        return key0, item, None
    with cf.ThreadPoolExecutor(max_workers=par) as ex:
        for key0, item, hit in ex.map(reproduce, suspects):
            if hit:
                reproduced.setdefault(hit[0], []).append(hit)
            else:
                unreproduced.append((key0, item["n"]))
    for key, hits in reproduced.items():
        for h in hits:
            rep.violation(*h)
    # all behaviours of one batch probe the same race class: a hit that did not reproduce is infrastructure
    # trouble only if NO hit of the batch reproduced; otherwise it is a corroborating, unreported observation
    if unreproduced and not reproduced:
        rep.infra_error("%s: %d race hit(s) did not reproduce in three isolated re-runs: %s" % (
            label, len(unreproduced), unreproduced[:5]))
    rep.cov["race_hits_not_reproduced"] = len(unreproduced)
    rep.add_cases(passed, nontrivial=nontrivial)


def replay_saved(rep, path):
    """python3 run/check.py <ID> --replay <path>: re-run one saved failing behaviour."""
    obj = json.load(open(path))
    item = obj["replay"]["behaviour"]
    rep.level = "other"            # a single re-execution, no model checking in this mode
    rep.cov["explanation"] = ("replay mode: one saved failing behaviour (%s) re-executed against the current tree; "
                              "run the check without --replay for the evidence of the property" % os.path.basename(path))
    rep.cov["rule"] = "re-run of one saved failing behaviour"
    rep.add_cases([item["beh"]])
    rep.sample(dict(kind="saved behaviour", behaviour=item["beh"]))
    binary = harness.build(BINARY)
    rc, outs, err = harness.run(binary, ["replay"], [item], timeout=300, env_extra={"GOMAXPROCS": "4"})
    res = [o for o in outs if "begin" not in o and o.get("n") == item["n"]]
    if not res:
        tail = err[-3000:]
        if "github.com/tychoish/fun" in tail and ("panic:" in tail or "fatal error:" in tail):
            rep.violation(obj["key"], "reproduced: the process died: " + tail[-1200:], obj["replay"])
        else:
            rep.infra_error("replay produced no result: " + tail[-500:])
        return
    if not res[0].get("ok"):
        rep.violation(res[0].get("key", obj["key"]), res[0].get("what", ""), obj["replay"])
    rep.sample(dict(kind="replayed saved behaviour", result=res[0]))


ASSUMPTIONS = [
    "TLC is sound; Go channels (rendezvous / buffered / close / send-on-closed), select with ctx.Done, sync.Once, "
    "fun.WaitGroup and context cancellation behave as modelled in spec/pipeline/*.tla (DESIGN 3.1, Appendix A)",
    "a goroutine snapshot with no running/runnable goroutine, seen twice in a row with the same observations, is a "
    "fixed point of the real run (rt.Quiesce, vh-pipeline settle)",
    "exhaustive claims hold for the constants of the cfg files only (Impl specs: n<=3, k<=2 quick; n<=4, k<=3 thorough; "
    "buffer <= 2); the interleavings between two driver steps are sampled by the Go scheduler, not enumerated",
    "sources are finite and never block (slices, pre-filled channels, maps); user functions return when released - "
    "cb=plain ignores the context, cb=ctx returns the context's error as soon as that context is cancelled; no user "
    "function fails on its own",
    "an annotated operand / input (cfg.ann: Iterator.AddError before use, or the output of an upstream one-worker Map in "
    "ContinueOnError mode whose one extra item fails) delivers all its items and finishes normally with a non-nil Close(): "
    "nothing aborts such a run, so the delivered multiset is judged as for a plain input (the error itself is C03's)",
    "pbufg is assembled by the harness from the public parts Iterator.ParallelBuffer is made of (ProcessParallel over "
    "Blocking(chan).Send().Write, PostHook(buf.Close), IteratorWithHook closing the input), with a gate in front of the "
    "send and a capacity of its own: several senders on one buffered pipe whose arrival the schedule controls",
    "a burst (brel) lets the released user functions leave a spin latch together with GOMAXPROCS >= 4; whether their "
    "sends really overlap is up to the hardware: bursts and fill races sample that window, they do not enumerate it",
]
