"""C13 documented-safe types are free of data races (level: exploration - DESIGN.md section 7).

spec/lock/LockTable.tla      the lock-discipline table (cells, guards, one step list per public method / closure)
spec/lock/LockDiscipline.tla model check of the table (Lockset, HelperGuard, NoConcurrentConflict, Balanced); prints
                             the obligations: method pairs to overlap, state classes, choke points
spec/lock/LockTrace.tla      judges what the observers reported about the real code
harness/cmd/vh-race          executes the obligations: pairs / multi under the Go race detector, guard probes

Verdicts come only from the real code: a data race reported by the race detector between two accesses both made
through the library (reproduced by re-running the pair alone), or a guard probe that found the mutex free inside a
"caller must hold the lock" helper.  TLC errors, unlisted / unexercised obligations, unreproduced reports are exit 2."""
import copy, json, os, random, threading, time, concurrent.futures as cf

from vlib import tlc, harness, trace
from props import c13_lib as L

LEVEL = "exploration"
COMP = "lock"

ASIS = {  # name -> (Fixed, JudgeHandedOut, OnlyComps, invariant expected to fail)
    "queue-distributor-len": ('{"set-producer-lock", "set-equal-other", "collector-resolve-copy"}', "TRUE", '{"queue"}', "Lockset"),
    "broker-stats-on-queue": ('{"set-producer-lock", "set-equal-other", "collector-resolve-copy"}', "TRUE", '{"broker.queue"}', "NoConcurrentConflict"),
    "set-producer-lock": ('{"queue-distributor-len", "set-equal-other", "collector-resolve-copy"}', "TRUE", '{"set"}', "NoConcurrentConflict"),
    "set-equal-other": ('{"queue-distributor-len", "set-producer-lock", "collector-resolve-copy"}', "TRUE", '{"set"}', "HelperGuard"),
    "collector-resolve-copy": ('{"queue-distributor-len", "set-producer-lock", "set-equal-other"}', "TRUE", '{"collector"}', "Lockset"),
}


def asis_cfg(name):
    fixed, judge, only, inv = ASIS[name]
    return ("SPECIFICATION Spec\nCONSTANTS\n  Threads = {\"t1\", \"t2\"}\n  Fixed = %s\n  JudgeHandedOut = %s\n"
            "  OnlyComps = %s\n  EmitObligations = FALSE\nINVARIANT %s\nCHECK_DEADLOCK FALSE\n" % (fixed, judge, only, inv)), inv


def oneline(text):
    return " / ".join(x.strip() for x in text.splitlines() if x.strip())


def ev(**k):
    e = dict(ev="-", comp="-", cls="-", m1="-", m2="-", point="-", ok=1, sh=0)
    e.update(k)
    return e


def params(tier, seed):
    quick = tier == "quick"
    return dict(rounds=16 if quick else 40, iters=40 if quick else 80, shards=10 if quick else 12,
                gomaxprocs=[4, 2, 3, 6, 8][seed % 5],
                multi_rounds=4 if quick else 12, multi_ops=60 if quick else 150, multi_threads=3 if quick else 4,
                multi_seeds=1 if quick else 4, tlc_workers=6 if quick else 12)


# ------------------------------------------------------------------------------------------------ model
def model_phase(rep, tier, late):
    """-> obligations by component, or None.  late: list that receives a function to call at the end of the run
    (thorough tier: the 3-thread model check keeps running while the harness phases execute)"""
    P = 6 if tier == "quick" else 12
    names = ["queue-distributor-len", "set-producer-lock"] if tier == "quick" else list(ASIS)
    out = {}

    def main():
        out["mc"] = tlc.run_tlc(COMP, "LockDiscipline", "MC.cfg", workers=P, timeout=900)

    def three():
        out["mc3"] = tlc.run_tlc(COMP, "LockDiscipline", "MC_3.cfg", workers=P, timeout=1500)

    def asis(n):
        cfg, inv = asis_cfg(n)
        out["asis:" + n] = tlc.run_tlc(COMP, "LockDiscipline", "X.cfg", workers=2, timeout=300, files={"X.cfg": cfg})

    ths = [threading.Thread(target=main)] + [threading.Thread(target=asis, args=(n,)) for n in names]
    for t in ths:
        t.start()
    if tier != "quick":
        t3 = threading.Thread(target=three)
        t3.start()

        def finish3():
            t3.join()
            rep.add_tlc("LockDiscipline/MC_3.cfg", out["mc3"], "3 threads, components with once/frozen/rw guards + waitgroup collector queue")
            if not out["mc3"].ok:
                rep.infra_error("3-thread model check failed (%s)\n%s" % (out["mc3"].violated, out["mc3"].out[-1500:]))
        late.append(finish3)
    for t in ths:
        t.join()
    r = out["mc"]
    rep.add_tlc("LockDiscipline/MC.cfg", r, "table with the proposed repairs, 2 threads, every component: Lockset HelperGuard "
                "NoConcurrentConflict Balanced; prints the obligations")
    if not r.ok:
        rep.infra_error("model check of the lock table failed (%s): table and code must be re-aligned\n%s" % (r.violated, r.out[-1500:]))
        return None
    for n in names:
        ra = out["asis:" + n]
        rep.add_tlc("LockDiscipline/as-is:" + n, ra, "table as the code is without repair %s: expected to violate %s" % (n, ASIS[n][3]))
        rep.self_test("as-is table violates %s without repair %s (non-vacuity)" % (ASIS[n][3], n),
                      ra.violated == ASIS[n][3], str(ra.brief()))
    obl = {o["comp"]: o for o in r.tagged.get("OBLIG", [])}
    if not obl:
        rep.infra_error("TLC printed no obligations")
        return None
    return obl


# ------------------------------------------------------------------------------------------------ jobs
def pair_jobs(obl, p, seed):
    jobs = []
    for c in sorted(obl):
        o = obl[c]
        for cls in o["classes"]:
            for m1, m2 in o["pairs"]:
                jobs.append({"comp": c, "class": cls, "m1": m1, "m2": m2, "blocking": o["blocking"],
                             "rounds": p["rounds"], "iters": p["iters"], "shapes": o["shapes"]})
    random.Random(seed).shuffle(jobs)
    for i, j in enumerate(jobs):
        j["n"] = i
    return jobs


def multi_jobs(obl, p, seed):
    jobs = []
    for c in sorted(obl):
        o = obl[c]
        ms = [m for m in o["public"] if m not in o["unjudged"]]
        if len(ms) < 2:
            continue
        for cls in o["classes"]:
            for k in range(p["multi_seeds"]):
                jobs.append({"comp": c, "class": cls, "methods": ms, "blocking": o["blocking"], "rounds": p["multi_rounds"],
                             "ops": p["multi_ops"], "threads": p["multi_threads"], "seed": seed * 1000 + k})
    random.Random(seed + 1).shuffle(jobs)
    for i, j in enumerate(jobs):
        j["n"] = i
    return jobs


def probe_jobs(obl):
    jobs = []
    for c in sorted(obl):
        o = obl[c]
        for cls in o["classes"]:
            for m in o["public"]:
                jobs.append({"n": len(jobs), "comp": c, "class": cls, "m": m, "block": m in o["blocking"]})
    return jobs


def findings_of(result, comp, lib_prefixes=(L.LIB,)):
    """what one job's run says: (set of library race keys, dict key -> report text, incomplete reports, crash).
    key = race/<component>/<the two accessing library functions, sorted> (the component, because e.g. the limit
    tracker's functions are shared by Queue and Deque)"""
    keys, raw, incomplete = set(), {}, 0
    for r in L.parse_reports(result["stderr"]):
        v, k, fns = L.classify(r, lib_prefixes)
        if v == "library":
            k = "race/%s/%s" % (comp, k[len("race/"):])
            keys.add(k)
            raw.setdefault(k, r["raw"])
        elif v == "incomplete":
            incomplete += 1
    crash = result["crash"]
    if crash and crash.startswith("crash/concurrent-map"):
        k = "crash/%s/%s" % (comp, crash[len("crash/"):])   # the runtime's own detector of unsynchronised map access
        keys.add(k)
        raw.setdefault(k, result["stderr"][-3000:])
    return keys, raw, incomplete, crash


def confirm(binary, mode, job, key, p, attempts=3, log=None):
    """re-run one job alone (own process, more rounds); the report must come back"""
    seen = set()
    for a in range(attempts):
        if log is not None:
            log.append(dict(kind="re-run", attempt=a, rounds=job["rounds"] * (3 + 2 * a)))
        j = dict(job, n=0, rounds=job["rounds"] * (3 + 2 * a))
        res = L.run_jobs(binary, mode, [j], timeout=600, gomaxprocs=p["gomaxprocs"])
        keys, raw, inc, crash = findings_of(res[0], job["comp"])
        seen |= keys
        if key in keys:
            return True, raw.get(key, ""), seen
    return False, "", seen


def race_phase(rep, binary, mode, jobs, p, label):
    """runs the jobs, confirms every distinct report key on one of its jobs.  -> (per job confirmed keys, evidence)"""
    res = L.run_sharded(binary, mode, jobs, shards=p["shards"], timeout=1200, gomaxprocs=p["gomaxprocs"])
    by_key, per_job, stuck = {}, {}, []
    for j in jobs:
        r = res.get(j["n"])
        if r is None:
            rep.infra_error("%s: job %d was not run" % (label, j["n"]))
            continue
        keys, raw, inc, crash = findings_of(r, j["comp"])
        per_job[j["n"]] = dict(keys=keys, raw=raw, incomplete=inc, crash=crash, end=r["end"])
        if crash == "stuck":
            stuck.append(j)
        elif crash and not crash.startswith("crash/concurrent-map"):
            rep.infra_error("%s: the harness died in job %s (%s): %s" % (label, {k: j[k] for k in j if k not in ("blocking", "methods")},
                                                                       crash, r["stderr"][-1200:]))
        for k in keys:
            by_key.setdefault(k, []).append(j)
    if stuck:
        rep.infra_error("%s: %d job(s) did not finish after their contexts were cancelled, e.g. %s" % (
            label, len(stuck), {k: stuck[0][k] for k in stuck[0] if k not in ("blocking", "methods")}))
    confirmed = {}
    lock = threading.Lock()

    def work(item):
        # every isolated re-run counts for every key it shows (a report that comes back in the isolated run
        # of another job of the same component is reproduced just as well)
        key, js = item
        for j in js[:4]:
            with lock:
                if key in confirmed:
                    return
            for a in range(3):
                jj = dict(j, n=0, rounds=j["rounds"] * (3 + 2 * a))
                res = L.run_jobs(binary, mode, [jj], timeout=600, gomaxprocs=p["gomaxprocs"])
                keys, raw, inc, crash = findings_of(res[0], j["comp"])
                with lock:
                    for k in keys:
                        confirmed.setdefault(k, dict(job=j, report=raw.get(k, "")))
                    if key in confirmed:
                        return

    with cf.ThreadPoolExecutor(max_workers=6) as ex:
        list(ex.map(work, sorted(by_key.items(), key=lambda kv: (-len(kv[1]), kv[0]))))
    for key in sorted(by_key):
        if key not in confirmed:
            rep.infra_error("%s: race report %s was not reproduced when its job was re-run alone (job %s)" % (
                label, key, {k: by_key[key][0][k] for k in by_key[key][0] if k not in ("blocking", "methods")}))
    confirmed = {k: v for k, v in confirmed.items() if k in by_key}
    inc_only = [n for n, x in per_job.items() if x["incomplete"] and not x["keys"]]
    if inc_only:
        rep.cov.setdefault("reports_with_unrestored_stack", 0)
        rep.cov["reports_with_unrestored_stack"] += len(inc_only)
    return per_job, confirmed


# ------------------------------------------------------------------------------------------------ main
def run(rep, tier, seed, replay_file=None):
    p = params(tier, seed)
    rep.assumptions += [
        "the Go race detector reports only real data races (no false positives) and the TryLock probe only reports a mutex nobody holds",
        "the lock table (spec/lock/LockTable.tla) lists the methods to exercise: a method missing from the table is not covered",
        "a data race is a property of every execution; the detector sees the executions the drivers produced (exploration, not proof)",
        "TLC is sound for the model check of the table and for the judgement of the recorded events",
    ]
    if replay_file:
        return replay(rep, replay_file, p)

    t0 = time.time()
    phase = rep.cov.setdefault("phase_s", {})

    def lap(name):
        nonlocal t0
        phase[name] = round(time.time() - t0, 1)
        t0 = time.time()

    late = []
    try:
        body(rep, tier, seed, p, late, lap)
    finally:
        for f in late:
            f()
        lap("late")


def body(rep, tier, seed, p, late, lap):
    obl = model_phase(rep, tier, late)
    lap("model")
    if obl is None:
        return
    rep.cov["rule"] = (
        "cases = (component, state class, method pair) jobs taken from the OBLIG lines TLC prints from the lock table (every pair of "
        "public methods / handed-out closures that touch a common cell with at least one write), each run as two goroutines from a "
        "start barrier for rounds x iters calls on fresh shared objects under the Go race detector; plus randomised multi-method "
        "runs per (component, class) and single-goroutine guard-probe calls of every method per class.  non-trivial = a pair / multi "
        "job in which every scheduled call completed (the two methods really ran side by side on one object), or a probe job in "
        "which at least one guard probe fired; distinct = distinct job description.  All events are judged by TLC (LockTrace).")

    # ---- builds and cross-check of the harness against the table
    race_bin = harness.build("vh-race", race=True, timeout=1500)
    guard_bin, why_not = L.build_guard(race=False)
    rc, outs, err = harness.run(race_bin, ["list"], None, timeout=60)
    have = {o["comp"]: o for o in outs if "comp" in o}
    for c, o in obl.items():
        h = have.get(c)
        if h is None:
            rep.infra_error("harness has no component %s" % c)
            continue
        if set(h["methods"]) != set(o["public"]) or set(h["classes"]) != set(o["classes"]):
            rep.infra_error("harness and table disagree on %s: methods only in table %s, only in harness %s; classes %s vs %s" % (
                c, sorted(set(o["public"]) - set(h["methods"])), sorted(set(h["methods"]) - set(o["public"])), o["classes"], h["classes"]))
    for c in set(have) - set(obl):
        rep.infra_error("harness component %s is not in the table" % c)
    if rep.infra:
        return

    lap("build+list")
    # ---- self-tests of the observers
    rc, outs, err = harness.run(race_bin, ["selftest", "toy-race"], None, timeout=120, env_extra={"GORACE": L.GORACE})
    reps = L.parse_reports(L.split_by_job(err).get(0, ""))
    as_toy = [L.classify(r, ("main.(*toyCounter)",))[0] for r in reps]
    as_lib = [L.classify(r)[0] for r in reps]
    rep.self_test("race detector reports the deliberately racy toy type and the classifier attributes it",
                  "library" in as_toy, "reports=%d %s" % (len(reps), as_toy[:3]))
    rep.self_test("a race outside the library is not attributed to the library", bool(reps) and "library" not in as_lib, str(as_lib[:3]))

    # ---- observer 1: pairs and multi-method runs under the race detector
    pj = pair_jobs(obl, p, seed)
    per_pair, conf_pair = race_phase(rep, race_bin, "pairs", pj, p, "pairs")
    lap("pairs")
    mj = multi_jobs(obl, p, seed)
    per_multi, conf_multi = race_phase(rep, race_bin, "multi", mj, p, "multi")
    lap("multi")
    confirmed = dict(conf_multi)
    confirmed.update(conf_pair)

    events, origin = [ev(ev="reset")], [None]
    unjudged_obs = {}
    for j in pj:
        x = per_pair.get(j["n"])
        if x is None:
            continue
        ks = sorted(k for k in x["keys"] if k in confirmed)
        events.append(ev(ev="pair", comp=j["comp"], cls=j["class"], m1=j["m1"], m2=j["m2"], ok=0 if ks else 1,
                         sh=(x["end"] or {}).get("shapes", 0)))
        origin.append(dict(kind="pair", job=j, keys=ks))
        if ks and (j["m1"] in obl[j["comp"]]["unjudged"] or j["m2"] in obl[j["comp"]]["unjudged"]):
            for k in ks:
                unjudged_obs.setdefault(k, "%s || %s (%s)" % (j["m1"], j["m2"], j["class"]))
    for j in mj:
        x = per_multi.get(j["n"])
        if x is None:
            continue
        ks = sorted(k for k in x["keys"] if k in confirmed)
        events.append(ev(ev="multi", comp=j["comp"], cls=j["class"], ok=0 if ks else 1))
        origin.append(dict(kind="multi", job=j, keys=ks))

    def complete(j, x, per_round):
        return x["end"] is not None and x["end"]["calls"] == per_round * j["rounds"]
    done_pairs = [dict(kind="pair", comp=j["comp"], cls=j["class"], m1=j["m1"], m2=j["m2"],
                       complete=complete(j, per_pair[j["n"]], 2 * j["iters"])) for j in pj if j["n"] in per_pair]
    done_multi = [dict(kind="multi", comp=j["comp"], cls=j["class"], seed=j["seed"],
                       complete=complete(j, per_multi[j["n"]], j["threads"] * j["ops"])) for j in mj if j["n"] in per_multi]
    rep.add_cases(done_pairs + done_multi, nontrivial=lambda c: c["complete"])
    rep.cov["pair_jobs"], rep.cov["multi_jobs"] = len(done_pairs), len(done_multi)
    rep.cov["calls_under_race_detector"] = sum(x["end"]["calls"] for x in list(per_pair.values()) + list(per_multi.values()) if x["end"])
    if pj:
        j0 = pj[0]
        rep.sample(dict(kind="pair job", job={k: j0[k] for k in ("comp", "class", "m1", "m2", "rounds", "iters")},
                        result=per_pair[j0["n"]]["end"] if j0["n"] in per_pair else None))

    # ---- observer 2: guard probes (only when the repository carries the hooks)
    probes_ok = 0
    if guard_bin is None:
        rep.cov["guard_probes"] = "not available: " + why_not + " (fixes/hook-c13-guard-probes.addonly.diff not applied); nothing is concluded from the probes"
    else:
        rc, outs, err = harness.run(guard_bin, ["selftest", "probe"], None, timeout=60)
        pr = {e["point"]: e for o in outs for e in (o.get("probes") if isinstance(o.get("probes"), list) else [])}
        un = [e for k, e in pr.items() if k.startswith("selftest.unlocked")]
        lk = [e for k, e in pr.items() if k.startswith("selftest.locked")]
        rep.self_test("a probe on an unlocked mutex is reported, on a locked one is not",
                      len(un) == 3 and all(e["unheld"] > 0 and e["held"] == 0 for e in un)
                      and len(lk) == 3 and all(e["held"] > 0 and e["unheld"] == 0 for e in lk), json.dumps(pr)[:300])
        qj = probe_jobs(obl)
        pres = L.run_sharded(guard_bin, "probe", qj, shards=6, timeout=600, gomaxprocs=4)
        fired = []
        for j in qj:
            r = pres.get(j["n"])
            if r is None or r["end"] is None:
                rep.infra_error("probe job did not finish: %s %s" % (j, (r or {}).get("crash")))
                continue
            for e in r["end"]["probes"]:
                if e["held"] + e["unheld"] == 0:
                    continue
                events.append(ev(ev="probe", comp=j["comp"], cls=j["class"], m1=j["m"], point=e["point"], ok=0 if e["unheld"] else 1))
                origin.append(dict(kind="probe", job=j, point=e["point"], counts=e))
            fired.append(dict(kind="probe", comp=j["comp"], cls=j["class"], m=j["m"], fired=sum(e["held"] + e["unheld"] for e in r["end"]["probes"])))
        rep.add_cases(fired, nontrivial=lambda c: c["fired"] > 0)
        rep.cov["guard_probes"] = "available: %d probe jobs, %d with at least one probe" % (len(fired), sum(1 for c in fired if c["fired"]))
        probes_ok = 1
        smp = [o for o in origin if o and o["kind"] == "probe"]
        if smp:
            rep.sample(dict(kind="guard probe", comp=smp[0]["job"]["comp"], cls=smp[0]["job"]["class"], method=smp[0]["job"]["m"],
                            point=smp[0]["point"], counts=smp[0]["counts"]))
    lap("probes")
    events.append(ev(ev="end", ok=probes_ok))
    origin.append(dict(kind="end"))
    # (infrastructure trouble so far - an unreproduced report, a harness process that died for another reason than a
    # detected race - does not stop the judgement: reproduced violations are still reported; report.finish gives
    # violations precedence and otherwise exits 2)

    # ---- TLC judges the events; in parallel: a corrupted copy must be rejected at the corrupted events
    bad_copy = copy.deepcopy(events)
    flip = next((i for i, e in enumerate(bad_copy) if e["ev"] == "pair" and e["ok"] == 1
                 and e["m1"] not in obl[e["comp"]]["unjudged"] and e["m2"] not in obl[e["comp"]]["unjudged"]), None)
    drop = next((i for i in range(len(bad_copy) - 1, 0, -1) if bad_copy[i]["ev"] == "pair"), None)
    dropped = None
    if flip is not None and drop is not None and flip != drop:
        bad_copy[flip]["ok"] = 0
        dropped = bad_copy.pop(drop)
    with cf.ThreadPoolExecutor(max_workers=2) as ex:
        f1 = ex.submit(trace.validate, COMP, "LockTrace", "Trace.cfg", [events], 900)
        f2 = ex.submit(trace.validate, COMP, "LockTrace", "Trace.cfg", [bad_copy], 900) if dropped else None
        acc, r, info = f1.result()
        acc2, r2, info2 = f2.result() if f2 else (None, None, None)
    lap("trace")
    rep.add_tlc("LockTrace/Trace.cfg", r, "judgement of %d observer events" % (len(events) - 1))
    if dropped:
        b2 = info2.get("bad", []) if isinstance(info2, dict) else []
        hit_flip = any(b["why"] == "race" and b["i"] == flip + 1 for b in b2)
        hit_drop = any(b["why"] == "missing-pair" and dropped["m1"] in b["what"] and dropped["m2"] in b["what"] and dropped["cls"] in b["what"] for b in b2)
        rep.self_test("trace spec rejects a pair event turned into 'race reported' and notices a dropped pair",
                      acc2 is False and hit_flip and hit_drop, "flip=%s drop=%s n_bad=%d" % (hit_flip, hit_drop, len(b2)))
    if acc is None:
        rep.infra_error("trace validation did not complete: " + str(info)[:800])
        return
    flagged = info["bad"] if acc is False else []
    # report.finish prints / saves the first ten violations: interleave the components so that each one shows up
    rank, by_comp = {}, {}
    for b in sorted(flagged, key=lambda b: b["i"]):
        o = origin[b["i"] - 1] if 0 < b["i"] <= len(origin) else None
        c = o["job"]["comp"] if o and "job" in o else "-"
        rank[b["i"], b["why"], b["what"]] = (by_comp.setdefault(c, 0), c)
        by_comp[c] += 1
    flagged = sorted(flagged, key=lambda b: rank[b["i"], b["why"], b["what"]])
    reported = set()
    for b in flagged:
        o = origin[b["i"] - 1] if 0 < b["i"] <= len(origin) else None
        if b["why"] == "race" and o and o.get("keys"):
            for k in o["keys"]:
                if k in reported:
                    continue
                reported.add(k)
                c = confirmed[k]
                cj = {x: c["job"][x] for x in c["job"] if x != "n"}
                rep.violation(k, "data race between two accesses made through the library, %s job %s; reproduced when re-run alone.\n%s" % (
                    o["kind"], json.dumps({x: cj[x] for x in cj if x not in ("blocking", "methods")}), oneline(c["report"][:1800])),
                    dict(kind=o["kind"], job=cj, key=k, report=c["report"]))
        elif b["why"] == "unheld" and o:
            key = "probe/%s/%s/unheld" % (o["point"], o["job"]["m"])
            if key not in reported:
                reported.add(key)
                rep.violation(key, "guard probe: %s entered from %s (%s %s) without its mutex held - TryLock succeeded %d time(s)" % (
                    o["point"], o["job"]["m"], o["job"]["comp"], o["job"]["class"], o["counts"]["unheld"]),
                    dict(kind="probe", job=o["job"], point=o["point"]))
        else:
            rep.infra_error("coverage obligation not met / events do not match the table: %s %s" % (b["why"], b["what"]))
            if sum(1 for m in rep.infra if "coverage obligation" in m) > 8:
                break
    # consistency: every confirmed judged race must have been flagged by TLC
    judged_conf = {k for o in origin if o and o.get("keys") and o["kind"] in ("pair", "multi")
                   and not (o["kind"] == "pair" and (o["job"]["m1"] in obl[o["job"]["comp"]]["unjudged"] or o["job"]["m2"] in obl[o["job"]["comp"]]["unjudged"]))
                   for k in o["keys"]}
    missed = judged_conf - reported
    if missed:
        rep.infra_error("TLC did not flag confirmed race(s) %s" % sorted(missed))
    if unjudged_obs:
        rep.cov["observations_not_judged"] = [dict(key=k, where=v, note="race involving a value handed out by a method (Collector.Resolve "
                                                   "returns &ec.stack); judged only with JudgeHandedOut = TRUE") for k, v in sorted(unjudged_obs.items())]
        k0 = sorted(unjudged_obs)[0]
        rep.sample(dict(kind="race report (explored, not judged)", key=k0, report=confirmed[k0]["report"][:1200]))
    if reported:
        k0 = sorted(reported)[0]
        if k0 in confirmed:
            rep.sample(dict(kind="race report (violation)", key=k0, report=confirmed[k0]["report"][:1200]))
    rep.cov["distinct_race_keys_confirmed"] = sorted(confirmed)
    rep.cov["violation_keys"] = sorted(reported)


# ------------------------------------------------------------------------------------------------ replay
def replay(rep, path, p):
    with open(path) as fh:
        doc = json.load(fh)
    rp = doc["replay"]
    rep.cov["rule"] = "re-run of one saved case"
    if rp["kind"] in ("pair", "multi"):
        binary = harness.build("vh-race", race=True, timeout=1500)
        mode = "pairs" if rp["kind"] == "pair" else "multi"
        job = dict(rp["job"], n=0)
        log = []
        ok, raw, seen = confirm(binary, mode, job, doc["key"], p, attempts=4, log=log)
        if len(log) < 2:     # the saved job is cheap: run it once more so that the evidence holds two executions
            ok2, raw2, seen2 = confirm(binary, mode, job, doc["key"], p, attempts=1, log=log)
            log[-1]["attempt"] = "again"
            seen |= seen2
        rep.add_cases(log)
        rep.sample(dict(kind="replayed job", job={k: job[k] for k in job if k not in ("blocking", "methods")}, keys_seen=sorted(seen)))
        if ok:
            rep.violation(doc["key"], "reproduced: " + oneline(raw[:1500]), rp)
        elif seen:
            for k in sorted(seen):
                rep.violation(k, "the saved job still races (different access pair than %s)" % doc["key"], dict(rp, key=k))
    elif rp["kind"] == "probe":
        guard_bin, why_not = L.build_guard(race=False)
        rep.sample(dict(kind="replayed probe", job=rp["job"]))
        if guard_bin is None:
            rep.cov["guard_probes"] = "not available: " + why_not
            rep.add_cases([dict(kind="probe not run", why=why_not), dict(kind="build attempted")])
            return
        hit = 0
        for a in range(2):
            res = L.run_jobs(guard_bin, "probe", [dict(rp["job"], n=0)], timeout=120)
            end = res[0]["end"]
            rep.add_cases([dict(kind="probe re-run", attempt=a, probes=(end or {}).get("probes"))])
            for e in (end or {}).get("probes", []):
                if e["point"] == rp["point"] and e["unheld"] > 0:
                    hit = e["unheld"]
        if hit:
            rep.violation(doc["key"], "reproduced: %s unheld %d time(s)" % (rp["point"], hit), rp)
