"""C08 Broker delivers each message exactly once, in order, to every subscriber."""
from vlib import harness
from props import broker_common as bc

LEVEL = "model_checking"
TRACE = "Trace_c08.cfg"


def _recvs(h):
    return [i for i, e in enumerate(h) if e.get("ev") == "recv"]


def dup_recv(h):
    r = _recvs(h)
    if not r:
        return None
    h.insert(r[-1] + 1, dict(h[r[-1]]))
    return h


def unpublished_recv(h):
    r = _recvs(h)
    if not r:
        return None
    h[r[0]]["p"] = "zz"
    return h


def plain(h):
    """lossless, nobody unsubscribes, no shutdown, no cancelled context: every accepted message is owed"""
    return bc.lossless(h) and not any(e.get("ev") in ("cancel", "cancelparent") or e.get("op") in ("unsub", "stop") for e in h)


def drop_recv(h):
    if not plain(h):
        return None
    r = _recvs(h)
    if not r:
        return None
    del h[r[-1]]
    return h


def swap_recv(h):
    if not (bc.lossless(h) and h[0]["w"] == 1):
        return None
    r = _recvs(h)
    for a, b in zip(r, r[1:]):
        if h[a]["s"] == h[b]["s"] and h[a]["p"] == h[b]["p"] and h[a]["i"] < h[b]["i"]:
            h[a]["i"], h[b]["i"] = h[b]["i"], h[a]["i"]
            h[a]["m"], h[b]["m"] = h[b]["m"], h[a]["m"]
            return h
    return None


SELFTESTS = [
    ("BrokerTrace rejects a duplicated receive", TRACE, dup_recv, "delivery/duplicate"),
    ("BrokerTrace rejects a receive of something never published", TRACE, unpublished_recv, "delivery/not-published"),
    ("BrokerTrace rejects a dropped receive (message owed, subscriber receiving)", TRACE, drop_recv, "exactly-once/lost"),
    ("BrokerTrace rejects two messages of one publisher received out of order", TRACE, swap_recv, "order/publisher-order"),
]


def run(rep, tier, seed, replay_file=None):
    quick = tier == "quick"
    rep.assumptions += [
        "TLC is sound; channels, select, sync.Map.Range, Queue/Deque blocking contracts (C07) and fun.WaitGroup (C14) behave as modelled in spec/broker/BrokerImpl.tla",
        "a goroutine snapshot with nothing runnable is a fixed point (rt.Quiesce, DESIGN 3.3)",
        "C08 window as fixed in DESIGN 5.0; the ExactlyOnce obligation is evaluated at quiescent points at which the broker's "
        "context is live and every holder of a subscription channel is receiving (a subscriber that does not receive may hold up "
        "a dispatch worker - documented behaviour)",
        "lossless = BufferSize 0 and channel / unlimited Queue / unlimited Deque distributor; SameOrder and PublisherOrder are judged for lossless brokers with one worker",
        "Deque back-ends are stepped with one dispatch worker (two idle waiters on one Deque condition variable never quiesce, DESIGN 3.3)",
    ]
    if replay_file:
        bc.replay_file(rep, replay_file, None)
        return
    with bc.phase(rep, "build"):
        binary = harness.build("vh-broker")
    # 1. design level
    with bc.phase(rep, "impl-models"):
        if bc.run_impl(rep, bc.delivery_models(quick), workers=4 if quick else 5, parallel=2 if quick else 3):
            bc.run_asis(rep, ["unsub", "ctlbuf"])
    # 2. model -> code: driver schedules of BrokerStep, executed on the real broker, judged by BrokerTrace
    with bc.phase(rep, "schedule-generation"):
        scheds, _ = bc.gen_schedules(rep, quick, seed, 1100 if quick else 9000, ("focus", "busy"))
    with bc.phase(rep, "schedule-execution"):
        hists = bc.run_schedules(rep, binary, scheds, 12, seed, "broker/sched") if scheds else []
    # 3. code -> model: random concurrent drivers
    with bc.phase(rep, "recorder"):
        rec = bc.record(rep, binary, 400 if quick else 4000, seed)
    if not rec:
        rep.infra_error("recorder produced no history")
    if hists or rec:
        with bc.phase(rep, "trace-validation"):
            bc.judge_delivery(rep, hists + rec, "broker/history")
    if hists:
        rep.sample(dict(kind="driver schedule (BrokerStep) executed with observation at quiescence", schedule=scheds[len(scheds) // 2]))
        rep.sample(dict(kind="recorded history judged by BrokerTrace", events=max(hists[:200], key=len)[:30]))
    # 4. the binding is not vacuous
    with bc.phase(rep, "self-tests"):
        bc.mutate_selftests(rep, hists + rec, SELFTESTS)
    rep.cov["rule"] = ("schedules = scenarios of BrokerStep (edge cover stratified by step kinds + random deep ones; thorough: + all "
                       "sequences of length 4) x configurations of BrokerStep!StepConfigs (every back-end x ParallelDispatch x "
                       "WorkerPoolSize 1,2 x BufferSize 0,1), executed on a real Broker with every API call in its own goroutine and "
                       "observation at quiescence; histories = those runs + random concurrent recorder runs; each history is validated "
                       "by BrokerTrace (receive sequences: OnlyPublished, NoDuplicate always; ExactlyOnce in the window, SameOrder, "
                       "PublisherOrder for lossless / one worker); non-trivial = history longer than 4 events")
