"""X01 (extra check, growth of the specification): channel operations and distributors.

fun.ChanOp / ChanSend / ChanReceive (/repo/chan.go) and pubsub.Distributor with its channel / Queue / Deque adaptors and
filters (/repo/pubsub/buffer.go, queue.go:348, deque.go:335-352).  No listed property governs this component: the
DOCUMENTED behaviour (doc comments) is the specification; where the documentation is silent the observed behaviour is a
named "as observed" choice of the spec; where documentation and code differ the registered configs accept both and the
divergence is demonstrated and listed in the evidence (coverage.documented_vs_actual), never judged.

Design level   spec/chan/ChanOp.tla  goroutines with explicit pcs over a Go channel (select arms, wait queues, recovered
               panic), exhaustive TLC: Conservation (FIFO, no loss / duplication), ResultsOK (documented table of
               ChanCore), NBNeverParks, NoStuck at quiescence, NoCrash, liveness Settles / CancelReturns; wrong variants
               (Variant = ...) must be refuted: non-vacuity self-tests
Model -> code  spec/chan/ChanStep.tla   quiescence-stepped + burst schedules with the SET of allowed observations,
               replayed by harness/cmd/vh-chan on real fun.Blocking(ch) / fun.NonBlocking(ch) values
               spec/chan/Distributor.tla sequential behaviours of the Distributor algebra over channel / Queue / Deque
               backends (QueueCore / DequeCore through INSTANCE), replayed with exact comparison
Code -> model  vh-chan record / drecord: free-running concurrent histories validated by ChanTrace / DistTrace
               (linearizability with blocked-at-quiescence obligations); the histories of the stepped schedules too
"""
import collections, concurrent.futures as cf, copy, json, os, random

from vlib import tlc, harness, replay
from props import x01_lib as xl

LEVEL = "model_checking"

MC = dict(quick=["MC_small_c0.cfg", "MC_small_c1.cfg", "MC_small_methods.cfg", "MC_small_loops.cfg", "MC_small_nil.cfg"],
          thorough=["MC_full_c0.cfg", "MC_full_c1.cfg", "MC_full_c2.cfg", "MC_full_nil.cfg", "MC_full_methods.cfg", "MC_full_loops.cfg",
                    "MC_mid_methods.cfg", "MC_small_loops.cfg", "MC_small_nil.cfg"])
# run with -coverage: every action of ChanOp.tla must be taken (sanity: no dead action)
COVERAGE = {"MC_small_loops.cfg"}
ACTIONS = ["Start", "Cancel", "Close", "LoopHead", "Select", "Recover", "Resume"]
# (cfg, what TLC must report, what the wrong variant is)
VARIANTS = [
    ("MC_v_nbparks.cfg", "NBNeverParks", "a NonBlocking send without `default` parks"),
    ("MC_v_noclosewake.cfg", "NoStuck", "Close does not wake parked senders: parked on a closed channel at quiescence"),
    ("MC_v_norecover.cfg", "NoCrash", "Write without the deferred recover: send on closed channel panics"),
    ("MC_v_closepanics.cfg", "NoCrash", "Close without its recover is not idempotent"),
    ("MC_v_dropdup.cfg", "Conservation", "a receive that leaves the item in the buffer duplicates it"),
    ("MC_doc_nil.cfg", "NoParkOnNil", "documented-vs-actual: judged against 'send on a nil channel = io.EOF' (chan.go:334) the code parks"),
    ("MC_spin.cfg", "TEMPORAL", "as observed: a NonBlocking Consume / Iterator spins on an empty channel (never quiescent)"),
]
# documented-vs-actual demonstrations: behaviours generated under the DOCUMENTED reading, replayed on the real code; the
# mismatches are listed in the evidence, never judged (name, module, cfg, harness subcommand, env, what)
PROBES = [
    ("nil-send-eof", "ChanStep", "Step_doc_nil.cfg", "sched", {},
     "chan.go:334 'io.EOF if the channel is closed (or nil)': a Blocking send on a nil channel blocks until its context ends, a NonBlocking one reports 'skipped'"),
    ("input-filter-masks-skip", "ChanStep", "Step_doc_mask.cfg", "sched", {},
     "buffer.go:40-44 WithInputFilter wraps push in WithoutErrors(ErrCurrentOpSkip); ErrNonBlockingChannelOperationSkipped is the same sentinel: "
     "over a full NonBlocking channel Send reports nil although nothing was sent (docs silent)"),
    ("lifo-broker-is-fifo", "Distributor", "Dist_doc_lifo.cfg", "dseq", {},
     "broker.go:117-128 NewLIFOBroker 'distributes messages in a LIFO order' but is built on Deque.DistributorNonBlocking (push back, pop front): FIFO, oldest shed"),
    ("defaultchan-mode-unset", "ChanStep", "Step_doc_nil.cfg:asis", "sched", {"VH_CHAN_CTOR": "defaultchan"},
     "chan.go:59-65 DefaultChan(nonNil) returns ChanOp{ch: input} without a mode ('blocking by default', chan.go:41-44): Write / Read report io.EOF "
     "without touching the channel, Ok() panics with ErrInvariantViolation"),
]


def tlc_job(job):
    kind, module, cfg, kw = job
    return tlc.run_tlc("chan", module, cfg, files=xl.extra_files(), **kw)


# ------------------------------------------------------------------------------------------------ replay of a saved file
def do_replay(rep, path):
    data = json.load(open(path))
    obj = data.get("replay", {})
    binary = harness.build("vh-chan")
    kind = obj.get("kind")
    if kind in ("sched", "dseq"):
        item = obj["item"]
        rc, o, err = harness.run(binary, [kind], [item], timeout=120)
        res = [x for x in o if "begin" not in x]
        if res and not res[0].get("ok"):
            rep.violation(res[0].get("key", data.get("key")), res[0].get("what", ""), obj)
        elif not res:
            tail = err[-3000:]
            if "github.com/tychoish/fun" in tail and ("panic:" in tail or "fatal error:" in tail):
                rep.violation(data.get("key"), "the process died while executing this behaviour: " + tail[-1200:], obj)
            else:
                rep.infra_error("replay produced no result: " + tail[-400:])
        else:
            rep.add_cases([item["beh"]])
    elif kind == "trace":
        # a recorded history cannot be re-executed (real concurrency); TLC judges the saved history again, then fresh ones
        acc, r, info = xl.validate(obj["module"], obj["cfg"], [obj["history"]])
        rep.add_tlc("%s/%s" % (obj["module"], obj["cfg"]), r, "re-validation of the saved history")
        if acc is None:
            rep.infra_error("trace validation did not complete: " + str(info)[:400])
            return
        if acc:
            rep.add_cases([obj["history"]])
            return
        sub, module, cfg, key_fn, label = ("record", "ChanTrace", "Trace.cfg", xl.chan_trace_key, "chan/trace") if obj["module"] == "ChanTrace" \
            else ("drecord", "DistTrace", "DistTrace.cfg", xl.dist_trace_key, "dist/trace")
        for attempt in range(3):
            hists = xl.record(rep, binary, sub, 400, 100 + attempt, 4, label)
            xl.validate_all(rep, module, cfg, hists, label=label, shards=4, key_fn=key_fn)
            if rep.violations or rep.infra:
                return
    else:
        rep.infra_error("replay file of unknown kind %r" % kind)


# ------------------------------------------------------------------------------------------------ entry
def run(rep, tier, seed, replay_file=None):
    if replay_file:
        return do_replay(rep, replay_file)
    quick = tier == "quick"
    rng = random.Random(seed)
    rep.assumptions += [
        "no listed property governs this component: the doc comments of chan.go / pubsub/buffer.go / queue.go:345-362 / deque.go:331-352 are the specification",
        "TLC is sound; Go channels, select and context cancellation behave as modelled in spec/chan/ChanOp.tla (select evaluates all arms under the "
        "channel lock; a parked goroutine is completed atomically by the step that wakes it)",
        "a goroutine snapshot with nothing runnable is a fixed point (rt.Quiesce); 'blocks' / 'returns' are judged at quiescent points only",
        "where ctx.Done() and a channel arm are both ready Go's select may take either: both results are allowed (docs promise neither)",
        "which of several parked counterparts a send / receive serves is not documented: any is allowed (Go serves the oldest)",
        "as observed (docs silent, named in the specs): an input-filter-rejected item reports nil; the input-filter wrapper turns a NonBlocking "
        "channel's own 'skipped' into nil (MaskSkip); ChanSend.Consume drops skipped items and ends with nil on a closed channel; a NonBlocking "
        "Consume / Iterator spins on an empty channel and is therefore not driven; a distributor Iterator consumes filter-rejected items silently",
        "documented-vs-actual (accepted both ways, listed in coverage.documented_vs_actual): send on a nil channel (chan.go:334)",
        "fun.Iterator binds its producer to the context of the first call: all Next calls of one iterator are driven with one context",
        "Deque-backed distributors: at most one goroutine per waiter class (two waiters on one Deque cond busy-loop and never quiesce, DESIGN 3.3)",
        "exhaustive claims hold for the constants of the cfg files only",
    ]
    binary = harness.build("vh-chan")
    # TLC workers per job / concurrent TLC jobs / harness shards (development on a shared machine: X01_LIGHT=1 halves them)
    light = bool(os.environ.get("X01_LIGHT"))
    W = 2 if quick or light else 3
    pool = (2 if light else 5) if quick else (2 if light else 4)

    # ---- 1. every TLC job of the design level and the behaviour generators, side by side
    jobs = []
    # development aid (sensitivity trials on scratch copies): the exhaustive models do not depend on the code under test
    skip_models = bool(os.environ.get("X01_SKIP_MODELS")) and bool(os.environ.get("VERIF_REPO"))
    for cfg in ([] if skip_models else MC[tier]):
        big = cfg.startswith("MC_full_c")
        jobs.append(("mc", "ChanOp", cfg, dict(workers=W + (1 if big else 0), timeout=2400, heap="6g", coverage=cfg in COVERAGE)))
    for cfg, inv, what in ([] if skip_models else VARIANTS):
        jobs.append(("variant", "ChanOp", cfg, dict(workers=1, timeout=600, heap="2g")))
    if quick:
        # Step_edge_q: at most 2 calls in flight; Step_edge_q2: 3 in flight on the plain methods (two parked receivers and one send ...)
        jobs.append(("gen", "ChanStep", "Step_edge_q.cfg", dict(workers=W, timeout=1200)))
        jobs.append(("gen", "ChanStep", "Step_edge_q2.cfg", dict(workers=1, timeout=1200)))
    else:
        jobs.append(("gen", "ChanStep", "Step_edge.cfg", dict(workers=W, timeout=1200)))
    if not quick:
        # (a simulation step of ChanStep evaluates the closure of every successor: too slow for the quick tier)
        jobs.append(("gen", "ChanStep", "Step_sim.cfg", dict(workers=1, simulate=dict(num=100), depth=20, seed=seed, timeout=1200)))
        jobs.append(("gen", "ChanStep", "Step_all.cfg", dict(workers=W, timeout=1200)))
    jobs.append(("gen", "Distributor", "Dist_edge.cfg", dict(workers=W, timeout=1200)))
    jobs.append(("gen", "Distributor", "Dist_all.cfg", dict(workers=W, timeout=1200)))
    jobs.append(("gen", "Distributor", "Dist_sim.cfg", dict(workers=1, simulate=dict(num=60 if quick else 1500), depth=16, seed=seed, timeout=1200)))
    for name, module, cfg, sub, env, what in PROBES:
        if ":" not in cfg:
            jobs.append(("probe", module, cfg, dict(workers=1, timeout=600, heap="2g")))
    # behaviour generators first (the replays wait for them); the exhaustive models run beside the replays
    order = sorted(range(len(jobs)), key=lambda i: (jobs[i][0] not in ("gen", "probe"), not jobs[i][2].startswith("MC_full_c"), i))
    ex = cf.ThreadPoolExecutor(max_workers=pool)
    futs = {i: ex.submit(tlc_job, jobs[i]) for i in order}
    try:
        _run(rep, tier, seed, quick, rng, binary, jobs, futs)
    finally:
        ex.shutdown(wait=True)


def _run(rep, tier, seed, quick, rng, binary, jobs, futs):
    light = bool(os.environ.get("X01_LIGHT"))
    SH = 4 if light else (6 if quick else 12)
    res = {i: futs[i].result() for i in futs if jobs[i][0] in ("gen", "probe")}
    variant_what = {v[0]: (v[1], v[2]) for v in VARIANTS}

    def judge_models():
        ok = True
        for i, (kind, module, cfg, kw) in enumerate(jobs):
            if kind not in ("mc", "variant"):
                continue
            r = futs[i].result()
            if kind == "mc":
                rep.add_tlc("%s/%s" % (module, cfg), r, "Impl spec, exhaustive: Conservation ResultsOK NBNeverParks NoStuck ParkedAccounted NoCrash"
                            + (" + liveness Settles CancelReturns" if "PROPERTIES" in open(os.path.join(tlc.SPEC, "chan", cfg)).read() else ""))
                if not r.ok:
                    ok = False
                    why = ("%s violated: the Impl spec no longer satisfies the documented table - spec and code must be re-aligned" % r.violated) \
                        if r.violated or r.rc in (12, 13) else "TLC did not complete (rc=%s, timed out=%s)" % (r.rc, r.timed_out)
                    rep.infra_error("model check %s/%s failed: %s\n%s" % (module, cfg, why, r.out[-1500:]))
                elif kw.get("coverage"):
                    dead = [a for a in ACTIONS if r.coverage.get(a, (0, 0))[1] == 0]
                    rep.self_test("%s/%s coverage: every action of ChanOp.tla is taken" % (module, cfg), not dead, "never taken: %s" % dead)
            else:
                inv, what = variant_what[cfg]
                got = r.violated or ("TEMPORAL" if r.rc == 13 else None)
                rep.self_test("ChanOp/%s: %s -> TLC must report %s" % (cfg, what, inv), got == inv, str(r.brief()))
        return ok

    gens, probes_gen = {}, {}
    for i, (kind, module, cfg, kw) in enumerate(jobs):
        if kind == "gen":
            r = res[i]
            rep.add_tlc("%s/%s" % (module, cfg), r, "behaviour generation")
            if not r.ok:
                rep.infra_error("behaviour generation %s/%s failed: %s" % (module, cfg, r.out[-1500:]))
                return
            gens[cfg] = replay.dedupe(r.tagged.get("BEH", []))
        elif kind == "probe":
            probes_gen[cfg] = replay.dedupe(res[i].tagged.get("BEH", [])) if res[i].ok else None

    # ---- 2. model -> code: stepped channel schedules, allowed-set comparison
    edge = gens["Step_edge.cfg"] if not quick else replay.dedupe(gens["Step_edge_q.cfg"] + gens["Step_edge_q2.cfg"])
    sample, nclasses = xl.stratified(edge, 1 if quick else 4, rng, xl.step_class)
    rep.cov["chan_edge_classes"] = nclasses
    rep.cov["chan_edge_behaviours_generated"] = len(edge)
    rest = gens.get("Step_sim.cfg", []) + gens.get("Step_all.cfg", [])
    rng.shuffle(rest)
    if quick:
        rng.shuffle(sample)
        behs = sample[:1900]
    else:
        rng.shuffle(edge)
        behs = replay.dedupe(sample + edge[:20000] + rest[:8000])
    items, procs_count = [], collections.Counter()
    for b in behs:
        # a burst is run with GOMAXPROCS=1 (atomic with respect to the goroutines it wakes) and with 4 (other orders sampled)
        for procs in ([1, 4] if xl.has_burst(b) and len(b) <= 4 else [([1, 4][len(items) % 2]) if xl.has_burst(b) else 0]):
            items.append(dict(n=len(items), beh=b, procs=procs))
            procs_count[procs] += 1
    rep.cov["chan_burst_schedules"] = sum(1 for it in items if xl.has_burst(it["beh"]))
    env = {"GOMAXPROCS": str(1 + seed % 4)}
    results, _ = xl.run_items(rep, binary, "sched", items, "chan_sched", shards=SH, env=env,
                              nontrivial=lambda b: any("blocked" in str(v) for s in b[1:] for v in (s["br"]["res"].values() if isinstance(s["br"]["res"], dict) else [])))
    ops = collections.Counter()
    for it in items:
        r = results.get(it["n"], {})
        if r.get("ok") and not r.get("inconclusive"):
            for s in it["beh"][1:r.get("steps", len(it["beh"]) - 1) + 1]:
                for a in s["acts"]:
                    ops[a["op"] if a["op"] != "start" else "%s/%s" % (a["meth"], "nb" if a["nb"] else "b")] += 1
    rep.cov["chan_sched_ops"] = dict(sorted(ops.items()))
    if items:
        mid = items[len(items) // 2]
        rep.sample(dict(kind="ChanStep schedule: actions -> allowed observations at quiescence (res per call id, len); br = branch followed",
                        channel=dict(cap=mid["beh"][0]["cap"], nil=mid["beh"][0]["nil"]),
                        steps=[dict(acts=[(a["op"], a["id"], a["meth"], "nb" if a["nb"] else "b", "pre-cancelled" if a["pre"] else "", a["target"]) for a in s["acts"]],
                                    allowed=s["allowed"], br=s["br"]) for s in mid["beh"][1:]][:6],
                        observed=results.get(mid["n"], {}).get("steps")))
    # self-tests of the binding: a wrong expectation / a call the spec obliges to return must be rejected
    done_a = done_b = False
    tries_a = tries_b = 0          # a corrupted candidate may still be explainable (another allowed branch): try a few
    for it in items:
        r = results.get(it["n"], {})
        if not r.get("ok") or "truncated" in r or r.get("inconclusive"):
            continue
        for k, st in enumerate(it["beh"][1:], 1):
            resmap = st["br"]["res"] if isinstance(st["br"]["res"], dict) else {}
            for i, v in resmap.items():
                if not done_a and str(v).startswith("v:a"):
                    bad = copy.deepcopy(it)
                    bad["beh"] = bad["beh"][:k + 1]
                    for o in bad["beh"][k]["allowed"] + [bad["beh"][k]["br"]]:
                        if isinstance(o["res"], dict) and str(o["res"].get(i, "")).startswith("v:"):
                            o["res"][i] = "v:never-sent"
                    rc, o, err = harness.run(binary, ["sched"], [bad], timeout=60)
                    got = [x for x in o if "begin" not in x]
                    oka = bool(got) and not got[0].get("ok") and got[0].get("key", "").endswith("/result")
                    tries_a += 1
                    if oka or tries_a >= 8:
                        rep.self_test("replayer rejects a received value the spec does not allow", oka, str(got)[:300])
                        done_a = True
                if not done_b and v == "blocked" and all(o["res"].get(i) == "blocked" for o in st["allowed"]):
                    bad = copy.deepcopy(it)
                    bad["beh"] = bad["beh"][:k + 1]
                    for o in bad["beh"][k]["allowed"] + [bad["beh"][k]["br"]]:
                        o["res"][i] = "ok"
                    rc, o, err = harness.run(binary, ["sched"], [bad], timeout=60)
                    got = [x for x in o if "begin" not in x]
                    okb = bool(got) and not got[0].get("ok") and got[0].get("key", "").endswith("blocked-when-enabled")
                    tries_b += 1
                    if okb or tries_b >= 8:
                        rep.self_test("replayer rejects a call left blocked although the spec obliges it to return", okb, str(got)[:300])
                        done_b = True
        if done_a and done_b:
            break
    if not (done_a and done_b):
        rep.self_test("replayer self-tests found suitable behaviours", False, "a=%s b=%s" % (done_a, done_b))

    # ---- 3. model -> code: Distributor algebra, sequential, exact comparison
    dedge = gens["Dist_edge.cfg"]
    dall = gens["Dist_all.cfg"] + gens["Dist_sim.cfg"]
    dsample, dclasses = xl.stratified(dedge, 2 if quick else 1000, rng, xl.dist_class)
    rep.cov["dist_edge_classes"] = dclasses
    rng.shuffle(dall)
    dbehs = replay.dedupe(dsample + (dall[:1500] if quick else dall)) if quick else replay.dedupe(dedge + dall)
    ditems = [dict(n=i, beh=b) for i, b in enumerate(dbehs)]
    dresults, _ = xl.run_items(rep, binary, "dseq", ditems, "dist_seq", shards=SH, env=env,
                               nontrivial=lambda b: any(s["view"] != "raw" for s in b[1:]))
    if not quick:
        rep.cov["exhaustive"] = True      # Dist_edge: one behaviour per edge of the abstract state graph; Dist_all: all sequences of length 2
    dops = collections.Counter()
    for it in ditems:
        if dresults.get(it["n"], {}).get("ok"):
            dops[it["beh"][0]["view"]] += 1
    rep.cov["dist_seq_backends"] = dict(sorted(dops.items()))
    if ditems:
        mid = max(ditems[:200], key=lambda it: len(it["beh"]))
        rep.sample(dict(kind="Distributor behaviour: (op, view, arg, cancelled) -> result, Len, backend contents", backend=mid["beh"][0],
                        steps=[(s["op"], s["view"], s["arg"], s["canc"], s["res"], s["len"], s["items"]) for s in mid["beh"][1:]]))
        good = next((it for it in ditems if dresults.get(it["n"], {}).get("ok") and any(str(s["res"]).startswith("v:") for s in it["beh"])), None)
        if good:
            bad = copy.deepcopy(good)
            for s in bad["beh"]:
                if str(s["res"]).startswith("v:"):
                    s["res"] = "v:never-sent"
                    break
            rc, o, err = harness.run(binary, ["dseq"], [bad], timeout=60)
            got = [x for x in o if "begin" not in x]
            rep.self_test("distributor replayer rejects a wrong expectation", bool(got) and not got[0].get("ok"), str(got)[:300])
        else:
            rep.self_test("distributor replayer self-test found a suitable behaviour", False, "")

    # ---- 4. code -> model: histories of the stepped schedules and free-running concurrent histories
    shist = [results[it["n"]]["hist"] for it in items if results.get(it["n"], {}).get("ok") and "hist" in results[it["n"]]]
    rng.shuffle(shist)
    shist = shist[:600 if quick else 5000]
    rhist = xl.record(rep, binary, "record", 400 if quick else 6000, seed, 4 if quick or light else 12, "chan")
    dhist = xl.record(rep, binary, "drecord", 300 if quick else 4000, seed, 4 if quick or light else 12, "dist")
    with cf.ThreadPoolExecutor(max_workers=3) as ex:
        vfuts = [ex.submit(xl.validate_all, rep, "ChanTrace", "Trace.cfg", shist, label="chan/step-trace", shards=2 if quick else 4, key_fn=xl.chan_trace_key),
                ex.submit(xl.validate_all, rep, "ChanTrace", "Trace.cfg", rhist, label="chan/trace", shards=2 if quick else 4, key_fn=xl.chan_trace_key),
                ex.submit(xl.validate_all, rep, "DistTrace", "DistTrace.cfg", dhist, label="dist/trace", shards=2 if quick else 4, key_fn=xl.dist_trace_key)]
        for f in vfuts:
            f.result()
    rep.cov["histories"] = dict(stepped=len(shist), chan_free_running=len(rhist), dist_free_running=len(dhist),
                                with_blocked_call_at_quiescence=sum(1 for h in rhist + dhist if any(e.get("ev") == "quiescent" and e["blocked"] for e in h)))
    tests = []
    if rhist:
        rep.sample(dict(kind="recorded free-running channel history", events=max(rhist, key=len)[:20]))
        c = next((b for b in (xl.corrupt_value(h) for h in sorted(rhist, key=len, reverse=True)) if b), None)
        d = next((b for b in (xl.drop_return(h, lambda call, ret: call.get("op") == "start" and not call.get("nb") and call.get("meth") in ("read", "write", "rprod", "sproc")
                                             and ret["res"] in ("eof", "ctx")) for h in sorted(rhist, key=len, reverse=True)) if b), None)
        tests += [("ChanTrace rejects a received value that was never sent", "ChanTrace", "Trace.cfg", c, "ret"),
                  ("ChanTrace rejects a call left blocked at quiescence although the channel was closed / its context cancelled", "ChanTrace", "Trace.cfg", d, "quiescent")]
    if dhist:
        c = next((b for b in (xl.corrupt_value(h) for h in sorted(dhist, key=len, reverse=True)) if b), None)
        d = next((b for b in (xl.drop_return(h, lambda call, ret: call.get("op") == "recv" and ret["res"] == "closed") for h in sorted(dhist, key=len, reverse=True)) if b), None)
        tests += [("DistTrace rejects a received value that was never sent", "DistTrace", "DistTrace.cfg", c, "ret"),
                  ("DistTrace rejects a Receive left blocked at quiescence on a closed backend", "DistTrace", "DistTrace.cfg", d, "quiescent")]
    with cf.ThreadPoolExecutor(max_workers=4) as ex:
        outs = list(ex.map(lambda t: xl.validate(t[1], t[2], [t[3]]) if t[3] else (None, None, "no suitable history"), tests))
    for (name, module, cfg, bad, stop), (acc, r, info) in zip(tests, outs):
        rep.self_test(name, acc is False and info.get("event", {}).get("ev") == stop, str(info)[:200])

    # ---- 5. documented-vs-actual demonstrations (listed, never judged)
    div = []
    for name, module, cfg, sub, penv, what in PROBES:
        base = cfg.split(":")[0]
        pb = probes_gen.get(base)
        if cfg.endswith(":asis"):
            # ordinary (as-is) blocking-mode schedules, executed through the constructor under suspicion
            pb = [b for b in sample if not b[0]["nil"] and all(a["op"] != "start" or (not a["nb"] and a["meth"] in ("write", "read", "ok")) for s in b[1:] for a in s["acts"])
                  and any(a["op"] == "start" for s in b[1:] for a in s["acts"])][:150]
        if not pb:
            div.append(dict(name=name, what=what, status="not generated"))
            continue
        pitems = [dict(n=i, beh=b, procs=0) for i, b in enumerate(pb)] if sub == "sched" else [dict(n=i, beh=b) for i, b in enumerate(pb)]
        pe = dict(env)
        pe.update(penv)
        pres, pfail = xl.run_items(rep, binary, sub, pitems, "probe_" + name, shards=2, env=pe, report=False)
        ex = pfail[0] if pfail else None
        div.append(dict(name=name, what=what, behaviours_under_documented_reading=len(pitems), real_code_deviates_in=len(pfail),
                        status="code differs from the documented reading" if pfail else "code follows the documented reading",
                        example=dict(key=ex.get("key"), what=ex.get("what"), behaviour=pitems[ex["n"]]["beh"][:ex.get("step", 1) + 1]) if ex else None))
    rep.cov["documented_vs_actual"] = div
    for d in div:
        print("DIVERGENCE-CANDIDATE %s: %s (%s of %s behaviours)" % (d["name"], d["status"], d.get("real_code_deviates_in"), d.get("behaviours_under_documented_reading")))

    if not judge_models():
        return
    rep.cov["rule"] = ("channel schedules = behaviours of ChanStep (quick: one per class of edge of the abstract state graph + random; thorough: 4 per class + 20000 edges + 8000 random / all of length 2), each call in its own goroutine, every observation at "
                       "quiescence judged against the allowed set TLC printed, bursts with GOMAXPROCS 1 and 4; distributor behaviours = Distributor.tla "
                       "(quick: 2 per class + 1500; thorough: every edge + all of length 2 + random) replayed with exact results, Len and contents; "
                       "histories = stepped schedules + free-running concurrent runs validated by ChanTrace / DistTrace; non-trivial schedule = some "
                       "call is blocked at some step; non-trivial distributor behaviour = uses a filtered view; non-trivial history = more than 4 events")
