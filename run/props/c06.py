"""C06 pubsub.Deque is a linearizable bounded double-ended queue."""
from props import c05


def run(rep, tier, seed, replay_file=None):
    c05.check(rep, tier, seed, "deque", "Deque")
