"""X06 (extra check, not a listed property): the error filters of ers/filter.go (Filter.Run, FilterExclude, FilterNoop,
FilterCheck, FilterConvert, FilterToRoot, ExtractErrors, RemoveOk) and the integer helpers of intish/math.go (Abs, Min,
Max, Range, Bounds, AbsBounds, AbsMax, AbsMin, Diff, RoundTo*Multiple*, Millis, FloatMillis) return what their doc
comments say.

Technique: spec/xhelpers/XHelpers.tla transcribes the documented meaning (over Integers / over abstract error terms:
sentinel leaves, %w wrap chains, errors.Join and ers.Join nodes).  There is no state machine: TLC enumerates the finite
set of cases (all (a,b) in -Span..Span; all error terms of the grammar x all filters; all argument lists up to MaxList)
as initial states, checks the model-level invariants and prints every case with the expected result;
harness/cmd/vh-xhelpers evaluates the real functions (int, int64 and int8 instantiations) and compares value,
identity (==) of the returned error with the designated sub-error of the input, errors.Is with every sentinel, panics.

Where the documentation is silent or contradicts the code the choice is a named constant (SWITCHES) set as observed in the
registered run; for every switch the documented alternative is replayed as well and must be REJECTED by the real code
with exactly the switch's key (non-vacuity of the switch + standing evidence of the divergence, cov["divergences"]).
Part 3: spec/xhelpers/ErcStep.tla is a sequential model of erc/helpers.go (When, Whenf, Check, Collect, Recover,
WithRecoverCall, WithRecoverDo, RecoverHook, Stream, Consume) on a collector = sequence of errors; call sequences (all of
length 2-3, random walks) are replayed on a real erc.Collector comparing return value, Len, Resolve()==nil and errors.Is.
They are never judged unless the key is listed as `known` for X06 in known_findings.jsonl."""
import copy, json, os, time

from vlib import tlc, harness, replay, findings
from props import c18c19_common as common

COMP = "xhelpers"
LEVEL = "model_checking"

AS_OBSERVED = dict(ZeroMultiple='"panic"', TieValue='"negative"', ExactToward='"same"', ExactAway='"next"',
                   JoinRoot='"last-child"', StackRoot='"first-child"', ExtractDrops='{"nil", "empty", "fnnil"}')

# switch -> (family, constant, documented alternative, key(s) the alternative must be rejected with, one line,
#            model-level predicate that holds only with the alternative or None)
SWITCHES = {
    "exact-toward": ("int", "ExactToward", '"lower"', {"xhelpers/intish/toward/return-value"},
                     "RoundToMultipleTowardZero documents 'the rounded always has a lower absolute value than the input value'; "
                     "for an exact multiple the code returns the input itself (so RoundToSmallestMultiple of a positive and "
                     "RoundToLargestMultiple of a negative exact multiple are not strictly smaller / larger either)", "DocStrict"),
    "exact-away": ("int", "ExactAway", '"same"', {"xhelpers/intish/away/return-value"},
                   "RoundToMultipleAwayFromZero documents 'rounds a value to the nearest multiple'; for an exact multiple "
                   "the code returns the next multiple (value + multiple), as its second sentence 'always a higher absolute value' says", None),
    "zero-multiple": ("int", "ZeroMultiple", '"value"', {"xhelpers/intish/away/unexpected-panic"},
                      "RoundTo*: a zero argument (multiple 0) panics with an integer divide by zero; the doc comments do not mention it", None),
    "tie-value": ("int", "TieValue", '"positive"', {"xhelpers/intish/away/return-value"},
                  "RoundTo*(a, -a): the doc does not say which argument is 'the value'; the code rounds the negative one", None),
    "join-root": ("filter", "JoinRoot", '"deep"', {"xhelpers/filter/toroot/identity"},
                  "FilterToRoot documents 'always returns only the root/MOST wrapped error'; below an errors.Join node the "
                  "code returns the last joined child as it is, even when that child wraps another error", "RootIsLeaf"),
    "stack-root": ("filter", "StackRoot", '"deep"', {"xhelpers/filter/toroot/identity"},
                   "FilterToRoot on an ers.Join (*ers.Stack) node returns the first joined child as it is, not its root", None),
    "extract-drops": ("extract", "ExtractDrops", "{}", {"xhelpers/extract/extracterrors/return-value"},
                      "ExtractErrors documents only 'removes the errors from the list'; the code also drops nil items, empty "
                      "strings and func() error items that return nil (the functions are called)", None),
}


def cfg_text(fam, span=12, nleaf=3, maxlist=3, over=None, invariants=("Inv",), emit=True):
    consts = dict(AS_OBSERVED)
    consts.update(over or {})
    lines = ["SPECIFICATION Spec", "CONSTANTS", '  Fam = "%s"' % fam, "  Span = %d" % span, "  NLeaf = %d" % nleaf,
             "  MaxList = %d" % maxlist]
    lines += ["  %s = %s" % kv for kv in sorted(consts.items())]
    lines += ["INVARIANT " + i for i in invariants]
    if emit:
        lines.append("CONSTRAINT Emit")
    lines.append("CHECK_DEADLOCK FALSE")
    return "\n".join(lines) + "\n"


def _job(name, fam, note, workers=1, **ckw):
    cfg = "X06_%s.cfg" % name
    return name, fam, dict(comp=COMP, module="XHelpers", cfg=cfg, workers=workers, timeout=600,
                           files={cfg: cfg_text(fam, **ckw)}), note


def plan(tier, seed):
    q = tier == "quick"
    # the seed only shifts the (exhaustively enumerated) integer window by nothing: the spaces are finite and complete;
    # thorough widens them
    return [
        _job("int", "int", "all (a,b) in -%d..%d squared, every function of intish/math.go" % ((12, 12) if q else (40, 40)),
             workers=1 if q else 4, span=12 if q else 40),
        _job("millis", "millis", "Millis / FloatMillis on exactly representable eighths", span=12 if q else 400),
        _job("filter", "filter", "every error term of the grammar (leaf, wrap, errors.Join, ers.Join, wrap of those) x 16 filters",
             workers=1 if q else 2, nleaf=3 if q else 4),
        _job("extract", "extract", "ExtractErrors on every list of up to %d items of 8 kinds" % (3 if q else 4),
             workers=1 if q else 2, maxlist=3 if q else 4),
        _job("removeok", "removeok", "RemoveOk on every list of up to %d of nil / 3 sentinels" % (4 if q else 6), maxlist=4 if q else 6),
    ]


ERC_OPS = ["when", "whenf", "whens", "check", "collect", "recover", "recovercall", "recoverdo", "recoverhook", "stream", "consume"]


def erc_cfg(mode, depth, panic_adds=2):
    lines = ["SPECIFICATION " + ("SimSpec" if mode == "sim" else "Spec"), "CONSTANTS",
             "  Ops = {%s}" % ", ".join('"%s"' % o for o in ERC_OPS), "  Depth = %d" % depth, "  PanicAdds = %d" % panic_adds,
             "INVARIANT Inv", "PROPERTY Grows"]
    if mode == "all":
        lines.append("CONSTRAINT EmitAll")
    lines.append("CHECK_DEADLOCK FALSE")
    return "\n".join(lines) + "\n"


def _erc_job(name, mode, depth, note, workers=1, sim=None, seed=None, panic_adds=2):
    cfg = "X06_%s.cfg" % name
    kw = dict(comp=COMP, module="ErcStep", cfg=cfg, workers=workers, timeout=600, files={cfg: erc_cfg(mode, depth, panic_adds)})
    if mode == "sim":
        kw.update(workers=1, simulate=dict(num=sim), depth=depth + 3, seed=seed)
    return name, "erc", kw, note


def erc_plan(tier, seed):
    if tier == "quick":
        return [_erc_job("erc_all2", "all", 2, "erc helpers: every call sequence of length 2 (36 calls per step)"),
                _erc_job("erc_sim", "sim", 7, "erc helpers: random walks of 7 calls", sim=200, seed=seed)]
    return [_erc_job("erc_all3", "all", 3, "erc helpers: every call sequence of length 3", workers=4),
            _erc_job("erc_sim", "sim", 10, "erc helpers: random walks of 10 calls", sim=2000, seed=seed)]


def _run_jobs(jobs, width=4):
    res, group, used = {}, [], 0

    def flush():
        nonlocal group, used
        if group:
            res.update(common.run_tlc_parallel([(n, kw) for n, _, kw, _ in group]))
        group, used = [], 0
    for j in jobs:
        w = j[2]["workers"]
        if used + w > width:
            flush()
        group.append(j)
        used += w
    flush()
    return res


def _one(binary, case):
    rc, outs, err = harness.run(binary, ["replay"], [dict(n=0, beh=case)], timeout=60)
    res = [o for o in outs if o.get("n") == 0 and "begin" not in o]
    return res[0] if res else dict(ok=None, what="no result: " + err[-300:])


def _nontrivial(c):
    f = c["fam"]
    if f == "int":
        return c["a"] != c["b"] and (c["a"] < 0 or c["b"] < 0 or c["away"]["pan"] == 1)
    if f == "filter":
        return c["t"]["k"] in ("join", "ejoin") or (c["t"]["k"] == "wrap" and c["t"]["x"]["k"] != "leaf")
    if f in ("extract", "removeok"):
        return len(c["items"]) >= 3
    return c["eighths"] % 8 != 0


def _corrupt_tests(rep, binary, cases):
    """binding self-tests: ONE expected value of an accepted case is replaced by an impossible one; the replayer must
    accept the original and reject the corrupted case with the right key"""
    def pick(fam, pred):
        return next((c for c in cases.get(fam, []) if pred(c)), None)

    def set_toroot(c):
        for e in c["exp"]:
            if e["f"] == "toroot":
                e["r"]["path"] = []

    def set_exclude(c):
        for e in c["exp"]:
            if e["f"] == "exclude" and e["xs"] == [1]:
                e["r"] = dict(k="in", path=[], **{"is": [1]})
    tests = [
        ("int", "expected Diff off by one", lambda c: c["a"] == -3 and c["b"] == 4,
         lambda c: c.__setitem__("diff", c["diff"] + 1), "xhelpers/intish/diff/return-value"),
        ("int", "expected AwayFromZero(-7, 3) gets the wrong sign", lambda c: c["a"] == -7 and c["b"] == 3,
         lambda c: c["away"].__setitem__("v", -c["away"]["v"]), "xhelpers/intish/away/return-value"),
        ("int", "a panic is expected where TowardZero(5, 2) returns", lambda c: c["a"] == 5 and c["b"] == 2,
         lambda c: c["toward"].__setitem__("pan", 1), "xhelpers/intish/toward/missing-panic"),
        ("int", "no panic expected where Largest(0, 4) divides by zero", lambda c: c["a"] == 0 and c["b"] == 4,
         lambda c: c["largest"].__setitem__("pan", 0), "xhelpers/intish/largest/unexpected-panic"),
        ("millis", "expected Millis off by one", lambda c: c["eighths"] == 3,
         lambda c: c.__setitem__("millis", c["millis"] + 1), "xhelpers/intish/millis/return-value"),
        ("filter", "FilterToRoot of wrap(wrap(leaf)) expected to return the input",
         lambda c: c["t"]["k"] == "wrap" and c["t"]["x"]["k"] == "wrap", set_toroot, "xhelpers/filter/toroot/identity"),
        ("filter", "FilterExclude(s1) of wrap(s1) expected to keep the error",
         lambda c: c["t"]["k"] == "wrap" and c["t"]["x"] == dict(k="leaf", i=1), set_exclude, "xhelpers/filter/exclude/return-value"),
        ("extract", "expected rest loses an item", lambda c: c["items"] == ["str", "err", "int"],
         lambda c: c.__setitem__("rest", c["rest"][:1]), "xhelpers/extract/extracterrors/return-value"),
        ("removeok", "expected result keeps a nil", lambda c: c["items"] == [1, 0, 2],
         lambda c: c.__setitem__("out", [1, 2, 3]), "xhelpers/removeok/removeok/return-value"),
    ]
    for name, op, mutate, key in (
            ("expected Len after a recovered panic off by one", "recovercall", lambda s: s.__setitem__("len", s["len"] - 1), "xhelpers/erc/recovercall/len"),
            ("ErrRecoveredPanic not expected after RecoverHook", "recoverhook", lambda s: s["is"].remove(9), "xhelpers/erc/recoverhook/is-relation"),
            ("expected return value of WithRecoverDo after a panic becomes 42", "recoverdo", lambda s: s.__setitem__("ret", 42), "xhelpers/erc/recoverdo/return-value")):
        b = next((b[:i + 1] for b in cases.get("erc", []) for i, s in enumerate(b) if s["op"] == op and s.get("p")), None)
        if b is None:
            rep.self_test("binding/erc: " + name, False, "no such step")
            continue
        rc, outs, err = harness.run(binary, ["replay", "erc"], [dict(n=0, beh=b)], timeout=60)
        r1 = next((o for o in outs if o.get("n") == 0 and "begin" not in o), {})
        bad = copy.deepcopy(b)
        mutate(bad[-1])
        rc, outs, err = harness.run(binary, ["replay", "erc"], [dict(n=0, beh=bad)], timeout=60)
        r2 = next((o for o in outs if o.get("n") == 0 and "begin" not in o), {})
        ok = r1.get("ok") is True and r2.get("ok") is False and r2.get("key") == key and r2.get("step") == len(b) - 1
        rep.self_test("binding/erc: %s -> accepted unchanged, rejected corrupted (%s)" % (name, key), ok,
                      "unchanged=%s corrupted=%s" % (json.dumps(r1)[:120], json.dumps(r2)[:240]))
    for fam, name, pred, mutate, key in tests:
        c = pick(fam, pred)
        if c is None:
            rep.self_test("binding/%s: %s" % (fam, name), False, "no such case among %d" % len(cases.get(fam, [])))
            continue
        r1 = _one(binary, c)
        bad = copy.deepcopy(c)
        mutate(bad)
        r2 = _one(binary, bad)
        ok = r1.get("ok") is True and r2.get("ok") is False and r2.get("key") == key
        rep.self_test("binding/%s: %s -> accepted unchanged, rejected corrupted (%s)" % (fam, name, key), ok,
                      "unchanged=%s corrupted=%s" % (json.dumps(r1)[:120], json.dumps(r2)[:240]))


def _documented(rep, binary, known, quick):
    """for every switch: (a) the cases of the model with the DOCUMENTED alternative are rejected by the real code with the
    switch's key only; (b) where the doc states a universal promise, TLC finds it violated in the as-observed model and
    satisfied in the documented one"""
    jobs, mjobs = [], []
    for sw, (fam, const, alt, keys, what, pred) in sorted(SWITCHES.items()):
        jobs.append(_job("doc_" + sw.replace("-", "_"), fam, "documented alternative %s = %s" % (const, alt), over={const: alt}, span=8))
        if pred:
            mjobs.append(_job("pred_%s_asis" % sw.replace("-", "_"), fam, "expected violation of %s as observed" % pred,
                              invariants=(pred,), emit=False, span=8))
            mjobs.append(_job("pred_%s_doc" % sw.replace("-", "_"), fam, "%s holds with %s = %s" % (pred, const, alt),
                              invariants=(pred,), emit=False, span=8,
                              over={const: alt, **({"StackRoot": '"deep"'} if pred == "RootIsLeaf" else {}),
                                    **({"ExactAway": '"next"'} if pred == "DocStrict" else {})}))
    res = _run_jobs(jobs + mjobs, 4)
    for name, fam, kw, note in mjobs:
        r = res[name]
        r.tagged.pop("BEH", None)
        if name.endswith("_asis"):
            r.expected_violation = True
            hit = (not r.ok) and "Invariant" in r.out and "violated" in r.out
            rep.add_tlc("XHelpers/" + name, r, note)
            rep.self_test("TLC finds the documented promise violated in the as-observed model (%s)" % name, hit, "" if hit else r.out[-300:])
        else:
            rep.add_tlc("XHelpers/" + name, r, note)
            rep.self_test("the documented promise holds in the documented model (%s)" % name, r.ok, "" if r.ok else r.out[-300:])
    divs = rep.cov.setdefault("divergences", [])
    for name, fam, kw, note in jobs:
        sw = [s for s in SWITCHES if "doc_" + s.replace("-", "_") == name][0]
        _, const, alt, keys, what, _ = SWITCHES[sw]
        r = res[name]
        rep.add_tlc("XHelpers/" + name, r, note)
        if not r.ok:
            rep.infra_error("documented-model generation %s failed: %s" % (name, r.out[-800:]))
            continue
        cs = replay.dedupe(r.tagged.pop("BEH", []))
        items = [dict(n=i, beh=c) for i, c in enumerate(cs)]
        outs, meta = harness.run_sharded(binary, ["replay"], items, shards=2, timeout=300)
        results = {o["n"]: o for o in outs if "n" in o and "begin" not in o}
        bad = [o for o in results.values() if not o.get("ok")]
        got = {o.get("key") for o in bad}
        ok = len(results) == len(items) and bool(bad) and got <= keys
        rep.self_test("divergence %s: the model with %s = %s is rejected by the real code with %s only" % (sw, const, alt, sorted(keys)),
                      ok, "%d of %d cases rejected, keys %s" % (len(bad), len(items), sorted(got)))
        if ok:
            bad.sort(key=lambda o: (len(json.dumps(items[o["n"]]["beh"])), o["n"]))
            ex = bad[0]
            key = sorted(keys)[0] + "~" + sw
            divs.append(dict(switch=sw, constant=const, as_observed=AS_OBSERVED[const], documented=alt, key=key, what=what,
                             rejected=len(bad), of=len(items), example=ex.get("what"), listed_as_known=key in known))
            if key in known:
                rep.violation(key, what + ": " + ex.get("what", ""), dict(behaviour=items[ex["n"]], over={const: alt}))
    rep.cov["documented_vs_actual"] = [dict(switch=d["switch"], what=d["what"]) for d in divs]


def run(rep, tier, seed, replay_file=None):
    quick = tier == "quick"
    rep.assumptions += [
        "TLC is sound; exhaustive claims hold for the constants of the generated configurations only (arguments in "
        "-12..12 quick / -40..40 thorough; error terms of depth <= 3 over 3-4 sentinels; lists of up to 3-6 items)",
        "intish functions are instantiated at int, int64 and (when every value fits) int8; overflow (Abs of the minimum "
        "value, Diff beyond the type's range) is outside the model",
        "error terms: sentinels are ers.Error constants (odd index) or errors.New pointers (even index); wrap = fmt.Errorf(%w); "
        "children of a join node are leaves or single wraps; nil children of joins, typed-nil errors, empty *ers.Stack values "
        "and user types implementing Unwind() are outside the model",
        "FilterCheck is exercised with the predicates 'nil or errors.Is one of xs' and 'always'; Millis/FloatMillis only on "
        "multiples of 1/8 (exactly representable); Millis' documented overflow panic is outside the model",
        "the registered replay uses the as-observed constants; each documented-vs-actual choice is kept as a self-test that "
        "requires the documented alternative to be rejected by the real code",
        "erc helpers: the collector is modelled as the sequence of errors added; Wrap/Wrapf/WithTime (deprecated forwards) and "
        "IteratorHook are not modelled; Stream/Consume get a closed, pre-filled channel / a slice iterator and a live context; "
        "a recovered panic counts as two collected errors (payload + ErrRecoveredPanic), as observed",
    ]
    binary = harness.build("vh-xhelpers")
    phases = rep.cov.setdefault("phase_s", {})
    known = dict(findings.known_keys(rep.prop))
    if replay_file:
        obj = json.load(open(replay_file))["replay"]
        beh = obj["behaviour"]["beh"]
        common.capped_replay(rep, binary, ["replay", "erc"] if isinstance(beh, list) else ["replay"], [beh], shards=1,
                             label="xhelpers", size=lambda b: 1)
        return

    jobs = plan(tier, seed)
    ejobs = erc_plan(tier, seed)
    t0 = time.time()
    res = _run_jobs(jobs + ejobs, 4)
    phases["tlc"] = round(time.time() - t0, 1)
    cases = {}
    for name, fam, kw, note in jobs:
        r = res[name]
        rep.add_tlc("XHelpers/" + name, r, note)
        if not r.ok:
            rep.infra_error("case generation %s failed (%s): %s" % (name, r.violated, r.out[-1500:]))
            return
        cs = replay.dedupe(r.tagged.pop("BEH", []))
        rep.cov.setdefault("cases", {})[name] = len(cs)
        if len(cs) != r.distinct:
            rep.infra_error("%s: TLC printed %d cases for %d states" % (name, len(cs), r.distinct))
        cases[fam] = cs
    ebehs = []
    for name, fam, kw, note in ejobs:
        r = res[name]
        rep.add_tlc("ErcStep/" + name, r, note)
        if not r.ok:
            rep.infra_error("behaviour generation %s failed (%s): %s" % (name, r.violated, r.out[-1500:]))
            return
        b = replay.dedupe(r.tagged.pop("BEH", []))
        rep.cov.setdefault("cases", {})[name] = len(b)
        ebehs += b
    seen = {s["op"] for b in ebehs for s in b}
    rep.self_test("every modelled erc helper occurs in the replayed behaviours", seen >= set(ERC_OPS), "missing: %s" % sorted(set(ERC_OPS) - seen))
    # vacuity audit: every filter occurs, every result kind occurs, panics and both signs occur
    fl = {e["f"] for c in cases["filter"] for e in c["exp"]}
    kinds = {e["r"]["k"] for c in cases["filter"] for e in c["exp"]}
    rep.self_test("every modelled filter and every result kind occurs in the replayed cases",
                  fl >= {"noop", "exclude", "check", "checkalways", "convert", "convertnil", "toroot"} and kinds == {"nil", "in", "out"},
                  "%s %s" % (sorted(fl), sorted(kinds)))
    rep.self_test("integer cases contain expected panics, negative and positive rounded values",
                  any(c["away"]["pan"] for c in cases["int"]) and any(c["away"]["v"] < 0 for c in cases["int"])
                  and any(c["toward"]["v"] > 0 for c in cases["int"]), "")
    rep.cov["exhaustive"] = True   # the finite case spaces of the configurations are enumerated completely
    t0 = time.time()
    allc = [c for fam in sorted(cases) for c in cases[fam]]
    try:
        common.capped_replay(rep, binary, ["replay"], allc, shards=4, label="xhelpers", nontrivial=_nontrivial, cap=2,
                             timeout=300, size=lambda b: len(json.dumps(b)))
    except harness.InfraError as e:
        rep.infra_error("xhelpers: %s" % e)
    try:
        common.capped_replay(rep, binary, ["replay", "erc"], ebehs, shards=4, label="xhelpers/erc", cap=2, timeout=300,
                             nontrivial=lambda b: len(b) >= 3 and any(s.get("p") for s in b))
    except harness.InfraError as e:
        rep.infra_error("xhelpers/erc: %s" % e)
    cases["erc"] = ebehs
    for fam in ("int", "filter"):
        rep.sample(dict(kind="replayed %s case" % fam, case=cases[fam][(len(cases[fam]) * 2) // 3]))
    phases["replay"] = round(time.time() - t0, 1)

    t0 = time.time()
    _corrupt_tests(rep, binary, cases)
    _documented(rep, binary, known, quick)
    phases["selftests"] = round(time.time() - t0, 1)
    rep.cov["rule"] = ("cases = single calls printed by TLC from XHelpers.tla with the documented result (every pair of integer "
                       "arguments of the window, every error term x filter, every argument list) evaluated on the real functions "
                       "with comparison of values, recovered panics, identity of the returned error with the designated part of "
                       "the input and errors.Is with every sentinel; non-trivial = mixed signs / zero multiple, join or nested "
                       "wrap terms, lists of >= 3 items; divergences = documented alternative rejected with the switch's key")
