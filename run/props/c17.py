"""C17 List.SortMerge / SortQuick / IsSorted and dt.Heap agree with the ordering relation.

spec/sort/Sort.tla: TLC enumerates every input sequence over a small domain (duplicates, negatives,
zero) x comparator (lt, reversed, key-projected) and prints per case the expected IsSorted answer, the
rank of every input element, the unique stable result and a tail of pushes/pops in tokens relative
to the sort result; in-model it checks that the insertion transcription and the transcription of the
library's merge sort are Sorted /\\ Perm /\\ Stable, and (Sort_asis.cfg) that the shipped IsSorted loop is
NOT the property's predicate.  spec/sort/Heap.tla: every Push/Pop sequence.  harness/cmd/vh-list
(modes sort, heap, list) runs the real code and judges it with the parameters of the spec line only."""
import json, random
from vlib import tlc, harness, replay as vreplay
from props import c16

METHODS = ("IsSorted", "SortQuick", "SortMerge")


def run(rep, tier, seed, replay_file=None):
    if replay_file:
        c16.replay_saved(rep, replay_file)
        return
    quick = tier == "quick"
    rep.assumptions += [
        "TLC is sound; comparators are strict weak orderings given by key projections (spec/sort/SortDefs.tla); the Go "
        "comparators are checked against the spec's ranks on every case (a disagreement yields no verdict)",
        "cmp.Reverse(lt) = not lt is not a strict weak ordering and is not used; the reversed comparator is b < a (DESIGN 5.0)",
        "bounds: sequences of length <= 4 (quick) / 5 (thorough) over {-1,0,1,2}, <= 7 over {0,1}, <= 6 over {-2,0,3}; "
        "heap: every Push/Pop sequence of length <= 5 (quick) / 6 (thorough) plus random ones of length 20",
        "a Heap.Pop that returns a minimal element other than the first-pushed one ends that behaviour undecided",
    ]
    S = "sort"
    sim_n = 150 if quick else 2000
    jobs = [
        dict(name="Sort/Sort_asis.cfg", comp=S, module="Sort", cfg="Sort_asis.cfg", kw=dict(workers=1, timeout=300), expect_violation=True,
             note="self-test: the transcription of the shipped IsSorted loop must violate ImplIsSortedOK"),
        dict(name="Sort/Sort_dup.cfg", comp=S, module="Sort", cfg="Sort_dup.cfg", kw=dict(workers=1, timeout=600),
             note="all sequences over {0,1} of length <= 7 x 4 comparators (duplicates-heavy)"),
        dict(name="Heap/Heap_sim.cfg", comp=S, module="Heap", cfg="Heap_sim.cfg",
             kw=dict(workers=1, simulate=dict(num=sim_n), depth=21, seed=seed, timeout=600), note="random Push/Pop sequences of length 20"),
        dict(name="ListSeq/SortUse_sim.cfg", comp="list", module="ListSeq", cfg="SortUse_sim.cfg",
             kw=dict(workers=1, simulate=dict(num=sim_n), depth=13, seed=seed, timeout=600),
             note="C16 model restricted to push/pop/remove/sort/IsSorted: random walks of depth 12 (sorted list stays usable)"),
    ]
    # lists longer than 12 elements (Go's sort switches algorithm there): random inputs with many equal keys
    longcfg = open(tlc.SPEC + "/sort/Sort_longlists.cfg").read().replace("LongSamples = 12", "LongSamples = %d" % (12 if quick else 150))
    jobs.append(dict(name="Sort/Sort_longlists.cfg", comp=S, module="SortLong", cfg="Sort_longlists.cfg",
                     kw=dict(workers=1, timeout=900, seed=seed, files={"Sort_longlists.cfg": longcfg}),
                     note="random inputs of length 13, 14, 17, 24 over 4 values x 4 comparators (stability / permutation above the 12-element threshold)"))
    if quick:
        jobs += [
            dict(name="Sort/Sort_q.cfg", comp=S, module="Sort", cfg="Sort_q.cfg", kw=dict(workers=1, timeout=600),
                 note="all sequences over {-1,0,1,2} of length <= 4 x 4 comparators"),
            dict(name="Heap/Heap_q.cfg", comp=S, module="Heap", cfg="Heap_q.cfg", kw=dict(workers=1, timeout=600),
                 note="every Push/Pop sequence of length 5 (<= 4 pushes) x 3 comparators"),
        ]
    else:
        jobs += [
            dict(name="Sort/Sort_full.cfg", comp=S, module="Sort", cfg="Sort_full.cfg", kw=dict(workers=2, timeout=900),
                 note="all sequences over {-1,0,1,2} of length <= 5 x 4 comparators"),
            dict(name="Sort/Sort_long.cfg", comp=S, module="Sort", cfg="Sort_long.cfg", kw=dict(workers=2, timeout=900),
                 note="all sequences over {-2,0,3} of length <= 6 x 4 comparators"),
            dict(name="Heap/Heap_full.cfg", comp=S, module="Heap", cfg="Heap_full.cfg", kw=dict(workers=2, timeout=900),
                 note="every Push/Pop sequence of length 6 (<= 5 pushes) x 4 comparators"),
            dict(name="ListSeq/SortUse_all.cfg", comp="list", module="ListSeq", cfg="SortUse_all.cfg", kw=dict(workers=2, timeout=900),
                 note="C16 model restricted to push/pop/sort: every operation sequence of length 4"),
        ]
    binary = harness.build(c16.BIN)
    res = c16.tlc_jobs(rep, jobs, parallel=6 if quick else 3)
    asis = res["Sort/Sort_asis.cfg"]
    rep.self_test("ImplIsSortedOK-not-vacuous (the shipped IsSorted loop differs from the predicate in the model)",
                  asis.violated == "ImplIsSortedOK", str(asis.brief()))
    if rep.infra:
        return
    cases, hbehs, lbehs = [], [], []
    for name, r in res.items():
        b = r.tagged.get("BEH", [])
        if name.startswith("Sort/"):
            cases += b
        elif name.startswith("Heap/"):
            hbehs += b
        else:
            lbehs += b
    cases, hbehs, lbehs = vreplay.dedupe(cases), vreplay.dedupe(hbehs), vreplay.dedupe(lbehs)
    # a ListSeq behaviour matters here when something happens to a list after it was sorted
    sorts = {"SortQuick", "SortMerge"}

    def uses_sorted(b):
        ops = [s["op"] for s in b]
        first = next((i for i, o in enumerate(ops) if o in sorts), None)
        return first is not None and first < len(ops) - 1
    lbehs = [b for b in lbehs if uses_sorted(b)]
    shards = 8
    items = [dict(c, m=m) for c in cases for m in METHODS]
    c16.replay_limited(rep, binary, "sort", items, shards=shards, label="sort",
                       nontrivial=lambda c: len(c["in"]) >= 2)
    c16.replay_limited(rep, binary, "heap", hbehs, shards=shards, label="heap",
                       nontrivial=lambda b: sum(1 for s in b if s["op"] == "Pop" and s["ok"]) >= 1)
    if lbehs:
        c16.replay_limited(rep, binary, "list", lbehs, shards=shards, label="list-after-sort")
    else:
        rep.infra_error("no ListSeq behaviour continues after a sort")
    rep.cov["cases"] = dict(sort_inputs=len(cases), sort_runs=len(items), heap_behaviours=len(hbehs), list_behaviours_after_sort=len(lbehs))
    rep.cov["exhaustive"] = True  # the enumerated input spaces named in the tlc_runs notes are complete (random parts are extra)
    rnd = random.Random(seed)
    rep.sample(dict(kind="sort case (input, comparator, expected IsSorted, ranks, stable order as input indices, tail)",
                    case=rnd.choice([c for c in cases if len(c["in"]) == 4 and not c["sorted"]] or cases)))
    rep.sample(dict(kind="heap behaviour", steps=rnd.choice(hbehs)))

    # self-tests of the binding
    # (non-negative values and plain lt: inputs on which the shipped IsSorted happens to be right, so that these
    #  self-tests test the binding and not the code under test)
    uns = next((c for c in cases if len(c["in"]) >= 3 and not c["sorted"] and len(set(c["rank"])) < len(c["rank"])
                and c["cmp"] == "lt" and min(c["in"]) >= 0 and c["in"][-1] >= c["in"][-2]), None)
    if uns is None:
        rep.self_test("found an unsorted case with duplicates for the self-tests", False)
    else:
        c16.expect_pass(rep, binary, "sort", "sort replayer accepts the spec's own case (SortQuick)", dict(uns, m="SortQuick"))
        bad = dict(uns, sorted=not uns["sorted"], m="IsSorted")
        c16.expect_mismatch(rep, binary, "sort", "sort replayer rejects a wrong IsSorted expectation", bad, "list/IsSorted/result")
        bad = dict(uns, stable=list(reversed(uns["stable"])), m="SortQuick")
        c16.expect_mismatch(rep, binary, "sort", "sort replayer rejects a wrong stable order", bad, "list/SortQuick/stable")
        # ranks reversed: the real result is then 'not sorted' for the judge; the comparator binding check must notice first
        bad = dict(uns, rank=[max(uns["rank"]) - r for r in uns["rank"]], m="SortMerge")
        rc, outs, err = harness.run(binary, ["sort"], [dict(n=0, beh=bad)], timeout=60)
        r0 = [o for o in outs if o.get("n") == 0 and "begin" not in o]
        rep.self_test("comparator binding check notices ranks that are not the comparator's", bool(r0) and bool(r0[0].get("inconclusive")), json.dumps(r0)[:200])
        tl = json.loads(json.dumps(uns)); tl["tail"][1]["ret"] = 2; tl["m"] = "SortQuick"
        c16.expect_mismatch(rep, binary, "sort", "sort replayer rejects a wrong element popped after sorting", tl, "list/SortQuick/usable-after")
    hb = next((b for b in hbehs if sum(1 for s in b if s["op"] == "Pop" and s["ok"]) >= 1 and len(b[-1]["rest"]) >= 1), None)
    if hb is None:
        rep.self_test("found a heap behaviour for the self-tests", False)
    else:
        c16.expect_pass(rep, binary, "heap", "heap replayer accepts the spec's own behaviour", hb)
        bad = json.loads(json.dumps(hb))
        k = next(i for i, s in enumerate(bad) if s["op"] == "Pop" and s["ok"])
        bad[k]["oneof"] = [99]
        c16.expect_mismatch(rep, binary, "heap", "heap replayer rejects a pop outside the minimal set", bad, "heap/Pop/not-minimal")
        bad = json.loads(json.dumps(hb)); bad[-1]["rest"] = bad[-1]["rest"] + [77]; bad[-1]["keys"] = bad[-1]["keys"] + [0]
        c16.expect_mismatch(rep, binary, "heap", "heap replayer rejects a missing element", bad, "heap/")
    rep.cov["rule"] = (
        "sort cases = every sequence over the domain up to the length bound x comparator {lt, gt(b<a), mod2, div2}; each is run "
        "three times on a fresh real list: IsSorted must equal the spec's answer; SortQuick / SortMerge must leave a permutation "
        "of the input ELEMENTS (pointer identity) whose spec ranks never decrease, SortQuick exactly the spec's stable order; then "
        "both walks, Len, Slice, iterators, In, Ok are compared, IsSorted must be true, and a tail of PushBack/PopFront/PushFront/"
        "PopBack... is executed with the expected list after each step given by the spec relative to the actual result. heap = "
        "every Push/Pop sequence to the bound x comparator: each Pop must return an element of minimal key (Ok flag, Len), the "
        "final drain must return every remaining element exactly once with non-decreasing keys. list-after-sort = ListSeq "
        "behaviours in which operations follow a sort, replayed with the C16 full-state comparison. non-trivial = input of "
        "length >= 2 / at least one successful Pop")
