"""C20 non-destructive Queue/Deque iterators see every item in order and never crash.

Design level   spec/queue/QueueIter.tla, spec/deque/DequeIter.tla (implementation-shaped, exhaustive TLC,
               invariants + liveness; as-is switches reproduce the repaired defects = non-vacuity self-tests)
Model -> code  spec/qiter/IterStep.tla emits quiescence-stepped driver schedules with the set of observations the
               abstract meaning (IterAbs) allows; harness/cmd/vh-qiter executes them on the real iterators
Code -> model  vh-qiter record: concurrent random drivers; spec/qiter/IterTrace.tla validates the histories
"""
import collections, concurrent.futures as cf, copy, json, random

from vlib import tlc, harness, replay, trace

LEVEL = "model_checking"

QUEUE_MC = dict(quick=["MC_iter_small.cfg", "MC_iter_small_p.cfg", "MC_iter_small_2.cfg"],
                thorough=["MC_iter_small.cfg", "MC_iter_full_p.cfg", "MC_iter_full_2.cfg", "MC_iter_full.cfg"])
DEQUE_MC = dict(quick=["MC_iter_small_fwd.cfg", "MC_iter_small_rev.cfg", "MC_iter_small_nb.cfg", "MC_iter_small_nbrev.cfg",
                       "MC_iter_ring_fwd.cfg", "MC_iter_ring_rev.cfg", "MC_iter_pingpong.cfg"],
                thorough=["MC_iter_small_nb.cfg", "MC_iter_small_nbrev.cfg", "MC_iter_full_fwd.cfg", "MC_iter_full_rev.cfg",
                          "MC_iter_ring_rev.cfg", "MC_iter_full_ring.cfg", "MC_iter_pingpong.cfg"])
# (component, module, cfg, invariant TLC must report violated, what the pre-fix code did)
ASIS = [
    ("queue", "QueueIter", "MC_iter_asis_window_stuck.cfg", "NoStuckIter", "an Add in the unlocked window is missed: iterator parked with an unseen item (before 61f9bef)"),
    ("queue", "QueueIter", "MC_iter_asis_window_eof.cfg", "ResultsOK", "Add + Close in the unlocked window: EOF without yielding the item (before 61f9bef)"),
    ("queue", "QueueIter", "MC_iter_asis_window_panic.cfg", "NoPanic", "queue emptied while the iterator waits: it follows a nil link (before 61f9bef)"),
    ("queue", "QueueIter", "MC_iter_asis_signal.cfg", "NoStuckIter", "Add signals one waiter, a BlockingAdd that parks again: iterator stays parked (before a869057)"),
    ("deque", "DequeIter", "MC_iter_asis_signal.cfg", "NoStuckIter", "PushBack does not signal nfront: tail iterator stays parked (before 1bb36cf)"),
    ("deque", "DequeIter", "MC_iter_asis_close.cfg", "NoStuckIter", "Close wakes nobody: blocked iterator does not return (before 58b061a)"),
    ("deque", "DequeIter", "MC_iter_asis_helper.cfg", "NoStuckIter", "cancellation between check and park is lost (before 8d14576)"),
    ("deque", "DequeIter", "MC_iter_evict_zeroes.cfg", "YieldsArePushed", "hypothetical: a Force push zeroes the item of the element it evicts - an iterator walking through it yields a value nobody pushed"),
]


# ------------------------------------------------------------------------------------------------ helpers
def kind_of(first):
    return "queue" if first.get("kind", first.get("arg")) == "queue" else "deque-" + str(first.get("dir", first.get("it")))


def _k(x):
    return x if x in ("blocked", "eof", "ctx", "ok", "closed", "full", "nocredit", "none", "") else "val"


def edge_class(b):
    """Class of a behaviour = the kind of its last edge (setup, step, kind of every allowed observation - incl. whether
    the behaviour continues with a value that is no longer present -, start order of the pending calls, how items were
    removed so far: Pop / eviction by a Force push).  Sampling takes some behaviours of every class."""
    s0, st = b[0], b[-1]
    return json.dumps([s0["arg"], s0["it"], s0["res"], s0["blocking"], st["op"], st["arg"] if st["op"] == "pop" else "",
                       st["hold"], _k(st["res"]), [(e["t"], _k(e["br"]), e["mayblock"], len(e["vals"]) > 1, e.get("stale", False)) for e in st["obs"]],
                       st["porder"], st.get("tcause", "")])


def stratified(behs, per_class, rng):
    cl = collections.defaultdict(list)
    for b in behs:
        cl[edge_class(b)].append(b)
    out = []
    for k in sorted(cl):
        v = cl[k]
        rng.shuffle(v)
        out += v[:per_class]
    return out, len(cl)


def run_scheds(rep, binary, items, label, shards=12, env=None):
    """Execute schedules on the real code.  A failing schedule is re-run alone before it is reported."""
    outs, meta = harness.run_sharded(binary, ["sched"], items, shards=shards, timeout=900, env_extra=env)
    results, begun = {}, set()
    for o in outs:
        if "begin" in o:
            begun.add(o["begin"])
        elif "n" in o:
            results[o["n"]] = o
    byn = {it["n"]: it for it in items}
    rerun = sorted((begun - set(results)) | (set(byn) - begun))      # killed its process / never begun
    for i in rerun:
        rc, o, err = harness.run(binary, ["sched"], [byn[i]], timeout=120, env_extra=env)
        got = [x for x in o if x.get("n") == i and "begin" not in x]
        if got:
            results[i] = got[0]
        else:
            tail = err[-3000:]
            if "github.com/tychoish/fun" in tail and ("panic:" in tail or "fatal error:" in tail):
                rep.violation("qiter/%s/process-crash" % kind_of(byn[i]["beh"][0]),
                              "the process died while executing this schedule: " + tail[-1200:],
                              dict(schedule=byn[i], stderr=tail))
            else:
                rep.infra_error("%s: schedule %d kills the harness without a library frame: %s" % (label, i, tail[-400:]))
    stats = collections.Counter()
    reported = collections.Counter()
    for i, r in sorted(results.items()):
        if r.get("inconclusive"):
            stats["inconclusive"] += 1
            continue
        if not r.get("ok") and (reported[r.get("key")] >= 2 or sum(reported.values()) >= 10):
            stats["failed_not_rerun"] += 1      # the verdict is exit 1 already; same class as reported ones
            continue
        if not r.get("ok"):
            reported[r.get("key")] += 1
            rc, o, err = harness.run(binary, ["sched"], [byn[i]], timeout=120, env_extra=env)
            again = [x for x in o if x.get("n") == i and "begin" not in x]
            if again and not again[0].get("ok"):
                rep.violation(again[0].get("key", "qiter/mismatch"), again[0].get("what", ""), dict(schedule=byn[i], result=again[0]))
            else:
                rep.infra_error("%s: failure of schedule %d did not reproduce in isolation: %s" % (label, i, json.dumps(r)[:400]))
            stats["failed"] += 1
            continue
        stats["truncated" if "truncated" in r else "complete"] += 1
        stats["windows_reached"] += sum(1 for row in r.get("trace", []) if row.get("held_at"))
        stats["steps"] += len(r.get("trace", []))
    okitems = [byn[i]["beh"] for i, r in results.items() if r.get("ok") and not r.get("inconclusive")]
    rep.add_cases(okitems, nontrivial=lambda b: any(e["br"] == "blocked" for s in b for e in s["obs"]))
    for k, v in stats.items():
        rep.cov[label + "_" + k] = rep.cov.get(label + "_" + k, 0) + v
    # which driver steps / setups were exercised (sanity: no action of IterStep never taken)
    ops = collections.Counter()
    for i, r in results.items():
        if r.get("ok") and not r.get("inconclusive"):
            beh = byn[i]["beh"]
            ops["setup:%s/%s/%s/%s" % (beh[0]["arg"], beh[0]["it"], beh[0]["res"], "".join("b" if x else "n" for x in beh[0]["blocking"]))] += 1
            for row in r.get("trace", []):
                ops[row["op"] + ("@" + row["held_at"].split(".")[-1] if row.get("held_at") else "")] += 1
    rep.cov[label + "_ops"] = dict(sorted(ops.items()))
    if stats["inconclusive"] > 0.05 * max(1, len(items)):
        rep.infra_error("%s: %d of %d schedules inconclusive" % (label, stats["inconclusive"], len(items)))
    if len(results) < len(items) - len(rerun):
        rep.infra_error("%s: %d schedules produced no result" % (label, len(items) - len(results)))
    return results


def add_hints(h):
    """Search hint for IterTrace.Lin: the result the matching ret will report ("-": the call never returns in
    this history).  It cannot make a history acceptable: IterTrace.Ret compares with the logged result."""
    rets = {e["id"]: e["res"] for e in h if e.get("ev") == "ret"}
    out = []
    for e in h:
        e = {k: v for k, v in e.items() if k != "seq"}
        if e.get("ev") == "call":
            e["hint"] = rets.get(e["id"], "-")
        out.append(e)
    return out


def record(rep, binary, n, seed, shards=6):
    hists, inconcl = [], 0
    with cf.ThreadPoolExecutor(max_workers=shards) as ex:
        futs = [ex.submit(harness.run, binary, ["record", str(max(1, n // shards)), str(seed * 1000 + i)], None, 900) for i in range(shards)]
        for f in futs:
            rc, outs, err = f.result()
            if rc != 0:
                if "github.com/tychoish/fun" in err and ("panic:" in err or "fatal error:" in err):
                    rep.violation("qiter/record/process-crash", "recorder died: " + err[-1200:], dict(stderr=err[-3000:]))
                else:
                    rep.infra_error("recorder failed: " + err[-600:])
            hists += [add_hints(o["hist"]) for o in outs if "hist" in o]
            inconcl += sum(1 for o in outs if "inconclusive" in o)
    rep.cov["record_inconclusive"] = inconcl
    if inconcl > 0.05 * max(1, n):
        rep.infra_error("record: %d of %d runs reached no quiescent point" % (inconcl, n))
    return hists


def trace_key(hist, info):
    ev = info.get("event", {})
    kind = kind_of(hist[0])
    ops = {e["id"]: e["op"] for e in hist if e.get("ev") == "call"}
    if ev.get("ev") == "quiescent":
        blocked = sorted({ops.get(i, "?") for i in ev.get("blocked", [])})
        return "qiter/%s/trace/stuck-at-quiescence/%s" % (kind, "+".join(blocked) or "none")
    if ev.get("ev") == "ret":
        op = ops.get(ev.get("id"), "?")
        res = str(ev.get("res", ""))
        if res.startswith("panic"):
            return "qiter/%s/trace/%s-panic" % (kind, op)
        handed = {e.get("arg") for e in hist if e.get("ev") == "call" and e.get("op") in ("add", "fadd", "badd")}
        if op == "next" and res not in ("eof", "ctx") and not res.startswith("err:") and res not in handed:
            return "qiter/%s/trace/next-value-never-added" % kind
        return "qiter/%s/trace/%s-unexplainable-result" % (kind, op)
    return "qiter/%s/trace/history-rejected" % kind


# ------------------------------------------------------------------------------------------------ self-tests
def sched_selftests(rep, binary, items, results):
    """The replayer must reject (a) a value the spec does not allow, (b) a blocked call the spec obliges to return."""
    done_a = done_b = False
    for it in items:
        r = results.get(it["n"])
        if not r or not r.get("ok") or "truncated" in r or r.get("inconclusive"):
            continue
        beh = it["beh"]
        for k, st in enumerate(beh):
            for j, e in enumerate(st.get("obs", [])):
                if not done_a and e["t"] != "badd" and e["br"].startswith("v"):
                    bad = copy.deepcopy(it)
                    bad["beh"] = bad["beh"][:k + 1]
                    bad["beh"][k]["obs"][j].update(vals=["v999"], br="v999")
                    rc, o, err = harness.run(binary, ["sched"], [bad], timeout=60)
                    res = [x for x in o if "begin" not in x]
                    rep.self_test("replayer rejects a yielded value the spec does not allow",
                                  bool(res) and not res[0].get("ok") and res[0].get("key", "").endswith("wrong-value"), str(res)[:300])
                    done_a = True
                if not done_b and e["t"] != "badd" and e["br"] == "blocked" and not st["hold"]:
                    bad = copy.deepcopy(it)
                    bad["beh"] = bad["beh"][:k + 1]
                    bad["beh"][k]["obs"][j].update(vals=["v999"], br="v999", mayblock=False)
                    rc, o, err = harness.run(binary, ["sched"], [bad], timeout=60)
                    res = [x for x in o if "begin" not in x]
                    rep.self_test("replayer rejects a call left blocked although the spec obliges it to return",
                                  bool(res) and not res[0].get("ok") and "stuck" in res[0].get("key", ""), str(res)[:300])
                    done_b = True
            if done_a and done_b:
                return
    rep.self_test("replayer self-tests found suitable behaviours", False, "a=%s b=%s" % (done_a, done_b))


def trace_selftests(rep, hists):
    """TLC must reject (a) a corrupted yielded value, (b) two yields swapped (order), (c) a call left blocked at
    quiescence although an unseen item is present (no removal in the history)."""
    def nexts(h):
        ops = ops_of(h)
        return [e for e in h if e.get("ev") == "ret" and ops[e["id"]] == "next" and e["res"].startswith(("v", "b"))]
    cands = sorted([h for h in hists if nexts(h)], key=len, reverse=True)
    tests = []   # (name, corrupted history, event kind TLC must stop at or None)
    if cands:
        bad = copy.deepcopy(cands[0])
        rid = nexts(bad)[0]["id"]
        for e in bad:
            if e.get("id") == rid and e.get("ev") in ("ret", "call"):
                e["res" if e["ev"] == "ret" else "hint"] = "v999"
        tests.append(("IterTrace rejects a yielded value that was never added", bad, "ret"))
    # (b) swap two successive yields of one iterator
    for h in cands:
        calls = {e["id"]: e for e in h if e.get("ev") == "call"}
        per = collections.defaultdict(list)
        for e in nexts(h):
            per[calls[e["id"]]["arg"]].append(e["id"])
        two = [v for v in per.values() if len(v) >= 2]
        if two:
            a, b = two[0][0], two[0][1]
            bad = copy.deepcopy(h)
            res = {e["id"]: e["res"] for e in bad if e.get("ev") == "ret"}
            for e in bad:
                if e.get("id") in (a, b) and e.get("ev") in ("ret", "call"):
                    e["res" if e["ev"] == "ret" else "hint"] = res[b] if e["id"] == a else res[a]
            tests.append(("IterTrace rejects two yields in the wrong order", bad, "ret"))
            break
    # (c) quiescence obligation: drop the return of an iterator's last yield (and everything that iterator did
    # afterwards) and claim the call blocked at the following quiescent points; no removal in the history
    for h in cands:
        calls = {e["id"]: e for e in h if e.get("ev") == "call"}
        if any(e.get("ev") == "ret" and calls[e["id"]]["op"] in ("popn", "popf") and e["res"] != "none" for e in h):
            continue    # removals: staying blocked would be allowed
        last = nexts(h)[-1]
        name = calls[last["id"]]["arg"]
        pos = next(i for i, e in enumerate(h) if e.get("ev") == "call" and e["id"] == last["id"])
        later = {e["id"] for e in h[pos + 1:] if e.get("ev") == "call" and e["op"] == "next" and e["arg"] == name}
        bad = []
        for e in copy.deepcopy(h):
            if e.get("id") in later or (e.get("ev") == "ret" and e["id"] == last["id"]):
                continue
            if e.get("ev") == "call" and e["id"] == last["id"]:
                e["hint"] = "-"
            if e.get("ev") == "quiescent":
                e["blocked"] = sorted(set(e["blocked"]) | {last["id"]})
            bad.append(e)
        tests.append(("IterTrace rejects an iterator left blocked at quiescence with an unseen item present", bad, "quiescent"))
        break
    if len(tests) < 3:
        rep.self_test("trace self-tests found suitable histories", False, "%d of 3" % len(tests))
    with cf.ThreadPoolExecutor(max_workers=3) as ex:
        outs = list(ex.map(lambda t: trace.validate("qiter", "IterTrace", "Trace.cfg", [t[1]]), tests))
    for (name, bad, stop), (acc, r, info) in zip(tests, outs):
        rep.self_test(name, acc is False and info.get("event", {}).get("ev") == stop, str(info)[:200])


def ops_of(h):
    return {e["id"]: e["op"] for e in h if e.get("ev") == "call"}


# ------------------------------------------------------------------------------------------------ replay of a saved file
def do_replay(rep, path):
    data = json.load(open(path))
    obj = data.get("replay", {})
    binary = harness.build("vh-qiter")
    if "schedule" in obj:
        item = obj["schedule"]
        rc, o, err = harness.run(binary, ["sched"], [item], timeout=120)
        res = [x for x in o if "begin" not in x]
        if res and not res[0].get("ok"):
            rep.violation(res[0].get("key", data.get("key")), res[0].get("what", ""), obj)
        elif not res:
            tail = err[-3000:]
            if "github.com/tychoish/fun" in tail and ("panic:" in tail or "fatal error:" in tail):
                rep.violation(data.get("key"), "the process died while executing this schedule: " + tail[-1200:], obj)
            else:
                rep.infra_error("replay produced no result: " + tail[-400:])
        else:
            rep.add_cases([item["beh"]])
    elif "history" in obj:
        first = obj["history"][0]
        if "rec_seed" in first:
            # a recorded history cannot be re-executed step by step (real concurrency): run the recorder again with the
            # parameters of the run that produced it (a few times) and let TLC judge the fresh histories
            for attempt in range(3):
                rc, outs, err = harness.run(binary, ["record", str(first["rec_n"]), str(first["rec_seed"])], None, 900)
                if rc != 0:
                    if "github.com/tychoish/fun" in err and ("panic:" in err or "fatal error:" in err):
                        rep.violation(data.get("key"), "recorder died: " + err[-1200:], obj)
                    else:
                        rep.infra_error("recorder failed: " + err[-600:])
                    return
                hists = [add_hints(o["hist"]) for o in outs if "hist" in o]
                trace.validate_all(rep, "qiter", "IterTrace", "Trace.cfg", hists, label="qiter/trace", shards=6, key_fn=trace_key)
                if rep.violations or rep.infra:
                    return
        else:
            acc, r, info = trace.validate("qiter", "IterTrace", "Trace.cfg", [obj["history"]])
            rep.add_tlc("IterTrace/Trace.cfg", r, "re-validation of the saved history")
            if acc is False:
                rep.violation(data.get("key"), "history not explainable by IterTrace: %s" % json.dumps(info)[:300], obj)
            elif acc is None:
                rep.infra_error("trace validation did not complete: " + str(info)[:400])
            else:
                rep.add_cases([obj["history"]])
    else:
        rep.infra_error("replay file has neither a schedule nor a history")


# ------------------------------------------------------------------------------------------------ entry
def run(rep, tier, seed, replay_file=None):
    if replay_file:
        return do_replay(rep, replay_file)
    quick = tier == "quick"
    rng = random.Random(seed)
    rep.assumptions += [
        "TLC is sound; sync.Mutex/sync.Cond/context and the per-wait helper goroutines behave as modelled in QueueIter.tla / DequeIter.tla",
        "a goroutine snapshot with nothing runnable is a fixed point (rt.Quiesce); 'not remaining blocked' = not blocked at the next quiescent point",
        "readings (DESIGN 5.0, strongest premise / weakest obligation): 'added later' = added at the far end in iteration direction; a removal "
        "(Remove, Pop, or the eviction a Force push performs on a deque at capacity) is concurrent for an iterator when it takes effect after the iterator's first call; under concurrent removals an iterator may yield any value "
        "added behind its position (increasing in the add history), may end, and must return once the container is closed or its context cancelled",
        "io.EOF = an error for which errors.Is(err, io.EOF) holds (ErrQueueClosed wraps io.EOF)",
        "fun.Iterator binds its producer to the context of the first call: the Iterator-based variants are driven with one context per iterator",
        "Deque: at most one blocking iterator per run (two waiters on one Deque cond busy-loop and never quiesce, DESIGN 3.3)",
        "exhaustive claims hold for the constants of the cfg files only",
    ]
    binary = harness.build("vh-qiter")

    # ---- 1. all TLC jobs of the design level and the schedule generators, side by side
    jobs = []
    for cfg in QUEUE_MC[tier]:
        jobs.append(("mc", "queue", "QueueIter", cfg, dict(workers=2 if quick else 5, timeout=2400, heap="8g")))
    for cfg in DEQUE_MC[tier]:
        jobs.append(("mc", "deque", "DequeIter", cfg, dict(workers=2 if quick else 3, timeout=2400, heap="6g")))
    for comp, mod, cfg, inv, what in ASIS:
        jobs.append(("asis", comp, mod, cfg, dict(workers=1, timeout=600, heap="2g")))
    jobs.append(("gen", "qiter", "IterStep", "Step_edge.cfg", dict(workers=3, timeout=1200)))
    jobs.append(("gen", "qiter", "IterStep", "Step_sim.cfg", dict(workers=1, simulate=dict(num=120 if quick else 2500), depth=20, seed=seed, timeout=1200)))
    if not quick:
        jobs.append(("gen", "qiter", "IterStep", "Step_all.cfg", dict(workers=4, timeout=1200, heap="8g")))
    # the big ones first
    order = sorted(range(len(jobs)), key=lambda i: (jobs[i][3] not in ("MC_iter_full.cfg",), jobs[i][0] != "gen", i))
    res = {}
    with cf.ThreadPoolExecutor(max_workers=6 if quick else 5) as ex:
        futs = {ex.submit(tlc.run_tlc, jobs[i][1], jobs[i][2], jobs[i][3], **jobs[i][4]): i for i in order}
        for f in cf.as_completed(futs):
            res[futs[f]] = f.result()
    models_ok = True
    asis_what = {(a[0], a[2]): (a[3], a[4]) for a in ASIS}
    for i, (kind, comp, mod, cfg, kw) in enumerate(jobs):
        r = res[i]
        if kind == "mc":
            rep.add_tlc("%s/%s" % (mod, cfg), r, "Impl spec, exhaustive: NoPanic/PointersOK, YieldsAreAdded, InOrderNoSkip, NoStuckIter, ResultsOK, NoLeak"
                        + ("" if "pingpong" in cfg else " + liveness Settles"))
            if not r.ok:
                models_ok = False
                why = ("%s violated: the Impl spec no longer satisfies C20 - spec and code must be re-aligned" % r.violated) if r.violated \
                    else "TLC did not complete (rc=%s, timed out=%s)" % (r.rc, r.timed_out)
                rep.infra_error("model check %s/%s failed: %s\n%s" % (mod, cfg, why, r.out[-1500:]))
        elif kind == "asis":
            inv, what = asis_what[(comp, cfg)]
            rep.self_test("%s/%s: %s -> TLC must report %s violated" % (mod, cfg, what, inv), r.violated == inv, str(r.brief()))
        else:
            rep.add_tlc("%s/%s" % (mod, cfg), r, "driver schedules with allowed observations")
            if not r.ok:
                rep.infra_error("schedule generation %s failed: %s" % (cfg, r.out[-1500:]))
                return
    if not models_ok:
        return

    # ---- 2. model -> code
    gen = {jobs[i][3]: replay.dedupe(res[i].tagged.get("BEH", [])) for i in range(len(jobs)) if jobs[i][0] == "gen"}
    edge = gen["Step_edge.cfg"]
    sample, nclasses = stratified(edge, 2, rng)
    if quick:
        edge = sample
    behs = replay.dedupe(edge + gen["Step_sim.cfg"] + gen.get("Step_all.cfg", []))
    # "mixed": iterator k of schedule n is driven through API (n+k) mod 3 (bare producer, Iterator.ReadOne, Iterator.Next)
    items = [dict(n=i, api="mixed", beh=b) for i, b in enumerate(behs)]
    if not quick:
        # and some schedules of every class of edge through each single API
        for api in ("producer", "readone", "next"):
            items += [dict(n=len(items) + j, api=api, beh=b) for j, b in enumerate(sample)]
    rep.cov["edge_classes"] = nclasses
    env = {"GOMAXPROCS": str(1 + seed % 4)}
    results = run_scheds(rep, binary, items, "sched", shards=12, env=env)
    if items:
        mid = items[len(items) // 2]
        rep.sample(dict(kind="schedule (op,arg,it,hold -> allowed observations [t,branch,vals,errs,mayblock])",
                        steps=[(s["op"], s["arg"], s["it"], s["hold"], [(e["t"], e["br"], e["vals"], e["errs"], e["mayblock"]) for e in s["obs"]])
                               for s in mid["beh"]], observed=results.get(mid["n"], {}).get("trace")))
    sched_selftests(rep, binary, items, results)

    # ---- 3. code -> model
    hists = record(rep, binary, 360 if quick else 6000, seed, shards=6 if quick else 12)
    trace.validate_all(rep, "qiter", "IterTrace", "Trace.cfg", hists, label="qiter/trace", shards=8 if quick else 12, key_fn=trace_key)
    if hists:
        rep.sample(dict(kind="recorded concurrent history", events=max(hists, key=len)[:24]))
        trace_selftests(rep, hists)
        rep.cov["histories_with_removal"] = sum(1 for h in hists if any(e.get("ev") == "ret" and ops_of(h).get(e["id"]) in ("popn", "popf")
                                                                         and e["res"] != "none" for e in h))
        rep.cov["histories_with_blocked_call_at_quiescence"] = sum(1 for h in hists if any(e.get("ev") == "quiescent" and e["blocked"] for e in h))
    rep.cov["rule"] = ("schedules = behaviours of IterStep (quick: 2 per class of edge of the abstract state graph + random; thorough: one per edge, "
                       "all of length 4, 2 per class through each API, random deep ones), executed on Queue.Producer/Iterator and every Deque producer/iterator "
                       "variant with each operation in its own goroutine and every observation at quiescence judged against the allowed set TLC "
                       "printed; histories = concurrent random runs (iterators, adder - Force pushes on fixed-capacity deques -, remover, closer, canceller, BlockingAdd) validated by "
                       "IterTrace; non-trivial schedule = some call is blocked at some step; non-trivial history = more than 4 events")
