"""X04 (extra check, not a listed property): the sequential collection types of package dt - dt.Pairs, dt.Map, dt.Slice, dt.Optional -
behave as their documentation says: each public method equals the corresponding operation on a sequence of pairs /
a finite map / a sequence.

Technique: spec/dtcoll/{PairsStep,MapStep,SliceStep}.tla are abstract specifications whose behaviours (call sequences
with the expected return value, expected panic and expected abstract state after every call) TLC enumerates exhaustively
up to a depth, one per edge of the state graph, and by random walks; harness/cmd/vh-dtcoll replays them on the real
objects and compares after every call.  TLC also checks invariants / action properties of the models themselves.

Documented-vs-actual divergences are modelled behind the constant AsIs (a set of switch names).  The registered replay
uses the AS-IS model (all switches on) so that the check passes on the unchanged tree; for every switch the documented
model is replayed on a sample as well and must be REJECTED by the real code with exactly the divergence's key - this is
at the same time the non-vacuity test of the switch and the standing evidence of the divergence.  If a divergence key
is listed as `known` for X04 in known_findings.jsonl the rejection is reported through rep.violation (printed as
KNOWN-FINDING); otherwise it is only recorded in the evidence (cov["divergences"])."""
import copy, json, os, random, time

from vlib import tlc, harness, replay, findings
from props import c18c19_common as common

COMP = "dtcoll"
LEVEL = "model_checking"

# switch -> (type, divergence key the documented model must be rejected with, one line)
SWITCHES = {
    "extend-donor": ("pairs", "dtcoll/pairs/extend/partner-state",
                     "Pairs.Extend empties the donor although documented 'without modifying the donating object'"),
    "zero-slice": ("pairs", "dtcoll/pairs/slice/unexpected-panic",
                   "Pairs.Slice on a never-used zero value panics (nil list); every other accessor initialises it"),
    "zero-donor": ("pairs", "dtcoll/pairs/extend/unexpected-panic",
                   "Pairs.Extend(donor) panics when the donor is a never-used zero value"),
    "json-dup": ("pairs", "dtcoll/pairs/json/document",
                 "Pairs.MarshalJSON writes duplicate keys although documented as 'first converting it to a map'"),
    "zerorange-bounds": ("slice", "dtcoll/slice/zerorange/unexpected-panic",
                         "Slice.ZeroRange rejects in-bounds ranges ending at the last element or holding one element"),
}

PAIRS_OPS_ALL = ["add", "push", "append", "consume", "consumevalues", "consumeslice", "consumemap", "extend", "copy",
                 "json", "sortmerge", "sortquick", "len", "keys", "values", "iterator", "list", "observe", "process",
                 "map", "slice"]
PAIRS_OPS_CORE = ["add", "append", "consumemap", "extend", "copy", "json", "sortmerge", "slice", "map"]
MAP_OPS_ALL = ["check", "get", "load", "len", "keys", "values", "iterator", "pairs", "tuples", "setdefault", "delete",
               "add", "addpair", "addtuple", "append", "extend", "consumepairs", "consumetuples", "consumeslice",
               "consumevalues", "consumemap"]
SLICE_OPS_ALL = ["add", "addwhen", "append", "appendwhen", "extend", "extendwhen", "prepend", "populate", "len", "last",
                 "isempty", "copy", "iterator", "observe", "process", "ptrs", "sparse", "filter", "filterfuture", "empty",
                 "reset", "zero", "sort", "index", "ptr", "reslice", "reslicebeginning", "resliceend", "truncate",
                 "fillto", "grow", "growcapacity", "zerorange"]
SLICE_OPS_CORE = ["add", "filter", "sort", "index", "reslice", "truncate", "zerorange"]
SLICE_OPS_WIDE = ["add", "appendwhen", "prepend", "copy", "filter", "zero", "sort", "index", "reslice", "truncate",
                  "fillto", "grow", "zerorange", "last"]
OPT_OPS_ALL = ["set", "handler", "setwhen", "setwhenfuture", "default", "defaultfuture", "resolve", "future", "get", "ok",
               "value", "marshaltext", "reset", "scannil", "swap", "unmarshaltext", "scan"]
MAP_OPS_CORE = ["add", "delete", "setdefault", "append", "consumeslice", "consumemap", "get", "load", "keys", "pairs"]


def _set(xs):
    return "{" + ", ".join(xs) + "}"


def _strs(xs):
    return _set('"%s"' % x for x in xs)


def cfg(typ, mode, depth, ops, asis, maxlen=4, mut=("A",), small=False, prop="ActionProps"):
    """(constant definitions for the MC module, text of the TLC configuration) for <Typ>Step.tla; mode: all | edge | sim.
    TLC configuration files cannot hold tuples, so sequence-valued constants are defined in a generated module
    X04_<job>.tla that EXTENDS the spec and are substituted with `<-`."""
    sw = _strs(sorted(s for s in asis if SWITCHES[s][0] == typ))
    if typ == "pairs":
        defs = dict(K="{1, 2}", V="{11, 12}", Objs='{"A", "B"}', Mut=_strs(mut), Ops=_strs(ops),
                    PSeqs="{<<>>, <<<<1, 11>>>>, <<<<2, 12>>, <<1, 12>>>>, <<<<1, 11>>, <<1, 12>>>>}",
                    VSeqs="{<<>>, <<12, 11>>, <<11, 11>>}",
                    Maps="{{}, {<<1, 11>>}, {<<1, 12>>, <<2, 11>>}}",
                    InitB="{<<>>, <<<<1, 11>>, <<1, 12>>>>}",
                    Makes='{"make", "zero"}', MaxLen=str(maxlen), Depth=str(depth), AsIs=sw)
    elif typ == "map":
        defs = dict(K="{1, 2}" if small else "{1, 2, 3}", V="{11, 12}", Ops=_strs(ops),
                    PSeqs="{<<>>, <<<<1, 11>>, <<1, 12>>>>, <<<<2, 12>>, <<1, 11>>>>}",
                    VSeqs="{<<>>, <<12, 11>>, <<11, 11>>, <<12>>}",
                    Maps="{{}, {<<1, 12>>, <<2, 11>>}}",
                    Inits="{{}, {<<1, 11>>, <<2, 0>>}}", Depth=str(depth))
    elif typ == "optional":
        defs = dict(V="{11, 12}", Ops=_strs(ops), Inits="{<<0, FALSE>>, <<11, TRUE>>}", Depth=str(depth))
    else:
        defs = dict(V="{1, 2}", Ops=_strs(ops), Args="{<<>>, <<2>>, <<2, 1>>}",
                    Inits="{<<>>, <<2, 1, 2>>}" if small else "{<<>>, <<2, 1>>, <<1, 2, 1, 2>>}",
                    MaxLen=str(maxlen), Depth=str(depth), AsIs=sw)
    lines = ["SPECIFICATION " + ("SimSpec" if mode == "sim" else "Spec"), "CONSTANTS"]
    lines += ["  %s <- MC_%s" % (k, k) for k in defs]
    lines += ["INVARIANT Inv", "PROPERTY " + prop]
    if mode == "all":
        lines.append("CONSTRAINT EmitAll")
    elif mode == "edge":
        lines += ["VIEW view", "ACTION_CONSTRAINT EmitEdge"]
    lines.append("CHECK_DEADLOCK FALSE")
    return defs, "\n".join(lines) + "\n"


def mc_module(name, typ, defs):
    body = "\n".join("MC_%s == %s" % kv for kv in defs.items())
    return "---- MODULE %s ----\nEXTENDS %s\n%s\n====\n" % (name, MODULE[typ], body)


MODULE = dict(pairs="PairsStep", map="MapStep", slice="SliceStep", optional="OptionalStep")
ALLSW = set(SWITCHES)


def _job(name, typ, mode, depth, ops, asis, workers=2, sim=None, seed=None, note="", **ckw):
    defs, text = cfg(typ, mode, depth, ops, asis, **ckw)
    mod = "X04_%s" % name
    kw = dict(comp=COMP, module=mod, cfg=mod + ".cfg", workers=workers, timeout=900,
              files={mod + ".cfg": text, mod + ".tla": mc_module(mod, typ, defs)})
    if mode == "sim":
        kw.update(workers=1, simulate=dict(num=sim), depth=depth + 3, seed=seed)
    return name, typ, kw, note


def plan(tier, seed):
    q = tier == "quick"
    jobs = []
    if q:
        jobs += [
            _job("pairs_all2", "pairs", "all", 2, PAIRS_OPS_ALL, ALLSW, 1, note="Pairs: every call sequence of length 2, all methods"),
            _job("pairs_core3", "pairs", "all", 3, PAIRS_OPS_CORE, ALLSW, 2, note="Pairs: every call sequence of length 3 over 9 methods"),
            _job("pairs_sim", "pairs", "sim", 10, PAIRS_OPS_ALL, ALLSW, sim=150, seed=seed, mut=("A", "B"), note="Pairs: random walks of 10 calls on A and B"),
            _job("map_all2", "map", "all", 2, MAP_OPS_ALL, ALLSW, 1, note="Map: every call sequence of length 2, all methods, K={1,2,3}"),
            _job("map_core3", "map", "all", 3, MAP_OPS_CORE, ALLSW, 2, small=True, note="Map: every call sequence of length 3 over 10 methods, K={1,2}"),
            _job("map_edge", "map", "edge", 12, MAP_OPS_ALL, ALLSW, 1, note="Map: one shortest behaviour per edge, K={1,2,3}"),
            _job("slice_all2", "slice", "all", 2, SLICE_OPS_ALL, ALLSW, 1, note="Slice: every call sequence of length 2, all methods"),
            _job("slice_core3", "slice", "all", 3, SLICE_OPS_CORE, ALLSW, 2, small=True, note="Slice: every call sequence of length 3 over 7 methods"),
            _job("slice_edge", "slice", "edge", 12, SLICE_OPS_ALL, ALLSW, 1, maxlen=4, note="Slice: one shortest behaviour per edge"),
            _job("opt_all2", "optional", "all", 2, OPT_OPS_ALL, ALLSW, 1, note="Optional: every call sequence of length 2, all methods"),
            _job("opt_edge", "optional", "edge", 12, OPT_OPS_ALL, ALLSW, 1, note="Optional: one shortest behaviour per edge"),
        ]
    else:
        jobs += [
            _job("pairs_all3", "pairs", "all", 3, PAIRS_OPS_ALL, ALLSW, 4, note="Pairs: every call sequence of length 3, all methods"),
            _job("pairs_edge", "pairs", "edge", 12, PAIRS_OPS_CORE, ALLSW, 2, maxlen=3, mut=("A", "B"), note="Pairs: one shortest behaviour per edge over 9 methods, calls on A and B"),
            _job("map_all3", "map", "all", 3, MAP_OPS_ALL, ALLSW, 4, small=True, note="Map: every call sequence of length 3, all methods, K={1,2}"),
            _job("map_edge", "map", "edge", 12, MAP_OPS_ALL, ALLSW, 1, note="Map: one shortest behaviour per edge, K={1,2,3}"),
            _job("slice_all2", "slice", "all", 2, SLICE_OPS_ALL, ALLSW, 1, note="Slice: every call sequence of length 2, all methods"),
            _job("slice_wide3", "slice", "all", 3, SLICE_OPS_WIDE, ALLSW, 4, small=True, note="Slice: every call sequence of length 3 over 14 methods"),
            _job("slice_edge", "slice", "edge", 12, SLICE_OPS_ALL, ALLSW, 1, maxlen=4, note="Slice: one shortest behaviour per edge"),
        ]
        jobs.append(_job("opt_all3", "optional", "all", 3, OPT_OPS_ALL, ALLSW, 2, note="Optional: every call sequence of length 3, all methods"))
        jobs.append(_job("opt_edge", "optional", "edge", 12, OPT_OPS_ALL, ALLSW, 1, note="Optional: one shortest behaviour per edge"))
        for i in range(2):
            jobs.append(_job("pairs_sim%d" % i, "pairs", "sim", 12, PAIRS_OPS_ALL, ALLSW, sim=600, seed=seed * 100 + i, mut=("A", "B"),
                             note="Pairs: random walks of 12 calls on A and B"))
        jobs.append(_job("map_sim", "map", "sim", 12, MAP_OPS_ALL, ALLSW, sim=600, seed=seed * 100 + 7, note="Map: random walks of 12 calls"))
        jobs.append(_job("slice_sim", "slice", "sim", 12, SLICE_OPS_ALL, ALLSW, sim=600, seed=seed * 100 + 8, note="Slice: random walks of 12 calls"))
    return jobs


def _run_jobs(jobs, width):
    """run TLC jobs in groups whose worker counts add up to at most `width`"""
    res, group, used = {}, [], 0
    def flush():
        nonlocal group, used
        if group:
            res.update(common.run_tlc_parallel([(n, kw) for n, _, kw, _ in group]))
        group, used = [], 0
    for j in jobs:
        w = j[2]["workers"]
        if used + w > width:
            flush()
        group.append(j)
        used += w
    flush()
    return res


def _steps(b):
    return [{k: v for k, v in s.items() if k not in ("st",)} for s in b]


def _nontrivial(b):
    return len(b) >= 3 and any(s.get("pan") == 1 or s["op"] in (
        "extend", "json", "copy", "sortmerge", "sortquick", "consumemap", "delete", "append", "consumepairs", "extend",
        "reslice", "truncate", "zerorange", "sort", "grow", "prepend", "filter", "swap", "reset", "defaultfuture", "scannil") for s in b)


def _one(binary, typ, beh):
    rc, outs, err = harness.run(binary, ["replay", typ], [dict(n=0, beh=beh)], timeout=60)
    res = [o for o in outs if o.get("n") == 0 and "begin" not in o]
    return res[0] if res else dict(ok=None, what="no result: " + err[-300:])


def _corrupt_tests(rep, binary, behs):
    """deterministic self-tests of the binding: in one accepted behaviour of every type ONE expected value is replaced
    by an impossible one (a value outside the model's domain) and the replayer must reject it with the right aspect"""
    def first(typ, pred):
        for b in behs[typ]:
            for i, s in enumerate(b):
                if i > 0 and pred(b, i, s):
                    return b, i
        return None, None
    tests = [
        ("pairs", "expected state of A after Add gets a pair with the impossible value 99",
         lambda b, i, s: s["op"] == "add" and s["st"]["A"]["q"] and all(x["pan"] == 0 and not x.get("free") for x in b[:i + 1]),
         lambda s: s["st"]["A"]["q"][-1].__setitem__(1, 99), "state"),
        ("pairs", "expected return value of Len becomes 77",
         lambda b, i, s: s["op"] == "len" and all(not x.get("free") for x in b[:i + 1]), lambda s: s.__setitem__("ret", 77), "return-value"),
        ("pairs", "a panic is expected where Add does not panic",
         lambda b, i, s: s["op"] == "add" and all(not x.get("free") for x in b[:i + 1]), lambda s: s.__setitem__("pan", 1), "missing-panic"),
        ("map", "expected map after Add gets the impossible value 99",
         lambda b, i, s: s["op"] == "add", lambda s: [p.__setitem__(1, 99) for p in s["st"] if p[0] == s["k"]], "state"),
        ("map", "expected return value of Get becomes 99",
         lambda b, i, s: s["op"] == "get", lambda s: s.__setitem__("ret", 99), "return-value"),
        ("slice", "expected slice after Add ends with the impossible value 99",
         lambda b, i, s: s["op"] == "add", lambda s: s["st"].__setitem__(-1, 99), "state"),
        ("slice", "no panic expected where Index(len) panics",
         lambda b, i, s: s["op"] == "index" and s["pan"] == 1, lambda s: (s.__setitem__("pan", 0), s.__setitem__("ret", 1)), "unexpected-panic"),
        ("optional", "expected value after Set becomes the impossible 99",
         lambda b, i, s: s["op"] == "set", lambda s: s["st"].__setitem__("v", 99), "state"),
        ("optional", "expected defined flag after Reset flipped",
         lambda b, i, s: s["op"] == "reset", lambda s: s["st"].__setitem__("d", 1), "state"),
        ("slice", "expected return value of Last becomes 55",
         lambda b, i, s: s["op"] == "last", lambda s: s.__setitem__("ret", 55), "return-value"),
    ]
    for typ, name, pred, mutate, aspect in tests:
        if typ not in behs:
            continue
        b, i = first(typ, pred)
        if b is None:
            rep.self_test("binding/%s: %s" % (typ, name), False, "no behaviour with such a step among %d" % len(behs[typ]))
            continue
        good = b[:i + 1]
        r1 = _one(binary, typ, good)
        bad = copy.deepcopy(good)
        mutate(bad[i])
        r2 = _one(binary, typ, bad)
        ok = r1.get("ok") is True and not r1.get("truncated") and r2.get("ok") is False and r2.get("key", "").endswith("/" + aspect) \
            and r2.get("step") == i
        rep.self_test("binding/%s: %s -> accepted unchanged, rejected corrupted (%s)" % (typ, name, aspect), ok,
                      "unchanged=%s corrupted=%s" % (json.dumps(r1)[:120], json.dumps(r2)[:200]))


def _model_level(rep, types):
    """the documentation's promises as action properties of the models: they hold in the documented model and TLC must
    find them violated in the as-is model (expected violation = the switches are not vacuous)"""
    jobs = []
    for typ, ops in (("pairs", ["add", "extend", "slice", "json", "copy"]), ("slice", ["add", "zerorange"])):
        if typ in types:
            jobs.append(_job("docprops_%s_documented" % typ, typ, "all", 2, ops, set(), 1, prop="DocProps", note="DocProps in the documented model"))
            jobs.append(_job("docprops_%s_asis" % typ, typ, "all", 2, ops, ALLSW, 1, prop="DocProps", note="expected violation of DocProps in the as-is model"))
    res = _run_jobs(jobs, 4)
    for name, typ, kw, note in jobs:
        r = res[name]
        r.tagged.pop("BEH", None)
        if name.endswith("_asis"):
            hit = (not r.ok) and "DocProps" in r.out
            r.expected_violation = True
            rep.add_tlc("%s/%s" % (MODULE[typ], name), r, note)
            rep.self_test("TLC finds the documentation's promises (DocProps) violated in the as-is %s model" % typ, hit, r.out[-300:] if not hit else "")
        else:
            rep.add_tlc("%s/%s" % (MODULE[typ], name), r, note)
            rep.self_test("DocProps holds in the documented %s model" % typ, r.ok, r.out[-300:] if not r.ok else "")


def _documented(rep, binary, tier, seed, known, types):
    """for every switch: behaviours of the DOCUMENTED model (that switch off, the others on) must be rejected by the
    real code with the divergence's key and nothing else"""
    jobs = []
    for sw, (typ, key, what) in sorted(SWITCHES.items()):
        if typ not in types:
            continue
        asis = ALLSW - {sw}
        if typ == "pairs":
            ops = {"extend-donor": ["add", "extend", "len"], "zero-slice": ["slice", "add", "len"],
                   "zero-donor": ["extend", "add", "len"], "json-dup": ["add", "json", "map"]}[sw]
            jobs.append(_job("doc_" + sw.replace("-", "_"), typ, "all", 3, ops, asis, 1, note="documented model, switch %s off" % sw))
        else:
            jobs.append(_job("doc_" + sw.replace("-", "_"), typ, "all", 2, ["zerorange", "add", "len"], asis, 1,
                             note="documented model, switch %s off" % sw))
    res = _run_jobs(jobs, 4)
    divs = rep.cov.setdefault("divergences", [])
    for name, typ, kw, note in jobs:
        sw = [s for s in SWITCHES if "doc_" + s.replace("-", "_") == name][0]
        _, key, what = SWITCHES[sw]
        r = res[name]
        rep.add_tlc("%s/%s" % (MODULE[typ], name), r, note)
        if not r.ok:
            rep.infra_error("documented-model generation %s failed: %s" % (name, r.out[-800:]))
            continue
        behs = replay.dedupe(r.tagged.get("BEH", []))
        items = [dict(n=i, beh=b) for i, b in enumerate(behs)]
        outs, meta = harness.run_sharded(binary, ["replay", typ], items, shards=2, timeout=300)
        results = {o["n"]: o for o in outs if "n" in o and "begin" not in o}
        bad = [o for o in results.values() if not o.get("ok")]
        keys = sorted({o.get("key") for o in bad})
        ok = len(results) == len(items) and keys == [key]
        rep.self_test("divergence %s: the documented model is rejected by the real code with %s only" % (sw, key), ok,
                      "%d of %d behaviours rejected, keys %s" % (len(bad), len(items), keys))
        if ok:
            bad.sort(key=lambda o: (len(items[o["n"]]["beh"]), o["n"]))
            ex = bad[0]
            divs.append(dict(switch=sw, key=key, what=what, rejected=len(bad), of=len(items), example=ex.get("what"),
                             listed_as_known=key in known))
            if key in known:
                rep.violation(key, what + ": " + ex.get("what", ""), dict(behaviour=items[ex["n"]], type=typ, asis=sorted(ALLSW - {sw})))


def run(rep, tier, seed, replay_file=None):
    quick = tier == "quick"
    rep.assumptions += [
        "TLC is sound; exhaustive claims hold for the constants of the generated configurations only (2-3 keys, 2 values, "
        "length <= 4, call sequences of length 2-4)",
        "Pairs is instantiated as Pairs[string,int], Map as Map[string,int], Slice as Slice[int]; key functions and "
        "comparators are total and pure (v % 10, lexicographic order); iterators are drained with a live context",
        "not modelled: nil maps, re-slicing beyond len (capacity-dependent), Cap(), self-Extend of a Pairs object, "
        "malformed input of Optional.UnmarshalText/Scan, Optional.MarshalBinary/UnmarshalBinary (errors for int), the package-level constructors (MergeSlices, DefaultSlice, SliceRefs, Transform, DefaultMap)",
        "FillTo/Grow/GrowCapacity to a length <= len are modelled as panics because the invariant message says '<='; the "
        "doc comments themselves do not mention a panic",
        "the registered replay uses the as-is model (AsIs = all switches); each documented-vs-actual divergence is kept as a "
        "self-test that requires the documented model to be rejected",
    ]
    binary = harness.build("vh-dtcoll")
    phases = rep.cov.setdefault("phase_s", {})
    known = dict(findings.known_keys(rep.prop))
    if replay_file:
        obj = json.load(open(replay_file))["replay"]
        typ = obj.get("type") or (obj.get("args") or ["replay", "pairs"])[1]
        common.capped_replay(rep, binary, ["replay", typ], [obj["behaviour"]["beh"]], shards=1, label="dtcoll/" + typ)
        return

    jobs = plan(tier, seed)
    t0 = time.time()
    # development aid: X04_WIDTH caps TLC workers per group and harness shards (registered tiers: 4 quick, 8 thorough)
    width = int(os.environ.get("X04_WIDTH", 4 if quick else 8))
    res = _run_jobs(jobs, width)
    phases["tlc"] = round(time.time() - t0, 1)
    behs = {}
    for name, typ, kw, note in jobs:
        r = res[name]
        rep.add_tlc("%s/%s" % (MODULE[typ], name), r, note)
        if not r.ok:
            rep.infra_error("behaviour generation %s failed (%s): %s" % (name, r.violated, r.out[-1500:]))
            return
        b = replay.dedupe(r.tagged.get("BEH", []))
        rep.cov.setdefault("behaviours", {})[name] = len(b)
        behs.setdefault(typ, []).extend(b)
        del r.tagged["BEH"]
    # vacuity audit: every modelled method (action) occurs in the replayed behaviours, and so do the expected panics
    allops = dict(pairs=PAIRS_OPS_ALL, map=MAP_OPS_ALL, slice=SLICE_OPS_ALL, optional=OPT_OPS_ALL)
    for typ in sorted(behs):
        seen = {s["op"] for b in behs[typ] for s in b}
        pans = sorted({s["op"] for b in behs[typ] for s in b if s.get("pan") == 1})
        rep.cov.setdefault("ops_exercised", {})[typ] = dict(n=len(seen) - 1, expected_panics=pans)
        missing = sorted(set(allops[typ]) - seen)
        rep.self_test("every modelled %s method occurs in the replayed behaviours" % typ, not missing, "missing: %s" % missing)
    rep.cov["exhaustive"] = True   # the bounded call sequences of the *_all* configurations are enumerated completely
    t0 = time.time()
    for typ in sorted(behs):
        # A Pairs behaviour that Extends after a Copy would never return if Copy shared the list with the receiver
        # (List.Extend of a list onto itself rotates forever without allocating).  Such behaviours are replayed last,
        # in their own processes with a short timeout, so that a hang (an infrastructure error by the framework's
        # rules) cannot swallow the verdicts of the other behaviours.
        def after_copy(b):
            ops = [s["op"] for s in b]
            return "copy" in ops and "extend" in ops[ops.index("copy"):]
        late = [b for b in behs[typ] if typ == "pairs" and after_copy(b)]
        first = [b for b in behs[typ] if not (typ == "pairs" and after_copy(b))]
        for part, tmo, tag in ((first, 900, ""), (late, 120 if quick else 300, "/extend-after-copy")):
            if not part:
                continue
            try:
                common.capped_replay(rep, binary, ["replay", typ], part, shards=width, label="dtcoll/" + typ + tag,
                                     nontrivial=_nontrivial, cap=2, timeout=tmo)
            except harness.InfraError as e:
                rep.infra_error("dtcoll/%s%s: %s" % (typ, tag, e))
        rep.sample(dict(kind="replayed %s behaviour" % typ, steps=_steps(behs[typ][len(behs[typ]) // 2])))
    phases["replay"] = round(time.time() - t0, 1)

    t0 = time.time()
    _corrupt_tests(rep, binary, behs)
    _model_level(rep, set(behs))
    _documented(rep, binary, tier, seed, known, set(behs))
    phases["selftests"] = round(time.time() - t0, 1)
    rep.cov["rule"] = ("behaviours = call sequences of PairsStep / MapStep / SliceStep (all sequences up to the depth of the "
                       "configuration, one shortest per edge of the abstract state graph, random walks) replayed on real dt.Pairs / "
                       "dt.Map / dt.Slice values with comparison of the return value, a recovered panic and the full abstract state "
                       "(both Pairs objects / the Go map / the slice) after every call; non-trivial = at least 3 calls with an expected "
                       "panic or a transfer/sort/re-slice; divergences = documented model rejected with the divergence key")
