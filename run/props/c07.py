"""C07 blocking queue/deque operations never miss a wake-up."""
import random
from vlib import tlc, harness, replay, trace
from props import qcommon


def impl_models(rep, comp, module, quick):
    """Design level: every interleaving of the implementation-shaped spec."""
    cfgs = ["MC_fixed.cfg"] if quick else ["MC_fixed.cfg", "MC_full.cfg"]
    for cfg in cfgs:
        r = tlc.run_tlc(comp, module, cfg, workers=8 if quick else 16, timeout=3000, heap="12g")
        rep.add_tlc("%s/%s" % (module, cfg), r, "Impl spec: NoStuck at quiescence, NoLeak, ResultsOK, liveness Settles")
        if not r.ok:
            rep.infra_error("model check %s/%s failed (%s): Impl spec and code must be re-aligned\n%s" % (module, cfg, r.violated, r.out[-1200:]))
            return False
    return True


def stepped(rep, comp, step_module, trace_module, binary, sub, quick, seed, label):
    r = tlc.run_tlc(comp, step_module, "Step_edge.cfg", workers=6, timeout=900)
    rep.add_tlc(step_module + "/Step_edge.cfg", r, "edge cover of the abstract blocking state graph -> driver schedules")
    if not r.ok:
        rep.infra_error(step_module + " schedule generation failed: " + r.out[-1200:])
        return
    scheds = qcommon.pick(replay.dedupe(r.tagged.get("BEH", [])), quick, seed, short=4, rest=900)
    rs = tlc.run_tlc(comp, step_module, "Step_sim.cfg", workers=1, simulate=dict(num=150 if quick else 3000), depth=60,
                     seed=seed, timeout=900)
    if not rs.ok:
        rep.infra_error(step_module + " simulation failed: " + rs.out[-1200:])
        return
    scheds = replay.dedupe(scheds + rs.tagged.get("BEH", []))
    scheds, procs = qcommon.with_procs(scheds)
    rep.cov["burst_schedules"] = rep.cov.get("burst_schedules", 0) + sum(1 for b in scheds if qcommon.has_burst(b))
    hists = qcommon.run_schedules(rep, binary, sub, scheds, shards=12, label=label + "/sched", which=label,
                                  env={"GOMAXPROCS": str(1 + seed % 4)}, procs=procs)
    trace.validate_all(rep, comp, trace_module, "LinTraceStrict.cfg", hists, label=label + "/step", shards=8,
                       key_fn=qcommon.lin_key(label))
    if hists:
        rep.sample(dict(kind="%s schedule executed at quiescence granularity; history" % label, events=hists[len(hists) // 2][:16]))
        qcommon.corrupt_selftest(rep, comp, trace_module, "LinTraceStrict.cfg", hists, trace_module + " rejects a corrupted return value")
        # non-vacuity of the quiescence obligation: a history whose last quiescent event claims an enabled op blocked
        import copy
        for h in hists:
            calls = {e["id"]: e for e in h if e.get("ev") == "call"}
            rets = [e for e in h if e.get("ev") == "ret" and calls.get(e["id"], {}).get("op") in ("wait", "drecv", "wfront", "wback") and e["res"] not in ("ctx", "closed")]
            if rets:
                bad = copy.deepcopy(h)
                rid = rets[-1]["id"]
                idx = max(i for i, e in enumerate(bad) if e.get("ev") == "ret" and e["id"] == rid)
                del bad[idx]
                for e in bad[idx:]:
                    if e.get("ev") == "quiescent":
                        e["blocked"] = sorted(set(e["blocked"]) | {rid})
                acc, r2, info = trace.validate(comp, trace_module, "LinTraceStrict.cfg", [bad])
                rep.self_test(trace_module + " rejects a dropped return (operation left blocked although enabled)", acc is False, str(info)[:200])
                break


def storms(rep, binary, comp, trace_module, quick):
    """Unsynchronised rounds (k blocking operations + k operations that enable them, released from a barrier) observed at
    ONE final quiescent point; the histories of every round that still has a blocked operation, and a sample of the others,
    are judged by TLC (LinTraceStrict: nothing enabled may be blocked at a quiescent point)."""
    import concurrent.futures as cf
    rounds = 3000 if quick else 30000
    # k <= 3: the 2k operations of a round are all concurrent, and TLC searches their linearization orders
    plans = [("consume", 2, 4), ("consume", 3, 2), ("consume", 3, 8), ("produce", 2, 4), ("produce", 3, 2),
             ("closewake", 3, 4), ("closefull", 3, 4)]
    hists, total = [], 0
    with cf.ThreadPoolExecutor(max_workers=7) as ex:
        futs = [ex.submit(harness.run, binary, ["storm", str(rounds), str(k), str(p), sc, comp], None, 900) for (sc, k, p) in plans]
        for (sc, k, p), f in zip(plans, futs):
            rc, outs, err = f.result()
            summ = next((o for o in outs if "storm" in o), None)
            if summ is None:
                if harness.crash_origin(err) == "library":
                    rep.violation(comp + "/storm/process-crash", err[-1500:], dict(storm=[sc, k, p], stderr=err[-3000:]))
                else:
                    rep.infra_error("%s storm %s produced no result: %s" % (comp, (sc, k, p), err[-400:]))
                continue
            if summ.get("inconclusive"):
                rep.cov["inconclusive"] = rep.cov.get("inconclusive", 0) + 1
                continue
            total += rounds
            hists += [o["hist"] for o in outs if "hist" in o]
    rep.cov["storm_rounds"] = rep.cov.get("storm_rounds", 0) + total
    if hists:
        trace.validate_all(rep, comp, trace_module, "LinTraceStrict.cfg", hists, label=comp + "/storm", shards=4,
                           key_fn=qcommon.lin_key(comp))


def run(rep, tier, seed, replay_file=None):
    quick = tier == "quick"
    rep.assumptions += [
        "TLC is sound; sync.Mutex/sync.Cond/context and the helper goroutines behave as modelled in QueueImpl.tla / DequeImpl.tla",
        "a goroutine snapshot with nothing runnable is a fixed point (rt.Quiesce); 'promptly' = by the next quiescent point",
        "free capacity = cap() > len() (DESIGN 5.0)",
    ]
    qbin = harness.build("vh-queue")
    from props import c07_deque
    import concurrent.futures as cf

    def queue_models():
        if impl_models(rep, "queue", "QueueImpl", quick):
            for cfg, inv in (("MC_asis_helper.cfg", "NoStuck"), ("MC_asis_badd.cfg", "NoStuck")):
                r = tlc.run_tlc("queue", "QueueImpl", cfg, workers=4, timeout=600)
                rep.self_test("QueueImpl/%s shows the pre-fix lost wake-up (NoStuck not vacuous)" % cfg, r.violated == inv, str(r.brief()))

    # the exhaustive Impl models (TLC only) run beside the schedule replays (harness + trace validation)
    with cf.ThreadPoolExecutor(max_workers=2) as ex:
        futs = [ex.submit(queue_models), ex.submit(c07_deque.models, rep, tier)]
        stepped(rep, "queue", "QueueStep", "QueueLinTrace", qbin, "sched", quick, seed, "queue")
        c07_deque.stepped(rep, tier, seed)
        storms(rep, qbin, "queue", "QueueLinTrace", quick)
        storms(rep, qbin, "deque", "DequeLinTrace", quick)
        for f in futs:
            f.result()
    rep.cov["rule"] = ("driver schedules from QueueStep/DequeStep (edge cover + random; quick: all of <= 4 steps + a seeded sample), "
                       "executed on the real container with every blocking operation in its own goroutine and observation at "
                       "quiescence; BURST steps are issued without waiting for quiescence (several Adds / Add+Cancel / Remove+Close "
                       "before a woken goroutine runs; run with GOMAXPROCS 1 and 4); the recorded history is validated by the "
                       "LinTrace spec with StrictQuiet (no enabled operation may be blocked at a quiescent point); STORMS: unsynchronised rounds (k blocking operations + k enabling "
                       "ones from a barrier) observed at one final quiescent point, every round with a blocked operation judged by "
                       "TLC; non-trivial = history longer than 4 events")
