"""X03 (extra check, no listed property): the remaining service helpers of package srv -
srv.Daemon (restart loop) and, through props/x03_helpers.py, the context helpers and thin wrappers.

The doc comments are the specification.  spec/srv/DaemonAbs.tla (which instantiates ServiceAbs.tla for
the lifecycle of the Service a Daemon is) emits driver schedules with the allowed observations at every
quiescent point; harness/cmd/vh-srv (sub-command replay-x03d, new file x03_daemon.go) executes them against
the real code.  spec/srv/DaemonImpl.tla is the implementation-shaped interleaving model (loop vs. Close /
cancellation vs. base run vs. timer) checked exhaustively.  Where the documentation is silent the observed
behaviour is a named choice of the spec (O1-O3); where documentation and code differ (PanicLoses, StaleTick)
the registered configurations accept both, the divergence is demonstrated by replaying schedules generated
under the documented reading and listed (coverage.documented_vs_actual, DIVERGENCE-CANDIDATE lines) - it is
never judged."""
import copy, json, os
import concurrent.futures as cf
from vlib import tlc, harness
from props import srv_common as sc

LEVEL = "model_checking"
COMP = "srv"
BIN = "vh-srv"
ARGS = ["replay-x03d"]

IMPL = [  # (cfg, expected violation or None, note)
    ("DaemonMC_gate.cfg", None, "restart loop, base run ignores its context, minInterval 0, both proposed fixes: WaitCovers ShutdownAfterCtx "
     "AtMostOneLate CollectedExact CollectedSurvive PanicReported + liveness Stops"),
    ("DaemonMC_ctx.cfg", None, "same, base run honours its context"),
    ("DaemonMC_never.cfg", None, "same, interval that never elapses: + PacedRestart"),
    ("DaemonMC_asis.cfg", None, "code as it is (no recover in Run, stale initial tick): everything but CollectedSurvive / PacedRestart holds"),
    ("DaemonMC_asis_panic.cfg", "CollectedSurvive", "as is: errors collected from earlier base runs are lost when a later one panics"),
    ("DaemonMC_asis_tick.cfg", "PacedRestart", "as is: the first restart ignores minInterval (unread tick of time.NewTimer(0))"),
    ("DaemonMC_asis_late.cfg", "NoLateStart", "as is and fixed: cancel between the loop's context check and its select can start one more base run "
     "(with an ended context) - the history variable `late` is not vacuous"),
]

DIVERGENCES = [
    dict(name="daemon-panic-drops-collected-errors", const="PanicLoses", cfg="Daemon_doc_panic.cfg",
         doc="Daemon doc (implementations.go:355-358): 'All errors encountered, *except* errors that occur after the context has been "
             "canceled *or* that are rooted in context cancellation errors are collected and aggregated to the Daemon services Wait() response.'",
         code="a panic of the base run unwinds Daemon's Run (implementations.go:396-424): the deferred `re = ec.Resolve()` cannot hand a value "
              "to the caller through a panic, so Wait() reports the panic but none of the errors collected from earlier runs",
         demo="fixes/demos/srv_daemon_divergences", patch="fixes/srv-daemon-keep-errors-on-panic.diff"),
    dict(name="daemon-first-restart-ignores-mininterval", const="StaleTick", cfg="Daemon_doc_tick.cfg",
         doc="Daemon doc (implementations.go:371-375): 'if the time between starting the input service and the next loop is less than the "
             "minInterval value, then the Daemon service will wait until at least that interval has passed from the last time the service started.'",
         code="time.NewTimer(0) (implementations.go:399) fires at once and its tick is never read; timer.Reset does not drain the channel "
              "(go.mod says go 1.20: pre-1.23 timer channels), so the first select takes the stale tick: the first restart is immediate for any minInterval",
         demo="fixes/demos/srv_daemon_divergences",
         patch="none proposed: draining the initial tick makes the code follow the documentation but srv's own TestDaemon/CloseTriggers and "
               "TestDaemon/ShutdownTriggers (minInterval 10ms, Close after 5ms, expect >= 2 base runs) rely on the immediate first restart"),
]


WRAP_DIVERGENCES = [
    dict(name="wait-service-may-drop-last-panic", const="WaitPanicRace", cfg="Wrap_doc_waitpanic.cfg",
         doc="srv.Wait doc (implementations.go:114-117): 'The Service's wait function returns an error that aggregates all errors (e.g. panics) "
             "encountered by the constituent wait functions.'",
         code="the goroutine of an operation defers erc.Recover(ec) before wg.Done() (implementations.go:138-139): on a panic wg.Done() runs first, so "
              "when that operation's return is what lets the service finish, Cleanup's `wg.Wait(); ec.Resolve()` races with the Add of the panic and "
              "Wait() may report nil (a race: the number of deviating probes varies from run to run and may be 0)",
         demo="fixes/demos/srv_wrapper_divergences", patch="fixes/srv-wait-recover-before-done.diff"),
    dict(name="worker-returns-notstarted-while-another-start-is-in-progress", const="WorkerEarly", cfg="Wrap_doc_early.cfg",
         doc="Service.Worker doc (service.go:233-241): 'Worker runs the service, starting it if needed and then waiting for the service to return.'",
         code="a Worker called while another caller's Start is still inside the service's sync.Once gets ErrServiceAlreadyStarted from Start (ignored) and, "
              "because isStarted is only set at the end of the Once (service.go:123), ErrServiceNotStarted from waitFor: it returns that error at once "
              "although the service is running (placed deterministically with the yield point srv.Service.Start.launched)",
         demo="fixes/demos/srv_wrapper_divergences", patch="none proposed (waitFor could wait for the Once instead of reading isStarted; C10 reads "
              "Wait()'s ErrServiceNotStarted as documented behaviour, so the change belongs to the maintainer)"),
]


def wrap_nontrivial(b):
    ops = [x["op"] for x in b["steps"]]
    return any(o in ops for o in ("work", "workhold", "start")) and any(o in ops for o in ("cancel", "close", "finish", "closeq", "stop"))


def wrap_part(rep, quick, seed, binary, shards, env):
    """Service.Worker / srv.Wait / srv.Broker: WrapAbs schedules replayed by vh-srv replay-x03w"""
    jobs = [("Wrap_edge.cfg", dict(workers=1, timeout=900), "edge", "edge cover: Service.Worker (service new / started elsewhere / finished x outcome x mode, two caller "
             "contexts, a Worker racing another caller's Start through the yield point), srv.Wait (2 operations x {ok, panic} x {gate, ctx}; add before / while "
             "running / after the end, queue close, cancel, Close), srv.Broker (start, Stop, cancel, Close, probe)"),
            ("Wrap_sim.cfg", dict(workers=1, timeout=900, simulate=dict(num=150 if quick else 4000), depth=20, seed=seed), "sim",
             "random schedules: 3 units, 3 Workers, 2 Waits")]
    with cf.ThreadPoolExecutor(max_workers=2) as ex:
        futs = [ex.submit(tlc.run_tlc, COMP, "WrapAbs", "X03_" + cfg, files={"X03_" + cfg: variant(cfg)}, **kw) for cfg, kw, _, _ in jobs]
        results = [f.result() for f in futs]
    out = {}
    for (cfg, kw, kind, note), r in zip(jobs, results):
        rep.add_tlc("WrapAbs/" + cfg, r, note)
        if not r.ok:
            rep.infra_error("behaviour generation WrapAbs/%s failed: %s" % (cfg, r.out[-1500:]))
            return []
        out[kind] = sc.maximal(r.tagged.get("BEH", []))
    edge = sc.sample(out["edge"], 800 if quick else 20000, seed)
    rep.cov.setdefault("edge_behaviours", {})["WrapAbs"] = dict(maximal=len(out["edge"]), replayed=len(edge))
    behs = edge + out["sim"]
    wargs = ["replay-x03w"]
    _, results = sc.replay_collect(rep, binary, wargs, behs, shards=shards, env_extra=env, label="x03-wrap", nontrivial=wrap_nontrivial, timeout=2400)
    by = {}
    for i, b in enumerate(behs):
        c = b["cfg"]["comp"]
        by.setdefault(c, [0, 0])
        by[c][0] += 1
        if i in results and results[i].get("ok") and not results[i].get("inconclusive"):
            by[c][1] += 1
    hooked = [i for i, b in enumerate(behs) if any(x["op"] == "workhold" for x in b["steps"])]
    rep.cov["wrappers"] = dict(per_component={c: dict(behaviours=v[0], conforming=v[1]) for c, v in by.items()},
                               worker_behaviours_through_the_yield_point=len(hooked),
                               workers_that_returned_notstarted=sum(1 for i in hooked if results.get(i, {}).get("early")))
    concl = [i for i in hooked if i in results and not results[i].get("inconclusive")]
    rep.self_test("the yield point inside the Worker's Start is reached (workhold behaviours are conclusive)",
                  bool(hooked) and len(concl) >= 0.9 * len(hooked), "%d of %d" % (len(concl), len(hooked)))
    pick = next((b for b in behs if b["cfg"]["comp"] == "wait" and any(x["op"] == "start" for x in b["steps"])
                 and any(x["op"] == "add" for x in b["steps"][:2])), None)
    if pick is None:
        rep.self_test("wrapper replayer rejects a wrong invocation count", False, "no suitable behaviour")
    else:
        bad = copy.deepcopy(pick)
        k = max(i for i, x in enumerate(bad["steps"]) if x["op"] in ("start", "add"))
        bad["steps"] = bad["steps"][:k + 1]
        for c in bad["steps"][k]["exp"]["cnt"]:
            c["allow"] = [3]
        rc, outs, err = harness.run(binary, wargs, [dict(n=0, beh=bad)], timeout=120)
        res = [o for o in outs if o.get("n") == 0 and "begin" not in o]
        rep.self_test("wrapper replayer rejects a wrong invocation count", bool(res) and res[0].get("ok") is False, str(res[0] if res else {})[:200])
    s = next((b for b in behs if b["cfg"]["comp"] == "worker" and len(b["steps"]) >= 4), None)
    if s:
        rep.sample(dict(kind="replayed behaviour (Service.Worker)", behaviour=s))
    # documented readings, replayed as probes (never judged)
    div = []
    for d in WRAP_DIVERGENCES:
        r = tlc.run_tlc(COMP, "WrapAbs", d["cfg"], workers=1, timeout=600)
        rep.add_tlc("WrapAbs/" + d["cfg"], r, "documented reading of %s (%s = \"doc\"): probes, not judged" % (d["name"], d["const"]))
        if not r.ok:
            rep.infra_error("probe generation %s failed: %s" % (d["cfg"], r.out[-800:]))
            continue
        pb = sc.maximal(r.tagged.get("BEH", []))
        items = [dict(n=i, beh=b) for i, b in enumerate(pb)]
        outs, _ = harness.run_sharded(binary, wargs, items, shards=min(shards, 4), timeout=900)
        res = [o for o in outs if "n" in o and "begin" not in o]
        bad = [o for o in res if not o.get("ok")]
        ex = bad[0] if bad else None
        div.append(dict(name=d["name"], documented=d["doc"], actual=d["code"], demonstration=d["demo"], proposed_patch=d["patch"],
                        behaviours_under_documented_reading=len(items), real_code_deviates_in=len(bad),
                        status="code differs from the documented reading" if bad else "code followed the documented reading in this run",
                        example=dict(key=ex.get("key"), what=ex.get("what"), cfg=pb[ex["n"]]["cfg"],
                                     steps=[(x["op"], x["id"], x["arg"]) for x in pb[ex["n"]]["steps"][:ex.get("step", 0) + 1]]) if ex else None))
    return div


def nontrivial(b):
    ops = [s["op"] for s in b["steps"]]
    return "start" in ops and ("finish" in ops or "burst" in ops) and any(o in ops for o in ("cancel", "close", "burst", "wait"))


def model_check(rep):
    ok = True
    with cf.ThreadPoolExecutor(max_workers=4) as ex:
        futs = [ex.submit(tlc.run_tlc, COMP, "DaemonImpl", cfg, workers=1, timeout=600) for cfg, _, _ in IMPL]
        results = [f.result() for f in futs]
    for (cfg, want, note), r in zip(IMPL, results):
        rep.add_tlc("DaemonImpl/" + cfg, r, note)
        if want is None:
            if not r.ok:
                rep.infra_error("model check DaemonImpl/%s failed (%s): spec and code must be re-aligned\n%s" % (cfg, r.violated, r.out[-1500:]))
                ok = False
        else:
            rep.self_test("%s is not vacuous (%s)" % (want, note), r.violated == want, str(r.brief()))
    return ok


def reading():
    """X03_PANICLOSES / X03_STALETICK = doc | code | either (default either) select the reading the schedules are judged with,
    e.g. X03_PANICLOSES=doc for a tree with fixes/srv-daemon-keep-errors-on-panic.diff applied."""
    return dict(PanicLoses=os.environ.get("X03_PANICLOSES", "either"), StaleTick=os.environ.get("X03_STALETICK", "either"),
                WorkerEarly=os.environ.get("X03_WORKEREARLY", "either"), WaitPanicRace=os.environ.get("X03_WAITPANICRACE", "either"))


def variant(cfg):
    """cfg text with the divergence constants set to the selected reading"""
    text = open(os.path.join(tlc.SPEC, COMP, cfg)).read()
    for const, val in reading().items():
        text = text.replace('%s = "either"' % const, '%s = "%s"' % (const, val))
    return text


def generate(rep, quick, seed):
    jobs = [("Daemon_small.cfg", dict(workers=1, timeout=900), "all", "all driver schedules of length <= 5 (one configuration per mode x pace; "
             "Inv and the action property NoRestartAfterStop checked on the way)"),
            ("Daemon_edge_q.cfg" if quick else "Daemon_edge.cfg", dict(workers=1 if quick else 4, timeout=1500), "edge",
             "edge cover of the abstract state graph: mode x pace x base Shutdown / Cleanup / handler outcomes x ctx-return outcome; "
             "start (also with an ended context), finish(ok|error|canceled|deadline|panic), burst(finish, cancel), drain, cancel, close, wait"),
            ("Daemon_sim.cfg", dict(workers=1, timeout=1500, simulate=dict(num=200 if quick else 5000), depth=20, seed=seed), "sim",
             "random schedules: up to 6 base runs, 2 waiters, 2 closers, all outcome kinds")]
    with cf.ThreadPoolExecutor(max_workers=3) as ex:
        futs = [ex.submit(tlc.run_tlc, COMP, "DaemonAbs", "X03_" + cfg, files={"X03_" + cfg: variant(cfg)}, **kw) for cfg, kw, _, _ in jobs]
        results = [f.result() for f in futs]
    out = {}
    for (cfg, kw, kind, note), r in zip(jobs, results):
        rep.add_tlc("DaemonAbs/" + cfg, r, note)
        if not r.ok:
            rep.infra_error("behaviour generation DaemonAbs/%s failed: %s" % (cfg, r.out[-1500:]))
            return None
        out[kind] = sc.maximal(r.tagged.get("BEH", []))
    cap = 1000 if quick else 30000
    edge = sc.sample(out["edge"], cap, seed)
    rep.cov["edge_behaviours"] = dict(DaemonAbs=dict(maximal=len(out["edge"]), replayed=len(edge)))
    rep.cov["all_sequences"] = dict(DaemonAbs=dict(depth=5, behaviours=len(out["all"])))
    if len(edge) == len(out["edge"]):
        rep.cov["exhaustive"] = "every edge of the abstract state graph of DaemonAbs for the constants of the edge cfg"
    return out["all"] + edge + out["sim"]


def divergence_probes(rep, binary, shards):
    """Schedules generated under the documented reading of each divergence, replayed against the code; listed, never judged."""
    div = []
    for d in DIVERGENCES:
        r = tlc.run_tlc(COMP, "DaemonAbs", d["cfg"], workers=1, timeout=600)
        rep.add_tlc("DaemonAbs/" + d["cfg"], r, "documented reading of %s (%s = \"doc\"): probes, not judged" % (d["name"], d["const"]))
        if not r.ok:
            rep.infra_error("probe generation %s failed: %s" % (d["cfg"], r.out[-800:]))
            continue
        pb = sc.maximal(r.tagged.get("BEH", []))
        items = [dict(n=i, beh=b) for i, b in enumerate(pb)]
        outs, _ = harness.run_sharded(binary, ARGS, items, shards=shards, timeout=600)
        res = [o for o in outs if "n" in o and "begin" not in o]
        bad = [o for o in res if not o.get("ok")]
        ex = bad[0] if bad else None
        entry = dict(name=d["name"], documented=d["doc"], actual=d["code"], demonstration=d["demo"], proposed_patch=d["patch"],
                     behaviours_under_documented_reading=len(items), real_code_deviates_in=len(bad),
                     status="code differs from the documented reading" if bad else "code follows the documented reading",
                     example=dict(key=ex.get("key"), what=ex.get("what"), cfg=pb[ex["n"]]["cfg"],
                                  steps=[(s["op"], s["arg"]) for s in pb[ex["n"]]["steps"][:ex.get("step", 0) + 1]]) if ex else None)
        div.append(entry)
    return div


def self_tests(rep, binary, behs):
    def one(bad):
        rc, outs, err = harness.run(binary, ARGS, [dict(n=0, beh=bad)], timeout=120)
        res = [o for o in outs if o.get("n") == 0 and "begin" not in o]
        return res[0] if res else {}
    # 1. a wrong count of base runs must be rejected
    pick = next((b for b in behs if len(b["steps"]) >= 2 and b["steps"][0]["op"] == "start" and b["steps"][1]["op"] == "finish"
                 and b["steps"][1]["arg"] == "error" and b["cfg"]["pace"] == "zero"), None)
    if pick is None:
        rep.self_test("replayer rejects a wrong base-run count", False, "no suitable behaviour")
    else:
        bad = copy.deepcopy(pick)
        bad["steps"] = bad["steps"][:2]
        for c in bad["steps"][1]["exp"]["cnt"]:
            if c["id"] == "run":
                c["allow"], c["branch"] = [1], 1
        r = one(bad)
        rep.self_test("replayer rejects a wrong base-run count (restart expected not to happen)", r.get("ok") is False and r.get("key") == "daemon/restart-unexpected",
                      str({k: v for k, v in r.items() if k != "hist"})[:200])
    # 2. a Wait result that misses a required error / reports a forbidden one must be rejected
    def wait_pick():
        for b in behs:
            for k, s in enumerate(b["steps"]):
                for o in s["exp"]["ops"]:
                    for a in o["allow"]:
                        if a["k"] == "agg" and a["must"] and a["forbid"] and o["id"].startswith("w"):
                            return b, k, o["id"]
        return None, None, None
    b, k, oid = wait_pick()
    if b is None:
        rep.self_test("replayer rejects a Wait result with a missing / forbidden error", False, "no suitable behaviour")
    else:
        for label, key in (("missing", "daemon/wait-result/collected-error-missing"), ("forbidden", "daemon/wait-result/dropped-error-reported")):
            bad = copy.deepcopy(b)
            bad["steps"] = bad["steps"][:k + 1]
            for o in bad["steps"][k]["exp"]["ops"]:
                if o["id"] == oid:
                    for a in o["allow"]:
                        if a["k"] == "agg":
                            if label == "missing":
                                a["must"] = a["must"] + [a["forbid"][0]]
                                a["forbid"] = a["forbid"][1:]
                            else:
                                a["forbid"] = a["forbid"] + [a["must"][0]]
                                a["must"] = a["must"][1:]
            r = one(bad)
            rep.self_test("replayer rejects a Wait result with a %s error" % label, r.get("ok") is False and r.get("key") == key,
                          str({kk: v for kk, v in r.items() if kk != "hist"})[:200])


def trace_key(hist, info):
    ev = info.get("event", {})
    if ev.get("ev") == "ret" and ev.get("op") == "wait":
        return "daemon/trace/wait-result"
    if ev.get("ev") in ("cb_enter", "cb_exit") and ev.get("fn") == "run":
        return "daemon/trace/base-run-order"
    if ev.get("ev") == "cb_enter":
        return "daemon/trace/%s-order" % ev.get("fn")
    if ev.get("ev") == "end":
        return "daemon/trace/incomplete-at-end"
    return "daemon/trace/unexplained-" + str(ev.get("ev"))


def traces(rep, binary, quick, seed, results, shards):
    """code -> model: the event logs of the stepped replays and free-running recordings, judged by DaemonTrace"""
    hists = [r["hist"] for r in results.values() if r.get("ok") and not r.get("inconclusive") and not r.get("truncated") and r.get("hist")]
    hists = sc.sample(hists, 400 if quick else 6000, seed)
    n = 400 if quick else 12000
    k = min(shards, 6)
    rec = []
    with cf.ThreadPoolExecutor(max_workers=k) as ex:
        futs = [ex.submit(harness.run, binary, ["record-x03d", str(n // k), str(seed * 1000 + i)], None, 1800) for i in range(k)]
        for f in futs:
            rc, outs, err = f.result()
            if rc != 0:
                rep.infra_error("recorder failed: " + err[-800:])
            rec += [o["hist"] for o in outs if "hist" in o]
    incomplete = sum(1 for h in rec if h and h[-1].get("complete") == 0)
    rep.cov["daemon_traces"] = dict(stepped=len(hists), recorded=len(rec), recorded_not_quiescent=incomplete,
                                    recorded_with_stop_racing_a_run=sum(1 for h in rec if _stop_races(h)))
    sc.validate_histories(rep, COMP, "DaemonTrace", "DaemonTrace.cfg", hists + rec, label="daemon/trace", shards=min(shards, 6), key_fn=trace_key)
    if rec:
        rep.sample(dict(kind="recorded free-running history (daemon)", events=max(rec, key=len)[:24]))
    # self-tests of the trace binding: corrupted histories must be rejected at the corrupted event
    tests = []
    for h in rec:
        if any(e["ev"] == "cb_exit" and e["fn"] == "run" and e["out"] == "panic" for e in h):
            continue
        stop = next((j for j, x in enumerate(h) if x["ev"] == "act" or (x["ev"] == "call" and x["op"] == "close")), len(h))
        for i, e in enumerate(h):
            if e["ev"] == "ret" and e["op"] == "wait":
                sure = [t for t in e["is"] if t[0] == "e" and t[1:].isdigit() and any(
                    j < stop for j, x in enumerate(h) if x["ev"] == "cb_enter" and x["fn"] == "run" and x["n"] == int(t[1:]) + 1)]
                if sure:
                    b = copy.deepcopy(h)
                    b[i]["is"] = [x for x in b[i]["is"] if x != sure[0]]
                    tests.append(("DaemonTrace rejects a Wait result that misses an error collected before a restart", b, "ret"))
                    break
        if tests:
            break
    for h in rec:
        i1 = next((i for i, e in enumerate(h) if e["ev"] == "cb_exit" and e["fn"] == "run" and e["n"] == 1 and e["out"] == "ok"), None)
        i2 = next((i for i, e in enumerate(h) if e["ev"] == "cb_enter" and e["fn"] == "run" and e["n"] == 2), None)
        if i1 is not None and i2 is not None:
            b = copy.deepcopy(h)
            b[i1]["out"] = "canceled"
            tests.append(("DaemonTrace rejects a restart after a base run returned a context error", b, "cb_enter"))
            b = copy.deepcopy(h)
            b[i1], b[i2] = b[i2], b[i1]
            tests.append(("DaemonTrace rejects two base runs in progress at once", b, "cb_enter"))
            break
    if len(tests) < 3:
        rep.self_test("DaemonTrace rejects corrupted histories", False, "no suitable recorded history (%d tests built)" % len(tests))
    for name, bad, stop_ev in tests:
        ok, r, rej = sc.validate_batch(COMP, "DaemonTrace", "DaemonTrace.cfg", [bad], 600)
        rep.self_test(name, ok is True and bool(rej) and rej[0][1].get("event", {}).get("ev") == stop_ev, str(rej)[:200])


def _stop_races(h):
    """a stop (cancel / Close) was issued while a base run was in progress"""
    running = False
    for e in h:
        if e["ev"] == "cb_enter" and e.get("fn") == "run":
            running = True
        elif e["ev"] == "cb_exit" and e.get("fn") == "run":
            running = False
        elif running and (e["ev"] == "act" or (e["ev"] == "call" and e.get("op") == "close")):
            return True
    return False


def run(rep, tier, seed, replay_file=None):
    quick = tier == "quick"
    shards = int(os.environ.get("X03_SHARDS", "6" if quick else "10"))
    rep.assumptions += [
        "no listed property governs this check: the doc comments of srv.Daemon (implementations.go:346-375) are the specification; TLC is sound; "
        "spec/srv/DaemonAbs.tla states them at quiescent points (D1-D4) and instantiates ServiceAbs.tla for the lifecycle of the returned Service",
        "as-observed choices where the documentation is silent (never alarmed on the unchanged tree): O1 a panic of a base run stops the daemon and is "
        "reported by Wait(); O2 base Shutdown / Cleanup run once, when the daemon ends, and the first base run is invoked even under an ended context; "
        "O3 a handler set on the base service after Daemon() is never called; DaemonImpl: cancel racing the select can start at most one more base run",
        "documented-vs-actual divergences are accepted both ways in the judged schedules (constants PanicLoses / StaleTick = \"either\") and demonstrated "
        "separately (coverage.documented_vs_actual): they are never a violation",
        "time is not modelled: minInterval is driven at 0 (restart immediate) and 1h (no restart observable at any quiescent point); a restart passes "
        "through a runtime timer that the goroutine census cannot see, so an observation in which too little has happened is re-examined for up to ~2 s "
        "before it is believed (patience delays a verdict, it never creates one)",
        "a goroutine snapshot with no running/runnable goroutine is a fixed point (rt.Quiesce, DESIGN 3.3)",
        "bursts (base run returns, cancel at once): the spec allows exactly the outcomes of the interleavings of DaemonImpl.tla (error examined before / "
        "after the cancellation; one late base run when a timer tick is ready); which of them the scheduler produced is counted, not chosen",
        "exhaustive claims hold for the constants of the cfg files only",
    ]
    build = lambda: harness.build(BIN)
    if replay_file:
        d = json.load(open(replay_file))
        rp = d.get("replay", {})
        if "history" in rp and str(d.get("key", "")).startswith("daemon/trace/"):
            # a recorded history DaemonTrace rejected: validated again (the recording itself is the evidence)
            ok, r, rej = sc.validate_batch(COMP, "DaemonTrace", "DaemonTrace.cfg", [rp["history"]], 600)
            rep.add_tlc("DaemonTrace/DaemonTrace.cfg", r, "saved history")
            if ok is None:
                rep.infra_error("trace validation did not complete: " + str(rej)[:600])
            elif rej:
                rep.violation(trace_key(rp["history"], rej[0][1]), "history not explainable by DaemonTrace: %s" % json.dumps(rej[0][1])[:300], rp)
            else:
                rep.add_cases([rp["history"]])
        elif not sc.rerun_saved(rep, replay_file, build):
            rep.infra_error("replay file has no behaviour")
        return
    if not model_check(rep):
        return
    behs = generate(rep, quick, seed)
    if behs is None:
        return
    binary = build()
    env = {"GOMAXPROCS": str(2 + seed % 5)}
    _, results = sc.replay_collect(rep, binary, ARGS, behs, shards=shards, env_extra=env, label="x03-daemon", nontrivial=nontrivial, timeout=2400)
    trunc = sum(1 for r in results.values() if r.get("truncated"))
    bursts = [i for i, b in enumerate(behs) if any(s["op"] == "burst" for s in b["steps"])]
    late = sum(1 for i in bursts if results.get(i, {}).get("late"))
    optkept = sum(1 for i in bursts if results.get(i, {}).get("optkept"))
    rep.cov["daemon"] = dict(behaviours=len(behs), conforming=sum(1 for r in results.values() if r.get("ok") and not r.get("inconclusive")),
                             truncated_on_documented_branch=trunc, burst_behaviours=len(bursts), bursts_with_late_base_run=late, bursts_whose_error_was_collected=optkept)
    s = next((b for b in behs if len(b["steps"]) >= 5 and any(x["op"] == "burst" for x in b["steps"])), None) or (behs[0] if behs else None)
    if s:
        rep.sample(dict(kind="replayed behaviour (daemon)", behaviour=s))
    self_tests(rep, binary, behs)
    traces(rep, binary, quick, seed, results, shards)
    div = divergence_probes(rep, binary, min(shards, 4))
    div += wrap_part(rep, quick, seed, binary, shards, env)
    # context helpers (spec/srv/HelpersAbs.tla)
    try:
        from props import x03_helpers as xh
    except ImportError:
        xh = None
    if xh is not None:
        more = xh.run_part(rep, quick, seed, binary)
        for d in (more or []):
            div.append(d)
    else:
        rep.cov["helpers"] = "props/x03_helpers.py not present: HelpersAbs part not run"
    rep.cov["documented_vs_actual"] = div
    rep.cov["reading"] = reading()
    for d in div:
        print("DIVERGENCE-CANDIDATE %s: %s (%s of %s behaviours under the documented reading)" % (
            d.get("name"), d.get("status", "listed"), d.get("real_code_deviates_in", "?"), d.get("behaviours_under_documented_reading", "?")))
    rep.cov["rule"] = ("behaviours = driver schedules of DaemonAbs (start - also under an ended context -, finish of the base run in progress with outcome "
                       "ok / error / error wrapping context.Canceled / DeadlineExceeded / panic, burst = finish immediately followed by cancel, drain, cancel, "
                       "Close, Wait) over base run {ignores, honours} its context x minInterval {0, 1h} x base Shutdown / Cleanup outcomes x handler "
                       "{absent, set, set late}: all schedules of length <= 5 of a small configuration, an edge cover of the abstract state graph "
                       "(quick: seeded sample; thorough: seeded sample of 30000 of the maximal ones) and random deeper schedules, replayed step by step against srv.Daemon "
                       "with a harness-supplied base service (counter, per-run sentinel errors, contexts remembered) and judged at quiescence: number of "
                       "base runs, base runs in progress, Shutdown / Cleanup / handler counts, context of past and current runs, Wait blocked / its "
                       "aggregate (required and forbidden sentinels, panic flag, nil-ness); non-trivial = started, a base run returned, and a stop or Wait step; "
                       "code -> model: the event log of every stepped replay and free-running recordings (base runs return by themselves after random yields with "
                       "random outcomes, Wait / Close / cancel from other goroutines, GOMAXPROCS 1-6) are validated by DaemonTrace (non-trivial = more than 6 events)")
