"""C12 error aggregation (ers.Join/Stack/Wrap/ParsePanic, erc.Collector) is lossless and
errors.Is/As/Unwind-consistent; the Collector is concurrency-correct.

model -> code: spec/errors/ErrAlgebra.tla enumerates error-construction terms and computes the expected
observation vector from an independent oracle (bag of constituents / set of reachable leaves); vh-errors
builds every term with the real functions and compares.
code -> model: sequential driver schedules (CollectorStep.tla) and concurrent runs of erc.Collector are
recorded and judged by spec/errors/CollectorLinTrace.tla."""
import copy, json, random
from vlib import tlc, harness, replay

COMP = "errors"
SHARDS = 8


# ---------------------------------------------------------------- trace plumbing (one verdict per history)
def to_ndjson(histories):
    """reset(h=-1) H0 reset(h=0) H1 ... reset(h=n-1); every event carries `nr`, the 1-based position
    of the reset that closes its history (CollectorLinTrace.GiveUp jumps behind it)."""
    lines, pos = [], 1
    lines.append(dict(ev="reset", h=-1, nr=1))
    for hi, h in enumerate(histories):
        close = pos + len(h) + 1
        for e in h:
            e = dict(e)
            e["h"], e["nr"] = hi, close
            lines.append(e)
        lines.append(dict(ev="reset", h=hi, nr=close))
        pos = close
    return "\n".join(json.dumps(x, separators=(",", ":")) for x in lines) + "\n"


def validate_multi(histories, timeout=900):
    """-> (set of accepted indices | None, TLC result)"""
    r = tlc.run_tlc(COMP, "CollectorLinTrace", "TraceMulti.cfg", workers=1, timeout=timeout,
                    files={"trace.ndjson": to_ndjson(histories)})
    if not r.ok:
        return None, r
    return {a["h"] for a in r.tagged.get("ACC", [])}, r


def validate_one(history, timeout=300):
    """-> (True | False | None, info): strict run naming the first unexplained event"""
    r = tlc.run_tlc(COMP, "CollectorLinTrace", "Trace.cfg", workers=1, timeout=timeout,
                    files={"trace.ndjson": to_ndjson([history])})
    rej = r.tagged.get("REJECTED")
    if r.timed_out:
        return None, "timeout"
    if rej:
        return False, rej[0]
    if r.rc == 0:
        return True, None
    return None, r.out[-1500:]


def key_of(info):
    e = (info or {}).get("event", {})
    op = e.get("op")
    if op in ("read", "iter"):
        return "collector/iterator/inconsistent-with-adds"
    if op == "len":
        return "collector/len/not-linearizable"
    if op == "resolve":
        return "collector/resolve/not-linearizable"
    if op == "final":
        return "collector/final/contents"
    return "collector/history-rejected"


def judge_histories(rep, label, histories, origin, rerun=None, max_confirm=5, parts=SHARDS):
    """Validate all histories (sharded TLC runs, a verdict per history); every rejected history that is
    reported has been validated again on its own (and, for driver schedules, executed again first)."""
    import concurrent.futures as cf
    if not histories:
        rep.infra_error(label + ": no histories recorded")
        return
    parts = max(1, min(parts, len(histories) // 6 or 1))
    idx = [list(range(len(histories)))[i::parts] for i in range(parts)]
    with cf.ThreadPoolExecutor(max_workers=parts) as ex:
        futs = [ex.submit(validate_multi, [histories[i] for i in ix]) for ix in idx]
        results = [f.result() for f in futs]
    rejected = []
    for ix, (acc, r) in zip(idx, results):
        rep.add_tlc("CollectorLinTrace/TraceMulti.cfg", r, "%s: trace validation of %d histories" % (label, len(ix)))
        if acc is None:
            rep.infra_error("%s: trace validation did not complete: %s" % (label, r.out[-800:]))
            continue
        good = [histories[i] for k, i in enumerate(ix) if k in acc]
        rep.add_cases(good, nontrivial=lambda h: len(h) > 6)
        rejected += [i for k, i in enumerate(ix) if k not in acc]
    rep.cov.setdefault("histories_rejected", {})[label] = len(rejected)
    # examine (re-execute / re-validate alone) a handful of the rejected histories; all are counted above
    for i in rejected[:max_confirm]:
        h = histories[i]
        if rerun is not None:
            h = rerun(origin[i])
            if h is None:
                rep.infra_error("%s: could not re-run schedule %d" % (label, i))
                continue
        ok, info = validate_one(h)
        if ok is False:
            rep.violation(key_of(info), "history of the real Collector not explainable by CollectorLinTrace: first unexplained "
                          "event #%d %s (%d of %d histories rejected)" % (info["at"] - 1, json.dumps(info["event"])[:300],
                                                                          len(rejected), len(histories)),
                          dict(history=h, schedule=origin[i] if origin else None, rejected_at=info))
        elif ok is True:
            rep.infra_error("%s: rejection of history %d did not reproduce in isolation" % (label, i))
        else:
            rep.infra_error("%s: single-history validation did not complete: %s" % (label, str(info)[:400]))


# ---------------------------------------------------------------- the check
def gen_terms(rep, cfg, note, **kw):
    r = tlc.run_tlc(COMP, "ErrAlgebra", cfg, timeout=900, **kw)
    rep.add_tlc("ErrAlgebra/" + cfg, r, note)
    if not r.ok:
        rep.infra_error("term generation %s failed (%s): %s" % (cfg, r.violated, r.out[-1500:]))
        return None
    return r.tagged.get("BEH", [])


def run(rep, tier, seed, replay_file=None):
    quick = tier == "quick"
    rep.assumptions += [
        "TLC is sound; the oracle of spec/errors/ErrAlgebra.tla (Cons = bag of supplied constituents, DeepLeaves) is the meaning of C12",
        "fmt.Errorf(%w) and errors.Join of the Go standard library behave as documented",
        "leaf errors are comparable values with well-behaved Error(); typed-nil pointers are not supplied as errors",
        "exhaustive claims hold for the term sets of the cfg files only (depth/arity/leaf bounds)",
        "Collector histories: every recorded Add uses a fresh error; concurrent schedules are whatever the Go scheduler produced (seeded GOMAXPROCS/yields), not an enumeration",
    ]
    binary = harness.build("vh-errors")
    if replay_file:
        return replay_saved(rep, binary, replay_file)

    # 1. model -> code: terms
    behs = []
    plan = [("Terms_d1.cfg", "all terms of depth 1, arity <= 3, 5 leaves + nil", dict(workers=2)),
            ("Terms_d2q.cfg" if quick else "Terms_d2.cfg", "all terms of depth 2, arity <= 2, leaves {s1,t1} + nil", dict(workers=2))]
    for cfg, note, kw in plan:
        b = gen_terms(rep, cfg, note, **kw)
        if b is None:
            return
        behs += b
    sims = [(12, 1500 if quick else 12000), (24, 300 if quick else 6000)]
    for steps, num in sims:
        r = tlc.run_tlc(COMP, "ErrAlgebra", "Sim.cfg", workers=1, simulate=dict(num=num), depth=steps + 2, seed=seed * 100 + steps,
                        timeout=900, files={"Sim.cfg": open(tlc.SPEC + "/errors/Sim.cfg").read().replace("SimSteps = 12", "SimSteps = %d" % steps)})
        rep.add_tlc("ErrAlgebra/Sim.cfg", r, "random postfix constructions of %d steps" % steps)
        if not r.ok:
            rep.infra_error("term simulation failed: " + r.out[-1500:])
            return
        behs += r.tagged.get("BEH", [])
    behs = replay.dedupe(behs)
    rep.cov["exhaustive"] = True
    env = {"GOMAXPROCS": "2"}
    replay.replay(rep, binary, ["replay"], behs, shards=SHARDS, env_extra=env, label="errors",
                  nontrivial=lambda b: b["count"] >= 2)
    mid = [b for b in behs if b["count"] >= 3 and b["term"]["op"] == "join"]
    if mid:
        rep.sample(dict(kind="term with expected observations", obs=mid[len(mid) // 2]))

    # self-tests of the binding: a wrong expectation must be rejected
    base = next(b for b in behs if b["term"]["op"] == "join" and len(b["groups"]) >= 2
                and all(len(g) == 1 for g in b["groups"]) and len({g[0] for g in b["groups"]}) == len(b["groups"]))
    wrong = []
    w = copy.deepcopy(base); w["is"]["u1"] = True; wrong.append(("unrelated sentinel expected", w))
    w = copy.deepcopy(base); w["groups"] = w["groups"][::-1]; wrong.append(("reversed Unwind order expected", w))
    w = copy.deepcopy(base); w["groups"][0] = w["groups"][0] + ["s2"]; wrong.append(("extra constituent expected", w))
    w = copy.deepcopy(base); w["nonnil"] = False; wrong.append(("nil expected", w))
    rc, outs, err = harness.run(binary, ["replay"], [dict(n=i, beh=b) for i, (_, b) in enumerate(wrong)], timeout=60)
    res = {o["n"]: o for o in outs if "n" in o}
    for i, (name, _) in enumerate(wrong):
        rep.self_test("replayer rejects: " + name, i in res and not res[i].get("ok"), str(res.get(i))[:160])

    # 2. Collector, sequential driver schedules (code -> model)
    scripts = []
    r = tlc.run_tlc(COMP, "CollectorStep", "CStep_all.cfg", workers=2, timeout=600)
    rep.add_tlc("CollectorStep/CStep_all.cfg", r, "all driver schedules of length 6 (one iterator handle)")
    if not r.ok:
        rep.infra_error("schedule generation failed: " + r.out[-1500:])
        return
    allb = replay.dedupe(r.tagged.get("BEH", []))
    if quick:
        random.Random(seed).shuffle(allb)
        allb = allb[:1500]
    scripts += allb
    r = tlc.run_tlc(COMP, "CollectorStep", "CStep_edge.cfg", workers=2, timeout=600)
    rep.add_tlc("CollectorStep/CStep_edge.cfg", r, "one shortest schedule per edge (two handles)")
    if r.ok:
        scripts += r.tagged.get("BEH", [])
    r = tlc.run_tlc(COMP, "CollectorStep", "CStep_sim.cfg", workers=1, simulate=dict(num=200 if quick else 3000), depth=17,
                    seed=seed, timeout=600)
    rep.add_tlc("CollectorStep/CStep_sim.cfg", r, "random schedules of length 16 (three handles)")
    if r.ok:
        scripts += r.tagged.get("BEH", [])
    scripts = replay.dedupe(scripts)

    def run_scripts(ss):
        outs, meta = harness.run_sharded(binary, ["script"], [dict(n=i, beh=s) for i, s in enumerate(ss)], shards=SHARDS)
        byn = {o["n"]: o["hist"] for o in outs if "hist" in o}
        if len(byn) != len(ss):
            rep.infra_error("script runner returned %d of %d histories: %s" % (len(byn), len(ss), meta[0][1][-400:]))
        return [byn.get(i) for i in range(len(ss))]

    hists = run_scripts(scripts)
    pairs = [(s, h) for s, h in zip(scripts, hists) if h is not None]

    def rerun(script):
        h = run_scripts([script])
        return h[0]

    judge_histories(rep, "collector/schedules", [h for _, h in pairs], [s for s, _ in pairs], rerun=rerun)
    if pairs:
        rep.sample(dict(kind="recorded history of a driver schedule", events=pairs[len(pairs) // 2][1][:14]))

    # 3. Collector, concurrent histories
    n = 240 if quick else 3000
    import concurrent.futures as cf
    rec = []
    with cf.ThreadPoolExecutor(max_workers=6) as ex:
        futs = [ex.submit(harness.run, binary, ["record", str(n // 6), str(seed * 1000 + i)], None, 600) for i in range(6)]
        for f in futs:
            rc, outs, err = f.result()
            if rc != 0:
                rep.infra_error("recorder failed: " + err[-800:])
            rec += [o["hist"] for o in outs if "hist" in o]
    judge_histories(rep, "collector/concurrent", rec, [None] * len(rec))
    # ... and bursts: four goroutines leave a spin barrier together and Add 300 fresh errors each
    nb = 24 if quick else 200
    bursts = []
    with cf.ThreadPoolExecutor(max_workers=3) as ex:
        futs = [ex.submit(harness.run, binary, ["record", str(nb // 3), str(seed * 777 + i), "burst"], None, 600) for i in range(3)]
        for f in futs:
            rc, outs, err = f.result()
            if rc != 0:
                rep.infra_error("burst recorder failed: " + err[-800:])
            bursts += [o["hist"] for o in outs if "hist" in o]
    judge_histories(rep, "collector/burst", bursts, [None] * len(bursts), parts=4)

    # self-test: a corrupted return value must be rejected by the trace spec
    good = None
    for h in rec + [h for _, h in pairs]:
        if any(e["ev"] == "ret" and e["op"] == "len" for e in h):
            ok, info = validate_one(h)
            if ok:
                good = h
                break
    if good is None:
        rep.self_test("trace spec rejects a corrupted Len()", False, "no accepted history with a Len call found")
    else:
        bad = copy.deepcopy(good)
        for e in bad:
            if e["ev"] == "ret" and e["op"] == "len":
                e["res"] = str(int(e["res"]) + 1)
                break
        ok, info = validate_one(bad)
        rep.self_test("trace spec rejects a corrupted Len()", ok is False, str(info)[:200])
        bad = copy.deepcopy(good)
        bad[-1]["ids"] = bad[-1]["ids"] + ["e999"]
        ok, info = validate_one(bad)
        rep.self_test("trace spec rejects an invented error in the final Unwind", ok is False, str(info)[:200])

    rep.cov["rule"] = (
        "terms = every ErrAlgebra term of the cfg bounds (depth 1: arity<=3 over 5 leaves+nil; depth 2: arity<=2 over {s1,t1}+nil) "
        "plus random postfix constructions (12 and 24 steps), each built with the real ers/erc/errors/fmt functions and compared "
        "with the oracle's vector (nil, ers.Ok, errors.Is per leaf/unrelated sentinel, errors.As per type, Unwind as bag and "
        "most-recent-first per direct argument, identity of the single plain case, Len); non-trivial = >= 2 constituents. "
        "histories = all single-goroutine driver schedules of length 6 over Add/Add(nil)/Len/Resolve/Iterator/ReadOne "
        "(quick: seeded sample) + edge cover + random longer ones, and concurrent runs of 2-4 goroutines, each validated by "
        "CollectorLinTrace (Len/Resolve linearizable, iterators and final Unwind hold exactly the added errors)")


def replay_saved(rep, binary, path):
    obj = json.load(open(path))["replay"]
    if "behaviour" in obj:
        replay.replay(rep, binary, ["replay"], [obj["behaviour"]["beh"]], shards=1, label="errors")
    elif "history" in obj:
        ok, info = validate_one(obj["history"])
        if ok is False:
            rep.violation(key_of(info), "saved history still rejected: %s" % json.dumps(info)[:300], obj)
        elif ok is None:
            rep.infra_error("validation of the saved history did not complete")
        else:
            rep.add_cases([obj["history"]])
    rep.cov["rule"] = "re-run of one saved case"
