"""C12 error aggregation (ers.Join/Stack/Wrap/ParsePanic, erc.Collector) is lossless and
errors.Is/As/Unwind-consistent; the Collector is concurrency-correct.

model -> code: spec/errors/ErrAlgebra.tla enumerates error-construction terms (nil, nil-like typed-nil
*ers.Stack and the caller's own holey Unwind()/Unwrap() []error composites in every operand position) with an
observation schedule (observe the result once / observe the composite operands with ers.Unwind while
building, observe the result, observe operands and result again) and computes the expected observations
from an independent oracle (bag of constituents / set of reachable leaves); vh-errors builds every term
with the real functions and compares.
code -> model: driver schedules (CollectorStep.tla: plain, nil-like and composite Adds, iterators, and
hold steps that park one Add inside its operand's own Unwind()/Unwrap() method while further operations
are issued from other goroutines) and concurrent runs of erc.Collector are recorded and judged by
spec/errors/CollectorLinTrace.tla."""
import copy, json, random
from vlib import tlc, harness, replay

COMP = "errors"
SHARDS = 8


# ---------------------------------------------------------------- trace plumbing (one verdict per history)
def to_ndjson(histories):
    """reset(h=-1) H0 reset(h=0) H1 ... reset(h=n-1); every event carries `nr`, the 1-based position
    of the reset that closes its history (CollectorLinTrace.GiveUp jumps behind it)."""
    lines, pos = [], 1
    lines.append(dict(ev="reset", h=-1, nr=1))
    for hi, h in enumerate(histories):
        close = pos + len(h) + 1
        for e in h:
            e = dict(e)
            e["h"], e["nr"] = hi, close
            lines.append(e)
        lines.append(dict(ev="reset", h=hi, nr=close))
        pos = close
    return "\n".join(json.dumps(x, separators=(",", ":")) for x in lines) + "\n"


def validate_multi(histories, timeout=900):
    """-> (set of accepted indices | None, TLC result)"""
    r = tlc.run_tlc(COMP, "CollectorLinTrace", "TraceMulti.cfg", workers=1, timeout=timeout,
                    files={"trace.ndjson": to_ndjson(histories)})
    if not r.ok:
        return None, r
    return {a["h"] for a in r.tagged.get("ACC", [])}, r


def validate_one(history, timeout=300):
    """-> (True | False | None, info): strict run naming the first unexplained event"""
    r = tlc.run_tlc(COMP, "CollectorLinTrace", "Trace.cfg", workers=1, timeout=timeout,
                    files={"trace.ndjson": to_ndjson([history])})
    rej = r.tagged.get("REJECTED")
    if r.timed_out:
        return None, "timeout"
    if rej:
        return False, rej[0]
    if r.rc == 0:
        return True, None
    return None, r.out[-1500:]


def key_of(info):
    e = (info or {}).get("event", {})
    op = e.get("op")
    if (info or {}).get("panic"):
        return "collector/panic"
    if op in ("read", "iter"):
        return "collector/iterator/inconsistent-with-adds"
    if op == "len":
        return "collector/len/not-linearizable"
    if op == "resolve":
        return "collector/resolve/not-linearizable"
    if op == "final":
        return "collector/final/contents"
    return "collector/history-rejected"


def overlapped(h):
    """was some other operation called between the call and the return of a composite Add (i.e. while it was held)?"""
    inside = set()
    for e in h:
        if e["op"] == "addc" and e["ev"] == "call":
            inside.add(e["id"])
        elif e["op"] == "addc" and e["ev"] == "ret":
            inside.discard(e["id"])
        elif inside and e["ev"] == "call":
            return True
    return False


def judge_histories(rep, label, histories, origin, rerun=None, max_confirm=5, parts=SHARDS):
    """Validate all histories (sharded TLC runs, a verdict per history); every rejected history that is
    reported has been validated again on its own (and, for driver schedules, executed again first)."""
    import concurrent.futures as cf
    if not histories:
        rep.infra_error(label + ": no histories recorded")
        return
    parts = max(1, min(parts, len(histories) // 6 or 1))
    idx = [list(range(len(histories)))[i::parts] for i in range(parts)]
    with cf.ThreadPoolExecutor(max_workers=parts) as ex:
        futs = [ex.submit(validate_multi, [histories[i] for i in ix]) for ix in idx]
        results = [f.result() for f in futs]
    rejected = []
    for ix, (acc, r) in zip(idx, results):
        rep.add_tlc("CollectorLinTrace/TraceMulti.cfg", r, "%s: trace validation of %d histories" % (label, len(ix)))
        if acc is None:
            rep.infra_error("%s: trace validation did not complete: %s" % (label, r.out[-800:]))
            continue
        good = [histories[i] for k, i in enumerate(ix) if k in acc]
        rep.add_cases(good, nontrivial=lambda h: len(h) > 6)
        rejected += [i for k, i in enumerate(ix) if k not in acc]
    rep.cov.setdefault("histories_rejected", {})[label] = len(rejected)
    # examine (re-execute / re-validate alone) a handful of the rejected histories; all are counted above
    for i in rejected[:max_confirm]:
        h = histories[i]
        if rerun is not None:
            h = rerun(origin[i])
            if h is None:
                rep.infra_error("%s: could not re-run schedule %d" % (label, i))
                continue
        ok, info = validate_one(h)
        if ok is False:
            rep.violation(key_of(info), "history of the real Collector not explainable by CollectorLinTrace: first unexplained "
                          "event #%d %s (%d of %d histories rejected)" % (info["at"] - 1, json.dumps(info["event"])[:300],
                                                                          len(rejected), len(histories)),
                          dict(history=h, schedule=origin[i] if origin else None, rejected_at=info))
        elif ok is True:
            rep.infra_error("%s: rejection of history %d did not reproduce in isolation" % (label, i))
        else:
            rep.infra_error("%s: single-history validation did not complete: %s" % (label, str(info)[:400]))


# ---------------------------------------------------------------- the check
def gen_terms(rep, cfg, note, **kw):
    r = tlc.run_tlc(COMP, "ErrAlgebra", cfg, timeout=900, **kw)
    rep.add_tlc("ErrAlgebra/" + cfg, r, note)
    if not r.ok:
        rep.infra_error("term generation %s failed (%s): %s" % (cfg, r.violated, r.out[-1500:]))
        return None
    return r.tagged.get("BEH", [])


def run(rep, tier, seed, replay_file=None):
    quick = tier == "quick"
    rep.assumptions += [
        "TLC is sound; the oracle of spec/errors/ErrAlgebra.tla (Cons = bag of supplied constituents, DeepLeaves) is the meaning of C12",
        "fmt.Errorf(%w) and errors.Join of the Go standard library behave as documented",
        "leaf errors are comparable values with well-behaved Error(); the only typed-nil pointer supplied as an error is a nil *ers.Stack "
        "(as an operand of an aggregator, where the library's own nil-receiver handling promises it is ignored); typed-nil pointers of "
        "foreign types, and nil-like / holey composites below fmt.Errorf(%w) or as the observed result itself (where the standard "
        "library, not ers, walks them), are not supplied",
        "exhaustive claims hold for the term sets of the cfg files only (depth/arity/leaf bounds)",
        "Collector histories: every recorded Add uses fresh errors (composites are made of fresh leaves); concurrent schedules are whatever the Go "
        "scheduler produced (seeded GOMAXPROCS/yields), not an enumeration; hold schedules park an Add only inside the operand's own "
        "Unwind()/Unwrap() []error method (harness code)",
    ]
    binary = harness.build("vh-errors")
    if replay_file:
        return replay_saved(rep, binary, replay_file)

    # 1. model -> code: terms
    behs = []
    import concurrent.futures as cf
    plan = [("Terms_d1.cfg", "all terms of depth 1, arity <= 3, 5 leaves + nil", dict(workers=2)),
            ("Terms_d1x.cfg", "all terms of depth 1, arity <= 3, leaves {s1,t1} + nil + nil *Stack + 5 holey composites; "
                              "each also with the repeated observation schedule", dict(workers=2)),
            ("Terms_d2q.cfg" if quick else "Terms_d2.cfg", "all terms of depth 2, arity <= 2, leaves {s1,t1} + nil", dict(workers=2))]
    plan.append(("Terms_tail.cfg", "tail(x) = errors.Unwrap of a 2..3-element *ers.Stack value (interior node, cached count 0) as the result, "
                                   "below Wrap / ParsePanic / fmt.Errorf(%w), and as first / last / only operand of every n-ary aggregator", dict(workers=2)))
    if not quick:
        plan.append(("Terms_d2x.cfg", "all terms of depth 2, arity <= 2 over {s1, nil, nil *Stack, 2 holey composites}", dict(workers=3)))
    sims = [(12, 1500 if quick else 12000), (24, 300 if quick else 6000)]

    def sim(steps, num):
        return tlc.run_tlc(COMP, "ErrAlgebra", "Sim.cfg", workers=1, simulate=dict(num=num), depth=steps + 2, seed=seed * 100 + steps,
                           timeout=900, files={"Sim.cfg": open(tlc.SPEC + "/errors/Sim.cfg").read().replace("SimSteps = 12", "SimSteps = %d" % steps)})

    with cf.ThreadPoolExecutor(max_workers=6) as ex:
        fgen = [ex.submit(tlc.run_tlc, COMP, "ErrAlgebra", cfg, timeout=900, **kw) for cfg, note, kw in plan]
        fsim = [ex.submit(sim, steps, num) for steps, num in sims]
        for (cfg, note, kw), f in zip(plan, fgen):
            r = f.result()
            rep.add_tlc("ErrAlgebra/" + cfg, r, note)
            if not r.ok:
                rep.infra_error("term generation %s failed (%s): %s" % (cfg, r.violated, r.out[-1500:]))
                return
            behs += r.tagged.get("BEH", [])
        for (steps, num), f in zip(sims, fsim):
            r = f.result()
            rep.add_tlc("ErrAlgebra/Sim.cfg", r, "random postfix constructions of %d steps (nil-like and holey operands included)" % steps)
            if not r.ok:
                rep.infra_error("term simulation failed: " + r.out[-1500:])
                return
            behs += r.tagged.get("BEH", [])
    behs = replay.dedupe(behs)
    rep.cov["terms_repeated_observation"] = sum(1 for b in behs if len(b["sched"]) > 1)
    rep.cov["terms_with_nil_like_or_holey_operand"] = sum(1 for b in behs if any(k in json.dumps(b["term"]) for k in ('"nstack"', '"hun', '"hboth"')))
    rep.cov["exhaustive"] = True
    env = {"GOMAXPROCS": "2"}
    replay.replay(rep, binary, ["replay"], behs, shards=SHARDS, env_extra=env, label="errors",
                  nontrivial=lambda b: b["count"] >= 2)
    mid = [b for b in behs if b["count"] >= 3 and b["term"]["op"] == "join"]
    if mid:
        rep.sample(dict(kind="term with expected observations", obs=mid[len(mid) // 2]))

    # self-tests of the binding: a wrong expectation must be rejected
    base = next(b for b in behs if b["term"]["op"] == "join" and len(b["groups"]) >= 2
                and all(len(g) == 1 for g in b["groups"]) and len({g[0] for g in b["groups"]}) == len(b["groups"]))
    wrong = []
    w = copy.deepcopy(base); w["is"]["u1"] = True; wrong.append(("unrelated sentinel expected", w))
    w = copy.deepcopy(base); w["groups"] = w["groups"][::-1]; wrong.append(("reversed Unwind order expected", w))
    w = copy.deepcopy(base); w["groups"][0] = w["groups"][0] + ["s2"]; wrong.append(("extra constituent expected", w))
    w = copy.deepcopy(base); w["nonnil"] = False; wrong.append(("nil expected", w))
    pb = next((b for b in behs if b["term"]["op"] == "join" and any(p["mode"] == "seq" and len(p["ids"]) >= 2 for p in b["probes"])), None)
    if pb is None:
        rep.self_test("replayer rejects: wrong operand listing expected", False, "no behaviour with an operand probe generated")
    else:
        w = copy.deepcopy(pb)
        for p in w["probes"]:
            if p["mode"] == "seq" and len(p["ids"]) >= 2:
                p["ids"] = p["ids"][::-1] if p["ids"][0] != p["ids"][-1] else p["ids"] + p["ids"][:1]
        wrong.append(("wrong operand listing expected", w))
    rc, outs, err = harness.run(binary, ["replay"], [dict(n=i, beh=b) for i, (_, b) in enumerate(wrong)], timeout=60)
    res = {o["n"]: o for o in outs if "n" in o}
    for i, (name, _) in enumerate(wrong):
        rep.self_test("replayer rejects: " + name, i in res and not res[i].get("ok"), str(res.get(i))[:160])

    # 2. Collector, driver schedules (code -> model)
    rng = random.Random(seed)
    gens = [  # cfg, note, quick sample, thorough sample (None = all), TLC kwargs
        ("CStep_all.cfg", "all driver schedules of length 6 (one iterator handle, plain and nil Adds)", 1000, None, dict(workers=2)),
        ("CStep_comp.cfg", "all schedules of length 5 with composite Adds (errors.Join / holey Unwrap() []error, 0 or 2 leaves) "
                           "and Add(nil *Stack)", 300, 8000, dict(workers=2)),
        ("CStep_hold.cfg", "all schedules of length 5 with one held Add (gated Unwind()/Unwrap() []error) and Add/Add(composite)/"
                           "Len/Resolve issued from other goroutines meanwhile", 400, None, dict(workers=2)),
        ("CStep_holdit.cfg", "all schedules of length 6 with one held Add and iterators", 150, 5000, dict(workers=2)),
        ("CStep_edge.cfg", "one shortest schedule per edge (two handles, all Add kinds, holds)", 400, None, dict(workers=2)),
        ("CStep_sim.cfg", "random schedules of length 16 (three handles, all Add kinds, up to 3 holds)", 500, 4000,
         dict(workers=1, simulate=dict(num=200 if quick else 3000), depth=17, seed=seed)),
    ]
    scripts = []
    with cf.ThreadPoolExecutor(max_workers=6) as ex:
        futs = [ex.submit(tlc.run_tlc, COMP, "CollectorStep", cfg, timeout=600, **kw) for cfg, _, _, _, kw in gens]
        for (cfg, note, nq, nt, kw), f in zip(gens, futs):
            r = f.result()
            rep.add_tlc("CollectorStep/" + cfg, r, note)
            if not r.ok:
                rep.infra_error("schedule generation %s failed: %s" % (cfg, r.out[-1500:]))
                return
            bs = replay.dedupe(r.tagged.get("BEH", []))
            lim = nq if quick else nt
            if lim is not None and len(bs) > lim:
                rng.shuffle(bs)
                bs = bs[:lim]
            rep.cov.setdefault("schedules", {})[cfg] = len(bs)
            scripts += bs
    scripts = replay.dedupe(scripts)

    def run_scripts(ss):
        outs, meta = harness.run_sharded(binary, ["script"], [dict(n=i, beh=s) for i, s in enumerate(ss)], shards=SHARDS)
        byn = {o["n"]: o for o in outs if "n" in o}
        if len(byn) != len(ss):
            rep.infra_error("script runner returned %d of %d histories: %s" % (len(byn), len(ss), meta[0][1][-400:]))
        return [byn.get(i) for i in range(len(ss))]

    results = run_scripts(scripts)
    pairs, npanic = [], 0
    for sc, o in zip(scripts, results):
        if o is None:
            continue
        if "infra" in o:
            rep.infra_error("collector/schedules: %s (schedule %s)" % (o["infra"], json.dumps(sc)[:300]))
        elif "panic" in o:
            npanic += 1
            if npanic <= 3:
                again = run_scripts([sc])[0]          # in isolation
                if again is not None and "panic" in again:
                    rep.violation("collector/panic", "the Collector panicked in a driver schedule: %s" % again["panic"],
                                  dict(schedule=sc, history=again.get("hist"), panic=again["panic"]))
                else:
                    rep.infra_error("collector/schedules: a panic did not reproduce in isolation: %s" % o["panic"])
        elif "hist" in o:
            pairs.append((sc, o["hist"]))
    rep.cov["schedules_panicked"] = npanic

    def rerun(script):
        o = run_scripts([script])[0]
        return o.get("hist") if o and "panic" not in o and "infra" not in o else None

    # 3. Collector, concurrent histories ... and bursts: four goroutines leave a spin barrier together and Add 300 plain errors /
    # 2-leaf composites each
    def record(n, procs, seedmul, extra, what):
        out = []
        with cf.ThreadPoolExecutor(max_workers=procs) as ex:
            futs = [ex.submit(harness.run, binary, ["record", str(n // procs), str(seed * seedmul + i)] + extra, None, 600) for i in range(procs)]
            for f in futs:
                rc, outs, err = f.result()
                if rc != 0:
                    rep.infra_error("%s failed: %s" % (what, err[-800:]))
                for o in outs:
                    if "panic" in o:
                        rep.violation("collector/panic", "%s: %s" % (what, o["panic"]), dict(history=o.get("hist"), panic=o["panic"]))
                    elif "hist" in o:
                        out.append(o["hist"])
        return out

    rec = record(240 if quick else 3000, 6, 1000, [], "recorder")
    bursts = record(24 if quick else 200, 3, 777, ["burst"], "burst recorder")

    with cf.ThreadPoolExecutor(max_workers=3) as ex:
        jobs = [ex.submit(judge_histories, rep, "collector/schedules", [h for _, h in pairs], [s for s, _ in pairs], rerun, 5, 6 if quick else 5),
                ex.submit(judge_histories, rep, "collector/concurrent", rec, [None] * len(rec), None, 5, 2 if quick else 3),
                ex.submit(judge_histories, rep, "collector/burst", bursts, [None] * len(bursts), None, 5, 4)]
        for j in jobs:
            j.result()
    held = [(sc, h) for sc, h in pairs if any(x["op"] == "hold" for x in sc)]
    if held:
        rep.sample(dict(kind="recorded history of a driver schedule with a held Add", schedule=held[len(held) // 2][0],
                        events=held[len(held) // 2][1][:16]))
    elif pairs:
        rep.sample(dict(kind="recorded history of a driver schedule", events=pairs[len(pairs) // 2][1][:14]))
    rep.cov["histories_with_composite_add"] = sum(1 for h in [h for _, h in pairs] + rec + bursts
                                                  if any(e["op"] in ("addc", "burst") for e in h))
    rep.cov["histories_with_overlap_during_hold"] = sum(1 for sc, h in held if overlapped(h))

    # self-test: a corrupted return value must be rejected by the trace spec
    good = None
    # a history WITHOUT concurrency (single-goroutine driver schedule, no held Add): inside a concurrent run a Len()
    # that is off by one may still be linearizable, which would make this self-test fail by chance
    for h in [h for sc, h in pairs if not any(x["op"] == "hold" for x in sc)]:
        if any(e["ev"] == "ret" and e["op"] == "len" for e in h):
            ok, info = validate_one(h)
            if ok:
                good = h
                break
    if good is None:
        rep.self_test("trace spec rejects a corrupted Len()", False, "no accepted history with a Len call found")
    else:
        bad = copy.deepcopy(good)
        for e in bad:
            if e["ev"] == "ret" and e["op"] == "len":
                e["res"] = str(int(e["res"]) + 1)
                break
        ok, info = validate_one(bad)
        rep.self_test("trace spec rejects a corrupted Len()", ok is False, str(info)[:200])
        bad = copy.deepcopy(good)
        bad[-1]["ids"] = bad[-1]["ids"] + ["e999"]
        ok, info = validate_one(bad)
        rep.self_test("trace spec rejects an invented error in the final Unwind", ok is False, str(info)[:200])
    # ... and so must a lost update: a leaf of a composite Add that the final contents do not list
    goodc = next((h for _, h in held if overlapped(h) and len(h[-1]["ids"]) >= 3), None)
    if goodc is None:
        rep.self_test("trace spec rejects a lost update after a held composite Add", False, "no hold history with an overlapping operation found")
    else:
        ok, info = validate_one(goodc)
        bad = copy.deepcopy(goodc)
        bad[-1]["ids"] = bad[-1]["ids"][1:]
        bad[-1]["res"] = str(int(bad[-1]["res"]) - 1)
        ok2, info2 = validate_one(bad)
        rep.self_test("trace spec rejects a lost update after a held composite Add", ok is True and ok2 is False, str(info2)[:200])

    rep.cov["rule"] = (
        "terms = every ErrAlgebra term of the cfg bounds (depth 1: arity<=3 over 5 leaves+nil; depth 2: arity<=2 over {s1,t1}+nil; "
        "tail terms: errors.Unwrap of every 2..3-constituent *ers.Stack value of depth 1 whose dropped constituent the model knows, as result, "
        "below Wrap/ParsePanic/%w and as first/last/only operand of every n-ary aggregator) "
        "plus random postfix constructions (12 and 24 steps), each built with the real ers/erc/errors/fmt functions and compared "
        "with the oracle's vector (nil, ers.Ok, errors.Is per leaf/unrelated sentinel, errors.As per type, Unwind as bag and "
        "most-recent-first per direct argument, identity of the single plain case, Len); non-trivial = >= 2 constituents. "
        "Terms also carry nil-like operands (typed-nil *ers.Stack) and holey composites (own Unwind()/Unwrap() []error slices with nil "
        "holes) in every operand position (depth 1 exhaustively, deeper by simulation; thorough: depth 2), and every term with a "
        "composite operand is replayed twice: result observed once, and operands observed with ers.Unwind before use / result / operands "
        "again / result again (observation is pure). "
        "histories = driver schedules over Add/Add(nil)/Add(nil *Stack)/Add(composite of fresh leaves)/Len/Resolve/Iterator/ReadOne "
        "(all of length 6 resp. 5; quick: seeded samples) + schedules with HOLD steps (one Add parked inside its operand's own "
        "Unwind()/Unwrap() while the other steps are issued from other goroutines and awaited by quiescence) + edge cover + random "
        "longer ones, and concurrent runs of 2-4 goroutines and 4-goroutine bursts (plain and composite Adds), each validated by "
        "CollectorLinTrace (Add of a composite is one atomic step; Len/Resolve linearizable, iterators and final Unwind hold exactly "
        "the added errors)")


def replay_saved(rep, binary, path):
    obj = json.load(open(path))["replay"]
    if "behaviour" in obj:
        replay.replay(rep, binary, ["replay"], [obj["behaviour"]["beh"]], shards=1, label="errors")
    elif obj.get("schedule"):
        rc, outs, err = harness.run(binary, ["script"], [dict(n=0, beh=obj["schedule"])], timeout=120)
        o = next((x for x in outs if x.get("n") == 0), None)
        if o is None or "infra" in o:
            rep.infra_error("re-running the saved schedule failed: %s" % (o or err[-400:]))
        elif "panic" in o:
            rep.violation("collector/panic", "saved schedule still panics: %s" % o["panic"], obj)
        else:
            ok, info = validate_one(o["hist"])
            if ok is False:
                rep.violation(key_of(info), "history of the saved schedule still rejected: %s" % json.dumps(info)[:300], obj)
            elif ok is None:
                rep.infra_error("validation of the re-run schedule did not complete")
            else:
                rep.add_cases([o["hist"]])
    elif "history" in obj:
        ok, info = validate_one(obj["history"])
        if ok is False:
            rep.violation(key_of(info), "saved history still rejected: %s" % json.dumps(info)[:300], obj)
        elif ok is None:
            rep.infra_error("validation of the saved history did not complete")
        else:
            rep.add_cases([obj["history"]])
    rep.cov["rule"] = "re-run of one saved case"
