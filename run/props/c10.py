"""C10 srv.Service lifecycle: each phase once, in order, errors complete."""
import copy, json, os
from vlib import tlc, harness, trace
from props import srv_common as sc

COMP = "srv"
BIN = "vh-srv"

EARLY = {"run": "service/run-invoked-unexpectedly", "shut": "service/shutdown-before-context-end",
         "clean": "service/cleanup-before-run-and-shutdown-returned",
         "eh": "service/handler-before-cleanup-or-with-nil-aggregate"}


def key_fn(hist, info):
    """Name the violated predicate from the first event ServiceTrace cannot explain; the two keys
    that the stepped replay also produces are shared so that one defect has one key."""
    ev = info.get("event", {})
    kind = ev.get("ev")
    if kind == "ret" and ev.get("op") == "start":
        return "service/second-start-nil" if ev.get("res") == "nil" else "service/start-result"
    if kind == "probe":
        return "service/running-true-after-wait"
    if kind == "cb_enter":
        fn = ev.get("fn")
        seq = ev.get("seq", 0)
        before = [e for e in hist if e.get("ev") == "cb_enter" and e.get("fn") == fn and e.get("seq", 0) < seq]
        return "service/%s-invoked-twice" % fn if before else EARLY.get(fn, "service/trace/cb_enter")
    if kind == "ret" and ev.get("op") == "wait":
        if ev.get("res") == "notstarted":
            return "service/wait-notstarted-after-start-returned"
        return "service/trace/wait-returned-early-or-incomplete"
    if kind == "end":
        return "service/trace/phase-not-exactly-once"
    if kind == "stuck":
        return "service/trace/operation-stuck"
    return "service/trace/history-rejected"


def nontrivial(b):
    ops = [s["op"] for s in b["steps"]]
    return "start" in ops and ("ret" in ops or "rel" in ops or "close" in ops or "cancel" in ops)


ASIS = [("MC_asis_late.cfg", "NotRunningAfterWait", "Start's deferred isRunning.Store(true) after the service finished"),
        ("MC_asis_second.cfg", "AtMostOneStartNil", "a Start between finish and Swap returns nil again"),
        ("MC_strict.cfg", "NotRunningAfterWaitStrict",
         "Wait's fast path between isFinished.Store(true) and isRunning.Store(false) (not judged, DESIGN 5.0)")]

NOTE = ("Impl spec (fixed variant): RunAtMostOnce ShutdownOnce CleanupOnce HandlerAtMostOnce AtMostOneStartNil "
        "ExactlyOneStartNil Ordered WaitCovers NotRunningAfterWait Complete WaitJustified")


def tlc_phase(rep, quick, seed):
    """All TLC work that does not depend on the code: model checking of the Impl spec, the as-is
    self-tests and behaviour generation, run side by side within the worker budget (quick: 6)."""
    import concurrent.futures as cf
    mc = [("MC_quick.cfg" if quick else "MC_small.cfg", 3 if quick else 6,
           NOTE + " + liveness Settles; 2 Start callers, 1 Wait caller, parent cancel")]
    if not quick:
        mc += [("MC_matrix.cfg", 6, NOTE + " + Settles; full 4x4x4x3 fault matrix, 1 Start / 1 Close / 1 Wait caller"),
               ("MC_full.cfg", 8, NOTE + "; 3 Start / 1 Close / 2 Wait callers")]

    def impl():
        out = []
        for cfg, w, n in mc:
            out.append((cfg, n, tlc.run_tlc(COMP, "ServiceImpl", cfg, workers=w, timeout=2400, heap="8g")))
        return out

    def asis():
        return [(c, w, d, tlc.run_tlc(COMP, "ServiceImpl", c, workers=1, timeout=300)) for c, w, d in ASIS]

    def edge(cfg):
        return tlc.run_tlc(COMP, "ServiceAbs", cfg, workers=1, timeout=1500)

    def sim():
        return tlc.run_tlc(COMP, "ServiceAbs", "Abs_sim.cfg", workers=1, simulate=dict(num=350 if quick else 6000),
                           depth=20, seed=seed, timeout=1500)

    mcfg = "Abs_matrix_q.cfg" if quick else "Abs_matrix.cfg"
    with cf.ThreadPoolExecutor(max_workers=5) as ex:
        f_impl, f_asis = ex.submit(impl), ex.submit(asis)
        f_races, f_matrix, f_sim = ex.submit(edge, "Abs_races.cfg"), ex.submit(edge, mcfg), ex.submit(sim)
        impl_r, asis_r, races_r, matrix_r, sim_r = (f.result() for f in (f_impl, f_asis, f_races, f_matrix, f_sim))
    ok = True
    for cfg, n, r in impl_r:
        rep.add_tlc("ServiceImpl/" + cfg, r, n)
        if not r.ok:
            rep.infra_error("model check of ServiceImpl/%s failed (%s): spec and code must be re-aligned\n%s" % (
                cfg, r.violated, r.out[-1500:]))
            ok = False
    # the as-is variants must show the races: non-vacuity of the invariants (and the models of the
    # two defects the fixes address); MC_strict shows the window that DESIGN 5.0 does not judge
    for cfg, want, what, r in asis_r:
        rep.add_tlc("ServiceImpl/" + cfg, r, "as-is variant, expected violation of " + want)
        rep.self_test("%s is not vacuous: %s" % (want, what), r.violated == want, str(r.brief()))
    notes = {"Abs_races.cfg": "edge cover with yield-point windows in the VIEW: 2 Start callers x {plain, checked, launched}, run.finished window",
             mcfg: "edge cover of the full fault matrix x ending modes, single caller",
             "Abs_sim.cfg": "random schedules: 3 Start / 2 Close / 2 Wait callers, all yield points, full matrix"}
    for cfg, r in (("Abs_races.cfg", races_r), (mcfg, matrix_r), ("Abs_sim.cfg", sim_r)):
        rep.add_tlc("ServiceAbs/" + cfg, r, notes[cfg])
        if not r.ok:
            rep.infra_error("behaviour generation ServiceAbs/%s failed: %s" % (cfg, r.out[-1500:]))
            ok = False
    if not ok:
        return None
    races = sc.maximal(races_r.tagged.get("BEH", []))
    matrix = sc.maximal(matrix_r.tagged.get("BEH", []))
    behs = (races if not quick else sc.sample(races, 700, seed)) + sc.sample(matrix, 1400 if quick else 20000, seed)
    rep.cov["matrix_behaviours"] = dict(maximal_edge_behaviours=len(matrix), replayed=min(len(matrix), 1400 if quick else 20000))
    behs += sim_r.tagged.get("BEH", [])
    return behs, races


def run(rep, tier, seed, replay_file=None):
    quick = tier == "quick"
    rep.assumptions += [
        "TLC is sound; Go atomics, sync.Once, channels, context and fun.WaitGroup (C14) behave as modelled in spec/srv/ServiceImpl.tla",
        "a goroutine snapshot with no running/runnable goroutine is a fixed point (rt.Quiesce, DESIGN 3.3)",
        "the event log orders cb_exit before the callback's return and `call` before the invocation, so every ordering the "
        "property demands of a conforming execution is visible in the log (ServiceTrace.tla header)",
        "readings of DESIGN 5.0: a Wait is judged only if invoked after a Start returned nil; Running() after Wait is judged at "
        "quiescent points only (no library goroutine parked in a yield point)",
        "exhaustive claims hold for the constants of the cfg files only",
    ]
    build = lambda: harness.build(BIN)
    if replay_file:
        if not sc.rerun_saved(rep, replay_file, build):
            d = json.load(open(replay_file))
            ok, r, rej = sc.validate_batch(COMP, "ServiceTrace", "Trace.cfg", [d["replay"]["history"]])
            if ok and rej:
                rep.violation(key_fn(d["replay"]["history"], rej[0][1]), "history still rejected", d["replay"])
            elif ok is None:
                rep.infra_error("trace validation did not complete: " + str(rej)[:400])
        return
    # 1. design level (TLC on the Impl spec) and 2. behaviours of the abstract spec
    got = tlc_phase(rep, quick, seed)
    if got is None:
        return
    behs, races = got
    binary = build()
    env = {"GOMAXPROCS": str(2 + seed % 5)}
    failures, results = sc.replay_collect(rep, binary, ["replay-svc"], behs, shards=8, env_extra=env,
                                          label="service", nontrivial=nontrivial, timeout=1800)
    rep.sample(dict(kind="replayed behaviour (ServiceAbs)", behaviour=behs[len(behs) // 3]))
    # self-tests of the binding
    first = copy.deepcopy(next(b for b in races if b["steps"] and b["steps"][0]["op"] == "start" and b["steps"][0]["arg"] == "none"))
    first["steps"] = first["steps"][:1]
    first["steps"][0]["exp"]["ops"] = [dict(id=first["steps"][0]["id"], allow=[dict(k="already", must=[], pan="any", nil="any")])]
    rc, outs, err = harness.run(binary, ["replay-svc"], [dict(n=0, beh=first)], timeout=60)
    res = [o for o in outs if o.get("n") == 0 and "begin" not in o]
    rep.self_test("replayer rejects a wrong expectation", bool(res) and not res[0].get("ok"),
                  str({k: v for k, v in (res[0] if res else {}).items() if k != "hist"})[:200])
    hooked = [i for i, b in enumerate(behs) if any(s["op"] in ("rel", "relfin") for s in b["steps"])]
    reached = [i for i in hooked if i in results and results[i].get("ok") and not results[i].get("inconclusive")]
    failed_hooked = [i for i in hooked if i in results and not results[i].get("ok")]
    rep.self_test("yield points are reached (behaviours that release a parked goroutine are conclusive)",
                  bool(hooked) and len(reached) + len(failed_hooked) >= 0.9 * len(hooked), "%d of %d" % (len(reached) + len(failed_hooked), len(hooked)))
    # 3. code -> model: the event logs of the replays and un-stepped concurrent histories
    hists = [results[i]["hist"] for i in sorted(results) if results[i].get("ok") and not results[i].get("inconclusive")
             and results[i].get("hist")]
    hists = sc.sample(hists, 400 if quick else 4000, seed)
    n = 180 if quick else 3000
    shards = 6
    import concurrent.futures as cf
    rec = []
    with cf.ThreadPoolExecutor(max_workers=shards) as ex:
        futs = [ex.submit(harness.run, binary, ["record-svc", str(n // shards), str(seed * 1000 + i)], None, 1200) for i in range(shards)]
        for f in futs:
            rc, outs, err = f.result()
            if rc != 0:
                rep.infra_error("recorder failed: " + err[-800:])
            rec += [o["hist"] for o in outs if "hist" in o]
    sc.validate_histories(rep, COMP, "ServiceTrace", "Trace.cfg", hists + rec, label="service/trace", shards=6, key_fn=key_fn)
    if rec:
        rep.sample(dict(kind="recorded un-stepped history", events=rec[0][:14]))
    if hists:
        bad = copy.deepcopy(max(hists, key=len))
        flipped = False
        exits = [i for i, e in enumerate(bad) if e.get("ev") == "cb_exit" and e.get("fn") in ("run", "shut")]
        enters = [i for i, e in enumerate(bad) if e.get("ev") == "cb_enter" and e.get("fn") in ("clean", "eh")]
        if exits and enters and max(exits) < min(enters):
            # move the first Cleanup/handler entry in front of the last Run/Shutdown exit
            e = bad.pop(min(enters))
            bad.insert(max(exits), e)
            flipped = True
        else:
            for e in bad:
                if e.get("ev") == "ret" and e.get("op") == "start" and e.get("res") != "nil":
                    e["res"] = "nil"
                    flipped = True
                    break
        if flipped:
            ok, r, rej = sc.validate_batch(COMP, "ServiceTrace", "Trace.cfg", [bad])
            rep.self_test("trace spec rejects a corrupted history", bool(ok and rej), str(rej)[:200])
        else:
            rep.self_test("trace spec rejects a corrupted history", False, "no history suitable for corruption")
    rep.cov["rule"] = ("behaviours = driver schedules of ServiceAbs (start with/without yield-point hold, rel, close, wait, cancel, "
                       "callback returns, relfin) over {absent,ok,error,panic}^3 x {absent,ok,panic} x {Run ends on its own, on "
                       "context end} - edge cover of the race windows and of the single-caller fault matrix (quick: seeded sample; "
                       "thorough: all) plus random multi-caller schedules - replayed step by step with observation at quiescence; "
                       "non-trivial = a Start followed by at least one ending / callback-return / release step; every replay's event "
                       "log and un-stepped concurrent histories (record-svc) are validated by ServiceTrace")
