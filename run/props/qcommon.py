"""Shared by C05/C06/C07/C20: schedule execution + linearizability validation for Queue and Deque."""
import copy, json
import concurrent.futures as cf
from vlib import harness, trace, replay


def lin_key(comp):
    def key_fn(hist, info):
        ev = info.get("event", {})
        ops = {e["id"]: e["op"] for e in hist if e.get("ev") == "call"}
        if ev.get("ev") == "quiescent":
            blocked = sorted({ops.get(i, "?") for i in ev.get("blocked", [])})
            return "%s/quiescent/%s" % (comp, "+".join(blocked) if blocked else "len-mismatch")
        if ev.get("ev") == "ret":
            res = str(ev.get("res", ""))
            if res.startswith("panic"):
                return "%s/%s/panic" % (comp, ops.get(ev.get("id"), "?"))
            return "%s/%s/unexplainable-result" % (comp, ops.get(ev.get("id"), "?"))
        return "%s/history-rejected" % comp
    return key_fn


def has_burst(beh):
    return any(s.get("burst") for s in beh)


def with_procs(schedules):
    """Burst schedules are run with GOMAXPROCS=1 (the burst is then atomic with respect to the goroutines it
    wakes: 'both Adds before any waiter runs') and with 4 (the other orders are sampled): returns
    (schedules, procs) with the short burst schedules duplicated and the long ones alternating."""
    out, procs = [], []
    for i, b in enumerate(schedules):
        if not has_burst(b):
            out.append(b); procs.append(0)
        elif len(b) <= 5:
            out += [b, b]; procs += [1, 4]
        else:
            out.append(b); procs.append(1 if i % 2 == 0 else 4)
    return out, procs


def pick(schedules, quick, seed, short=4, rest=1000):
    """quick tier: every schedule of at most `short` steps plus a seeded sample of the longer ones."""
    import random
    if not quick:
        return list(schedules)
    a = [b for b in schedules if len(b) <= short + 1]      # + the `new` record
    b = [x for x in schedules if len(x) > short + 1]
    random.Random(seed).shuffle(b)
    return a + b[:rest]


def run_schedules(rep, binary, sub, schedules, shards=12, env=None, label="sched", which="queue", procs=None):
    """Execute schedules on the real code; returns the recorded histories."""
    items = [dict(n=i, beh=b, procs=(procs[i] if procs else 0)) for i, b in enumerate(schedules)]
    outs, meta = harness.run_sharded(binary, [sub, which], items, shards=shards, timeout=900, env_extra=env)
    hists, inconcl, begun, done = [], 0, set(), set()
    for o in outs:
        if "begin" in o:
            begun.add(o["begin"])
            continue
        done.add(o.get("n"))
        if o.get("inconclusive"):
            inconcl += 1
        elif not o.get("ok"):
            rep.violation(o.get("key", label + "/failed"), o.get("what", ""), dict(schedule=schedules[o["n"]], result=o))
        elif "hist" in o:
            hists.append(o["hist"])
    for i in sorted(begun - done):
        rc, o, err = harness.run(binary, [sub, which], [items[i]], timeout=120, env_extra=env)
        got = [x for x in o if x.get("n") == i and "begin" not in x]
        if got and "hist" in got[0]:
            hists.append(got[0]["hist"])
        elif not got:
            tail = err[-3000:]
            if "github.com/tychoish/fun" in tail and ("panic:" in tail or "fatal error:" in tail):
                rep.violation(label + "/process-crash", "the process died while executing this schedule: " + tail[-1200:],
                              dict(schedule=schedules[i], stderr=tail))
            else:
                rep.infra_error("%s: schedule %d kills the harness: %s" % (label, i, tail[-400:]))
    rep.cov.setdefault("inconclusive", 0)
    rep.cov["inconclusive"] += inconcl
    if inconcl > 0.05 * max(1, len(items)):
        rep.infra_error("%s: %d of %d schedules inconclusive" % (label, inconcl, len(items)))
    missing = len(items) - len(done | begun)
    if missing:
        rep.infra_error("%s: %d schedules were never run" % (label, missing))
    return hists


def record(rep, binary, n, seed, shards=6, sub="queue"):
    hists = []
    with cf.ThreadPoolExecutor(max_workers=shards) as ex:
        futs = [ex.submit(harness.run, binary, ["record", str(max(1, n // shards)), str(seed * 1000 + i), sub], None, 900)
                for i in range(shards)]
        for f in futs:
            rc, outs, err = f.result()
            if rc != 0:
                if "github.com/tychoish/fun" in err and "panic" in err:
                    rep.violation("record/process-crash", "recorder died: " + err[-1200:], dict(stderr=err[-3000:]))
                else:
                    rep.infra_error("recorder failed: " + err[-600:])
            hists += [o["hist"] for o in outs if "hist" in o]
    return hists


def corrupt_selftest(rep, comp, module, cfg, hists, name):
    """Binding self-test: swap the results of two different returns / alter one -> TLC must reject."""
    cands = [h for h in hists if sum(1 for e in h if e.get("ev") == "ret" and e.get("res") not in ("ok", "ctx")) >= 1]
    if not cands:
        rep.self_test(name, False, "no history with a value-returning operation")
        return
    bad = copy.deepcopy(max(cands, key=len))
    for e in bad:
        if e.get("ev") == "ret" and e.get("res") not in ("ok", "ctx"):
            e["res"] = "v999"
            break
    acc, r, info = trace.validate(comp, module, cfg, [bad])
    rep.self_test(name, acc is False, str(info)[:200])
