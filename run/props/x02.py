"""X02 (growth of the specification, DESIGN.md section 9 item 9): package adt - Atomic, Synchronized, Once / Mnemonize,
Map, Pool and the buffer-pool helpers - behave as their documentation says.

No listed property governs these types; the documentation is the specification (spec/adt/AdtSeq.tla quotes it action by
action), "as observed" choices are named AO-n there and are not judged.  Binding as everywhere in this framework:
TLC-generated behaviours are replayed on the real types with comparison after every call (vh-adt replay); concurrent
histories recorded from the real types are validated by TLC (AdtLinTrace, linearizability + the Range / Once contracts);
OnceImpl / PoolImpl are exhaustive interleaving models whose as-is configs double as non-vacuity self-tests.

A documented-vs-actual divergence has a switch in the specs (constant AsIs).  The switch is turned on exactly when one
of the divergence's keys is listed as `known` for X02 in known_findings.jsonl: the behaviours are then generated the way
the code behaves (so that everything around the finding is still judged), and a small documented-mode sample re-confirms
the finding (it prints KNOWN-FINDING).  With no known entry the documented behaviour is what the code is compared with."""
import concurrent.futures as cf
import copy
import json
import os
import random
import time

from vlib import harness, replay as vreplay, findings
from props import x02_lib as L

LEVEL = "model_checking"

# development aid: X02_PAR=n caps the number of TLC workers + harness processes this check keeps busy at a time
# (the machine is shared while the framework is being built); the registered tiers use up to 12
PAR = int(os.environ.get("X02_PAR", "12") or 12)


def _w(n):
    return max(1, min(n, PAR // 2))

IMPL_EXPECTED = [  # (module, cfg, invariant that must be violated, what it shows)
    ("OnceImpl", "OnceImpl_asis.cfg", "DoRunsOwn", "as is: Do(f) overlapping Set(g) executes g"),
    ("PoolImpl", "PoolImpl_asis_mapget.cfg", "NoLiveInPool", "as is: Map.Get pools the default it stored"),
    ("PoolImpl", "PoolImpl_asis_make.cfg", "NoLiveInPool", "as is: Make on a value type re-pools a value in use"),
    ("PoolImpl", "PoolImpl_obs_late.cfg", "NoChangeAfterLocked", "observation (allowed by the documentation): a racing SetCleanupHook lands after FinalizeSetup"),
    ("AdtSeq", "Seq_asis_mapget.cfg", "NoLiveInPool", "AdtSeq with AsIs={mapget-put}: a live map value is in the pool"),
    ("AdtSeq", "Seq_asis_makevalue.cfg", "NoLiveInPool", "AdtSeq with AsIs={make-value}: a held value is in the pool"),
]


def _nontrivial(b):
    ops = {s.get("op") for s in b[1:]}
    return len(b) >= 3 and len(ops) >= 2


def _plan(quick, seed):
    """(name, comp, mode, cfg kwargs, TLC kwargs, sample size or None)"""
    P = []
    sim_depth = dict(atomic=30, sync=20, once=14, map=30, pool=30, vpool=30)
    if quick:
        P += [("edge-" + c, c, "edge", dict(depth=10, bound=True, maxcons=1 if c == "pool" else 2), dict(workers=1), 4000) for c in ("atomic", "sync", "once", "pool", "vpool")]
        P += [("edge-map", "map", "edge", dict(depth=10, bound=True, vals=(1,), maxcons=1), dict(workers=2), 3000)]
        all_depth = dict(atomic=3, sync=2, once=3, map=2, pool=4, vpool=5)
        P += [("all-" + c, c, "all", dict(depth=d, maxcons=3), dict(workers=2), None) for c, d in all_depth.items()]
        P += [("sim-" + c, c, "sim", dict(depth=sim_depth[c], keys=("a", "b", "c"), maxcons=3),
               dict(workers=1, simulate=dict(num=30), depth=sim_depth[c] + 6, seed=seed * 100 + i), None)
              for i, c in enumerate(sim_depth)]
    else:
        P += [("edge-" + c, c, "edge", dict(depth=12, bound=True), dict(workers=2), 30000) for c in ("atomic", "sync", "once", "pool", "vpool")]
        P += [("edge-map", "map", "edge", dict(depth=10, bound=True), dict(workers=3), 30000),
              ("edge-map-1key", "map", "edge", dict(depth=10, bound=True, keys=("a",), maxcons=3), dict(workers=2), 10000)]
        all_depth = dict(atomic=3, sync=3, once=4, map=3, pool=5, vpool=7)
        P += [("all-" + c, c, "all", dict(depth=d, maxcons=3), dict(workers=3), None) for c, d in all_depth.items()]
        for j in range(2):
            P += [("sim%d-%s" % (j, c), c, "sim", dict(depth=sim_depth[c], keys=("a", "b", "c"), maxcons=3),
                   dict(workers=1, simulate=dict(num=250), depth=sim_depth[c] + 6, seed=seed * 1000 + 10 * j + i), None)
                  for i, c in enumerate(sim_depth)]
    return P


def _gen_and_replay(rep, binary, job, asis, prefer, rng_seed, label_suffix=""):
    name, comp, mode, ckw, tkw, sample = job
    comps_asis = {sw for sw in asis if comp in L.SWITCHES[sw][0]}
    cfgname = "gen_%s.cfg" % name.replace("-", "_")
    text = L.seq_cfg(comp, mode, asis=comps_asis, prefer=prefer, **ckw)
    tkw = dict(tkw, workers=_w(tkw.get("workers", 1)))
    r = L.tlc.run_tlc(L.COMP, "AdtSeq", cfgname, timeout=1500, heap="5g", files={cfgname: text}, **tkw)
    note = {"all": "every sequence of %d calls" % ckw["depth"], "edge": "one shortest behaviour per edge of the abstract state graph",
            "sim": "random walks of %d calls" % ckw["depth"]}[mode] + " on " + comp + (" AsIs=%s" % sorted(comps_asis) if comps_asis else "")
    rep.add_tlc("AdtSeq/" + name + label_suffix, r, note)
    if not r.ok:
        rep.infra_error("behaviour generation %s failed (%s): %s" % (name, r.violated, r.out[-1200:]))
        return None
    behs = vreplay.dedupe(r.tagged.get("BEH", []))
    r.tagged.clear()
    total = len(behs)
    if sample and total > sample:
        random.Random(rng_seed).shuffle(behs)
        behs = behs[:sample]
        rep.cov.setdefault("sampled", {})[name + label_suffix] = "%d of %d" % (sample, total)
    counts = L.replay(rep, binary, behs, shards=2, label="adt/" + comp, nontrivial=_nontrivial)
    return dict(name=name, generated=total, replayed=len(behs), failures=counts, example=behs[len(behs) // 3] if behs else None)


def run(rep, tier, seed, replay_file=None):
    quick = tier == "quick"
    rep.assumptions += [
        "TLC is sound; the documentation of package adt (doc comments) is the specification: AdtSeq.tla quotes the sentence each action encodes",
        "value domain: T = int with 0 as the zero value; map keys a, b(, c); map and pool values are objects with identity "
        "(numbered cells / numbered backing arrays), so that sharing and the cleanup hook are observable",
        "sync.Pool is modelled by its contract (Get returns any value Put before, or a new one; anything may vanish): the expected "
        "result of a pool take is a SET; a behaviour whose real outcome is allowed but is not the branch TLC continued with is judged "
        "up to that step only (counted as replayed_as_prefix_only)",
        "garbage collection happens only in explicit gc steps (automatic collection is off in the replayer); a gc step is two "
        "runtime.GC cycles fenced by sentinel finalizers, which relies on finalizers running on one goroutine in batches",
        "exhaustive claims hold for the constants of the generated configs only (V = {1,2}, two keys, at most 3 constructed objects, "
        "the depths named in the TLC run notes); the interleaving models for 2-3 goroutines and the budgets of their cfg files",
        "not judged (documented as unspecified or 'as observed'): Once.Defined() under concurrency, what Map.Get does with the default "
        "it fetched for a present key, Pool.Put of a nil pointer, order of Range, interface-typed T / nil interface values",
    ]
    binary = harness.build("vh-adt")
    known = dict(findings.known_keys(rep.prop))
    # development aid (registered commands never set it): behave as if these keys were listed as known when choosing the
    # AsIs switches - rep.finish() still reports them as violations, so this cannot hide anything
    for k in filter(None, os.environ.get("X02_ASSUME_KNOWN", "").split(",")):
        known.setdefault(k, {})
    asis = {sw for sw, (_, keys) in L.SWITCHES.items() if any(k in known for k in keys)}
    rep.cov["asis_switches_from_known_findings"] = sorted(asis)
    phases = rep.cov.setdefault("phase_s", {})

    if replay_file:
        obj = json.load(open(replay_file))["replay"]
        if "behaviour" in obj:
            L.replay(rep, binary, [obj["behaviour"]["beh"]], shards=1)
        else:
            L.validate_all(rep, [obj["history"]], asis=set(obj.get("asis", [])), label="replay", shards=1)
        return

    # as-observed choices of the code that only steer which allowed branch a generated behaviour continues with
    rc, outs, err = harness.run(binary, ["probe"], None, timeout=60, env_extra={"GOMAXPROCS": "1"})
    probe = next((o for o in outs if "getpresent" in o), None)
    if rc != 0 or not probe:
        rep.infra_error("vh-adt probe failed: " + err[-400:])
        return
    prefer = {"pool", probe["getpresent"]} | ({"nilpooled"} if probe.get("nilput") == "pooled" else set())
    rep.cov["observed_choices"] = probe

    # ---- 1. interleaving models (design level) and the expected-violation self-tests
    t0 = time.time()
    jobs = [("OnceImpl", "OnceImpl", "OnceImpl_small.cfg" if quick else "OnceImpl_MC.cfg", dict(workers=2 if quick else 4, timeout=1500)),
            ("PoolImpl", "PoolImpl", "PoolImpl_small.cfg" if quick else "PoolImpl_MC.cfg", dict(workers=2 if quick else 4, timeout=1500, heap="6g")),
            ("PoolImpl-config", "PoolImpl", "PoolImpl_cfg.cfg", dict(workers=1, timeout=900)),
            ("OnceImpl-asis-rest", "OnceImpl", "OnceImpl_asis_small.cfg" if quick else "OnceImpl_asis_rest.cfg", dict(workers=2, timeout=1500))]
    nmc = len(jobs)
    if not quick:
        # coverage sanity on the small configs: no action of the interleaving models is never taken
        jobs += [("cov-" + c, m, c, dict(workers=1, timeout=900, coverage=True))
                 for m, c in (("OnceImpl", "OnceImpl_small.cfg"), ("PoolImpl", "PoolImpl_small.cfg"), ("PoolImpl", "PoolImpl_cfg.cfg"))]
    jobs += [("%s/%s" % (m, c), m, c, dict(workers=1, timeout=600)) for m, c, _, _ in IMPL_EXPECTED]
    jobs = [(a, b, c, dict(kw, workers=_w(kw["workers"]))) for a, b, c, kw in jobs]
    res = L.run_tlc_parallel(jobs, max_parallel=_w(12 if quick else 8))
    for name, module, cfg, _ in jobs[:nmc]:
        r = res[name]
        rep.add_tlc("%s/%s" % (module, cfg), r, "exhaustive interleavings; invariants and temporal properties of the cfg")
        if not r.ok:
            rep.infra_error("model checking %s/%s failed (%s): %s" % (module, cfg, r.violated, r.out[-1200:]))
    for m, c, inv, what in IMPL_EXPECTED:
        r = res["%s/%s" % (m, c)]
        rep.add_tlc("%s/%s" % (m, c), r, "expected violation of %s: %s" % (inv, what))
        rep.self_test("%s/%s violates %s (non-vacuity)" % (m, c, inv), r.violated == inv, str(r.brief()))
    if not quick:
        for module in ("OnceImpl", "PoolImpl"):
            taken, seen = set(), set()
            for name, m, c, _ in jobs:
                if name.startswith("cov-") and m == module:
                    rep.add_tlc("%s/%s -coverage" % (m, c), res[name], "action coverage")
                    seen |= set(res[name].coverage)
                    taken |= {a for a, (_, n) in res[name].coverage.items() if n > 0}
            rep.self_test("every action of %s is taken in its small configs" % module, bool(seen) and seen == taken, str(sorted(seen - taken)))
    phases["models"] = round(time.time() - t0, 1)

    # ---- 2./3. behaviours of the sequential spec, replayed on the real types
    t0 = time.time()
    plan = _plan(quick, seed)
    summaries = []
    with cf.ThreadPoolExecutor(max_workers=_w(10 if quick else 8)) as ex:
        futs = [ex.submit(_gen_and_replay, rep, binary, job, asis, prefer, seed) for job in plan]
        for f in futs:
            s = f.result()
            if s:
                summaries.append(s)
    rep.cov["behaviour_sets"] = [{k: v for k, v in s.items() if k != "example"} for s in summaries]
    rep.cov["exhaustive"] = all(s["generated"] == s["replayed"] for s in summaries if s["name"].startswith("all-"))
    for s in summaries:
        if s["name"] in ("all-map", "all-pool") and s["example"]:
            rep.sample(dict(kind="replayed behaviour " + s["name"], steps=[{k: v for k, v in st.items() if k not in ("st", "allow", "evs")} for st in s["example"]]))
    # a divergence that is modelled as-is because it is a known finding: re-confirm it on a documented-mode sample
    if asis:
        for job in [("edge-" + c, c, "edge", dict(depth=8, bound=True, maxcons=2), dict(workers=2), 1500)
                    for c in sorted({c for sw in asis for c in L.SWITCHES[sw][0]})]:
            _gen_and_replay(rep, binary, job, set(), prefer, seed, label_suffix="-documented")
    phases["behaviours"] = round(time.time() - t0, 1)

    # self-test of the replay binding: a behaviour with a wrong expectation must be rejected, the original accepted
    good = [dict(op="new", comp="sync", v=1, keys=["a"], vals=[1, 2], st=dict(get=1, str="1")),
            dict(op="swap", v=2, ret="1", st=dict(get=2, str="2")),
            dict(op="cas", o=2, v=1, ret="true", st=dict(get=1, str="1"))]
    bad = copy.deepcopy(good)
    bad[2]["ret"] = "false"
    rc, o1, _ = harness.run(binary, ["replay"], [dict(n=0, beh=good)], timeout=60)
    rc, o2, _ = harness.run(binary, ["replay"], [dict(n=0, beh=bad)], timeout=60)
    r1 = [x for x in o1 if "ok" in x]
    r2 = [x for x in o2 if "ok" in x]
    rep.self_test("replayer accepts a correct behaviour and rejects it with a wrong expected return value",
                  bool(r1) and r1[0]["ok"] and bool(r2) and not r2[0]["ok"], str(r2)[:200])

    # ---- 4. concurrent histories recorded from the real types, validated by TLC
    t0 = time.time()
    n = 60 if quick else 700
    shards = _w(8 if quick else 12)
    kinds = ["map", "atomic", "sync", "once", "acc", "casduel", "onceduel", "rangeduel", "mapduel"]
    hists = {k: [] for k in kinds}
    trials = {}
    with cf.ThreadPoolExecutor(max_workers=shards) as ex:
        futs = [ex.submit(harness.run, binary, ["record", str(max(1, n // shards)), str(seed * 1000 + i)] + kinds, None, 1200) for i in range(shards)]
        for f in futs:
            rc, outs, err = f.result()
            if rc != 0:
                rep.infra_error("recorder failed: " + err[-800:])
            for o in outs:
                if "hist" in o:
                    hists[o["kind"]].append(o["hist"])
                elif "trials" in o:
                    trials[o["kind"]] = trials.get(o["kind"], 0) + o["trials"]
    for k in kinds:   # the same history may come from two recorder processes
        hists[k] = vreplay.dedupe(hists[k])
    rep.cov["recorded_trials"] = trials
    rep.cov["distinct_histories"] = {k: len(v) for k, v in hists.items()}
    lin_asis = asis & set(L.LIN_SWITCH_KEY)
    with cf.ThreadPoolExecutor(max_workers=_w(6)) as ex:
        futs = [ex.submit(L.validate_all, rep, hists[k], asis=lin_asis, label=k, shards=2 if quick else 3) for k in kinds]
        counts = [f.result() for f in futs]
    rep.cov["rejected_histories"] = {k: c for k, c in zip(kinds, counts) if c}
    if lin_asis:
        for k in ("casduel", "onceduel", "atomic"):
            L.validate_all(rep, hists[k], asis=set(), label=k + "-documented", shards=2)
    if hists["map"]:
        rep.sample(dict(kind="recorded concurrent history (map)", events=hists["map"][0][:12]))

    # self-test of the trace binding, on histories without concurrency
    def seqhist(kind, calls):
        evs = [dict(ev="config", kind=kind, v=0, set=0, f="none")]
        for i, (op, k, v, o, res) in enumerate(calls, 1):
            evs += [dict(ev="call", id=i, op=op, k=k, v=v, o=o, f=""), dict(ev="ret", id=i, res=res)]
        return evs
    okh = seqhist("map", [("store", "a", 5, 0, "-"), ("ensurestore", "a", 6, 0, "false"), ("load", "a", 0, 0, "5:true"), ("len", "", 0, 0, "1")])
    badh = seqhist("map", [("store", "a", 5, 0, "-"), ("ensurestore", "a", 6, 0, "true"), ("load", "a", 0, 0, "5:true"), ("len", "", 0, 0, "1")])
    acc, r, info = L.validate([okh], lin_asis)
    rep.self_test("trace spec accepts a correct sequential history", acc is True, str(info)[:200])
    acc, r, info = L.validate([badh], lin_asis)
    rep.self_test("trace spec rejects EnsureStore=true on a present key", acc is False, str(info)[:200])
    twice = seqhist("map", [("store", "a", 5, 0, "-"), ("range", "", 0, 0, "-")])
    twice[4:4] = [dict(ev="visit", id=2, k="a", v=5), dict(ev="visit", id=2, k="a", v=5)]
    acc, r, info = L.validate([twice], lin_asis)
    rep.self_test("trace spec rejects a Range that visits a key twice", acc is False, str(info)[:200])
    phases["concurrent"] = round(time.time() - t0, 1)

    keys = {}
    for key, _, _ in rep.violations:
        keys[key] = keys.get(key, 0) + 1
    rep.cov["violation_keys_reported"] = keys

    rep.cov["rule"] = (
        "behaviours = call sequences of AdtSeq per component (atomic, sync + the AccessorsWithLock pairs, once+Mnemonize, map with its Default pool, pool, "
        "value-typed pools incl. MakeBytesBufferPool / MakeBufferPool): every sequence to the depth in the run notes, one shortest "
        "behaviour per edge of the abstract state graph (sampled where noted), random walks; each replayed on the real types with "
        "comparison of the return value, of the constructor / cleanup-hook calls, and of the projected state (Get/Load, Len, "
        "Load+Check of every key with object identity and clean count, Called/Defined/cached value) after every call; "
        "non-trivial = at least 2 calls of at least 2 different operations; histories = concurrent runs of 2-4 goroutines on a real "
        "Map / Atomic / Synchronized / accessor pair / Once (plus CompareAndSwap / Swap, EnsureStore, Range-vs-writers and Do-vs-Set duels, "
        "deduplicated by event sequence) validated by "
        "AdtLinTrace; models = OnceImpl, PoolImpl exhaustive")
