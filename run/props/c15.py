"""C15 function wrappers keep their execution-count, exclusion and waiting contracts
(Once, Limit(n), Lock/WithLock, Retry(n), Join/PreHook/PostHook, Signal/Launch/Background/StartGroup)."""
import concurrent.futures as cf
import copy, json, os, random
from vlib import tlc, harness, replay, trace

COMP = "wrappers"

# (module, cfg, workers, what is checked)
IMPL_QUICK = [
    ("Once", "Once_MC.cfg", 2, "sync.Once + cached result, 3 callers: AtMostOnce ExactlyOnce NoReturnBeforeDone AllSeeResult NoStuck + Settles"),
    ("Limit", "Limit_MC.cfg", 2, "limitExec n=2, 3 callers / 4 calls: AtMostN ExactlyMin Progress MutualExclusion LaterCallsSeeLast NoStuck + Settles"),
    ("Limit", "OpLimit_MC.cfg", 2, "Operation.Limit CAS loop n=2: AtMostN ExactlyMin Progress (count only)"),
    ("Lock", "Lock_MC.cfg", 2, "Lock/WithLock, 3 callers, 2 functions on one mutex: MutualExclusion HolderExecutes NoStuck + Settles"),
    ("Retry", "Retry_MC.cfg", 2, "Worker/Producer.Retry over all 6^4 scripts, n<=3: AtMostN StopsAtFirst ReportOnlyIfNoSuccess SuccessWins FailureReported CtxReported"),
    ("Hooks", "Hooks_MC.cfg", 1, "Join/PreHook/PostHook of all types: OrderOK NoRunAfterError NoRunAfterExpiry JoinRunsAll PreHookOrder PostHookOrder"),
    ("Launch", "Launch_MC.cfg", 2, "Signal/Launch/StartGroup/Producer.Launch (Operation.Launch as repaired): WaiterImpliesDone NoStuck BlockedWhileRunning + Settles"),
]
IMPL_THOROUGH = [
    ("Limit", "Limit_MC1.cfg", 2, "limitExec n=1"),
    ("Limit", "Limit_MC3.cfg", 4, "limitExec n=3, 5 calls"),
    ("Limit", "OpLimit_MC3.cfg", 2, "Operation.Limit n=3, 5 calls"),
    ("Once", "Once_MC4.cfg", 4, "4 callers, 5 calls"),
    ("Lock", "Lock_MC4.cfg", 4, "4 callers, 5 calls"),
]
# mutated / as-is models that must violate the named invariant: the invariants are not vacuous
SELF_QUICK = [
    ("Launch", "Launch_asis.cfg", "WaiterImpliesDone", "Operation.Launch as pinned (waiter never waits) violates WaiterImpliesDone in the model"),
    ("Once", "Once_bug.cfg", "NoReturnBeforeDone", "flag stored before the function finished"),
    ("Limit", "Limit_bug.cfg", "LaterCallsSeeLast", "counter published before the output (stale fast path)"),
    ("Lock", "Lock_bug.cfg", "MutualExclusion", "lock released before the call"),
]
SELF_THOROUGH = [
    ("Retry", "Retry_bug.cfg", "StopsAtFirst", "Retry continues after a terminating error"),
    ("Hooks", "Hooks_bug.cfg", "NoRunAfterExpiry", "Join ignores context expiry"),
    ("Limit", "OpLimit_overlap.cfg", "Overlap1", "Operation.Limit executions may overlap (why only its count is judged)"),
]


class OncePerKey:
    """Forwards everything to the report but keeps one violation per key (the shortest behaviour), so a
    defect that breaks hundreds of generated schedules is reported once, with a count."""

    def __init__(self, rep):
        object.__setattr__(self, "_rep", rep)
        object.__setattr__(self, "_seen", {})

    def __getattr__(self, name):
        return getattr(self._rep, name)

    def __setattr__(self, name, value):
        setattr(self._rep, name, value)

    def violation(self, key, what, replay_obj):
        # prefer a driver schedule (re-runs the code when replayed) over a recorded history, then the smaller one
        size = len(json.dumps(replay_obj, default=str)) + (0 if "behaviour" in replay_obj else 10 ** 9)
        cur = self._seen.get(key)
        if cur is None:
            self._seen[key] = [1, size, what, replay_obj]
        else:
            cur[0] += 1
            if size < cur[1]:
                cur[1:] = [size, what, replay_obj]

    def flush(self):
        for key, (n, _, what, obj) in sorted(self._seen.items()):
            self._rep.violation(key, "%s  [%d failing case(s) with this key; minimal one saved]" % (what, n), obj)
        self._seen.clear()


def _tlc_many(jobs, par=6):
    """jobs: list of (name, kwargs for run_tlc).  At most `par` JVMs at a time (<= 6 workers in total)."""
    out = {}
    with cf.ThreadPoolExecutor(max_workers=par) as ex:
        futs = {name: ex.submit(tlc.run_tlc, COMP, *args, **kw) for name, args, kw in jobs}
        for name, f in futs.items():
            out[name] = f.result()
    return out


def _stratified(behs, k, rng):
    """about k behaviours, spread evenly over the constructor kinds, longer schedules preferred"""
    by = {}
    for b in behs:
        by.setdefault((b["sc"]["fam"], b["sc"]["kind"]), []).append(b)
    per = max(1, k // max(1, len(by)))
    out = []
    for key in sorted(by):
        lst = by[key]
        rng.shuffle(lst)
        lst.sort(key=lambda b: -len(b["steps"]))
        long_ones, rest = lst[:per // 2], lst[per // 2:]
        rng.shuffle(rest)
        out += long_ones + rest[:per - len(long_ones)]
    return out


def _nontrivial(b):
    sc = b["sc"]
    if sc["fam"] in ("retry", "hooks", "pjoin"):
        return True
    ops = [s["op"] for s in b["steps"]]
    return "release" in ops and len(ops) >= 3


def trace_key(hist, info):
    """name the contract clause the rejected event breaks (replays the monitor's counters)"""
    kind, fam = hist[0].get("kind", "?"), hist[0].get("fam", "?")
    ev = info.get("event", {})
    at = info.get("at", 1) - 2      # index in hist (the concatenation has one leading reset line)
    inflight = entered = 0
    for e in hist[:max(0, at)]:
        if e["ev"] == "enter":
            inflight += 1
            entered += 1
        elif e["ev"] == "exit":
            inflight -= 1
    pred = "history-rejected"
    if ev.get("ev") == "enter":
        pred = "overlapping-executions" if (inflight > 0 and fam in ("once", "limit", "lock")) else "executed-too-often"
    elif ev.get("ev") == "ret":
        pred = {"launch": "waiter-returned-before-background-done", "once": "returned-before-execution-finished"}.get(fam, "wrong-result")
        if fam == "once" and any(e["ev"] == "exit" for e in hist[:max(0, at)]):
            pred = "wrong-result"
    elif ev.get("ev") == "end":
        pred = "executed-too-seldom" if fam in ("limit", "oplimit") and entered < min(hist[0].get("n", 0), ev.get("calls", 0)) else "executed-too-often"
    return "wrappers/%s/%s" % (kind, pred)


def _validate_histories(rep, hists, shards=6):
    """Shard the histories over single-worker TLC monitors.  WrappersTrace reports every offending history of a
    shard (it skips to the next reset after a rejection); the shortest offender per key is validated again
    alone before it is reported."""
    if not hists:
        rep.infra_error("wrappers/trace: no histories recorded")
        return
    shards = max(1, min(shards, len(hists)))
    parts = [hists[i::shards] for i in range(shards)]

    def one(part):
        return tlc.run_tlc(COMP, "WrappersTrace", "Trace.cfg", workers=1, timeout=900, files={"trace.ndjson": trace.to_ndjson(part)})
    with cf.ThreadPoolExecutor(max_workers=shards) as ex:
        results = list(ex.map(one, parts))
    offenders = {}     # key -> [count, history]
    for part, r in zip(parts, results):
        rep.add_tlc("WrappersTrace/Trace.cfg", r, "trace validation of %d histories" % len(part))
        if r.timed_out or r.rc != 0:
            rep.infra_error("wrappers/trace: trace validation did not complete: " + r.out[-600:])
            continue
        badidx = set()
        for info in r.tagged.get("REJECTED", []):
            hi, _ = trace.locate(part, info["at"])
            if hi in badidx:
                continue
            badidx.add(hi)
            at_local = info["at"] - sum(1 + len(h) for h in part[:hi])
            k = trace_key(part[hi], dict(info, at=at_local))
            cur = offenders.setdefault(k, [0, part[hi]])
            cur[0] += 1
            if len(part[hi]) < len(cur[1]):
                cur[1] = part[hi]
        rep.add_cases([h for i, h in enumerate(part) if i not in badidx], nontrivial=lambda h: len(h) > 6)
    for k, (n, h) in sorted(offenders.items()):
        acc, r2, info2 = trace.validate(COMP, "WrappersTrace", "Trace.cfg", [h])
        if acc is False:
            rep.violation(trace_key(h, info2), "history not explainable by WrappersTrace: first unexplained event #%d %s  [%d recorded "
                          "histories rejected with this key]" % (info2["at"] - 1, json.dumps(info2["event"])[:200], n),
                          dict(history=h, rejected_at=info2))
        else:
            rep.infra_error("wrappers/trace: rejection (%s) did not reproduce on the single history" % k)


def _record(rep, binary, n, seed, shards=6):
    hists = []
    with cf.ThreadPoolExecutor(max_workers=shards) as ex:
        futs = [ex.submit(harness.run, binary, ["record", str(max(1, n // shards)), str(seed * 1000 + i)], None, 900) for i in range(shards)]
        for f in futs:
            rc, outs, err = f.result()
            if rc != 0:
                rep.infra_error("recorder failed (rc %s): %s" % (rc, err[-800:]))
            hists += [o["hist"] for o in outs if "hist" in o]
    return hists


def _replay_saved(rep, path):
    """python3 run/check.py C15 --replay evidence/replay/C15-k.json"""
    obj = json.load(open(path))
    r = obj.get("replay", {})
    binary = harness.build("vh-wrappers")
    if "behaviour" in r:
        rc, outs, err = harness.run(binary, ["replay"], [r["behaviour"]], timeout=120)
        res = [o for o in outs if "begin" not in o]
        if res and not res[0].get("ok"):
            rep.violation(res[0].get("key", obj.get("key")), res[0].get("what", ""), r)
        elif not res:
            rep.infra_error("replay produced no result: " + err[-500:])
        else:
            rep.add_cases([r["behaviour"]])
    elif "history" in r:
        acc, res, info = trace.validate(COMP, "WrappersTrace", "Trace.cfg", [r["history"]])
        if acc is False:
            rep.violation(trace_key(r["history"], info), "history not explainable by WrappersTrace: " + json.dumps(info)[:300], r)
        elif acc is None:
            rep.infra_error("trace validation did not complete: " + str(info)[:300])
        else:
            rep.add_cases([r["history"]])
    else:
        rep.infra_error("unrecognised replay file " + path)


def run(rep, tier, seed, replay_file=None):
    if replay_file:
        return _replay_saved(rep, replay_file)
    quick = tier == "quick"
    rng = random.Random(seed)
    rep.assumptions += [
        "TLC is sound; sync.Once / sync.Mutex / atomic CAS / unbuffered channels / fun.WaitGroup behave as modelled in spec/wrappers/*.tla",
        "a goroutine snapshot with no running/runnable goroutine is a fixed point (rt.Quiesce, DESIGN 3.3)",
        "exhaustive claims hold for the constants of the cfg files only (3-4 callers, n <= 3, scripts of length <= 4 over ok/err/skip/eof/ctx/panic)",
        "unspecified corners are not judged: results seen after a panicking execution, whether a panicking execution counts towards Limit's n "
        "(only n <= executions-that-returned is required then), what Lock callers return, Retry results after EOF/skip-only scripts",
        "Operation.Background/Go return no waiter, so C15's waiter clause does not apply to them; a panic in a background goroutine is documented as fatal and is not scripted",
    ]
    # ---------------------------------------------------------------- 1. design level + behaviour generation (parallel JVMs)
    impl = IMPL_QUICK + ([] if quick else IMPL_THOROUGH)
    selft = SELF_QUICK + ([] if quick else SELF_THOROUGH)
    jobs = [("impl:%s/%s" % (m, c), (m, c), dict(workers=1 if quick else w, timeout=1500)) for m, c, w, _ in impl]
    jobs += [("self:%s/%s" % (m, c), (m, c), dict(workers=1, timeout=300)) for m, c, _, _ in selft]
    jobs += [("gen:retry", ("WrappersStep", "Step_retry.cfg"), dict(workers=1, timeout=900)),
             ("gen:hooks", ("WrappersStep", "Step_hooks.cfg"), dict(workers=1, timeout=900)),
             ("gen:edge", ("WrappersStep", "Step_edge.cfg"), dict(workers=1, timeout=1500)),
             ("gen:sim", ("WrappersStep", "Step_sim_quick.cfg" if quick else "Step_sim.cfg"),
              dict(workers=1, simulate=dict(num=400 if quick else 6000), depth=12, seed=seed, timeout=1500))]
    # quick: six single-worker JVMs; thorough: three JVMs with up to 4 workers
    import time
    t0 = time.time()
    res = _tlc_many(jobs, par=6 if quick else 3)
    rep.cov["stage_s"] = {"tlc": round(time.time() - t0, 1)}
    for m, c, w, note in impl:
        r = res["impl:%s/%s" % (m, c)]
        rep.add_tlc("%s/%s" % (m, c), r, "Impl spec: " + note)
        if not r.ok:
            rep.infra_error("model check of %s/%s failed (%s): the Impl spec no longer satisfies the contract - spec and code "
                            "must be re-aligned\n%s" % (m, c, r.violated, r.out[-1200:]))
    for m, c, inv, note in selft:
        r = res["self:%s/%s" % (m, c)]
        rep.self_test("%s not vacuous: %s (%s)" % (inv, note, c), r.violated == inv, str(r.brief()))
    if rep.infra:
        return
    gens = {}
    for g, note in (("retry", "every Retry scenario: 3 kinds x n in 0..3 x all 6^4 scripts"),
                    ("hooks", "every Join/PreHook/PostHook scenario: 17 kinds x part results x context expired on entry; Producer.Join: all scripts of length <= 2 per producer, successive calls"),
                    ("edge", "one shortest driver schedule per edge of the abstract state graph (Once/Limit/Operation.Limit/Lock/Launch families)"),
                    ("sim", "random driver schedules, 4 callers, all six result classes")):
        r = res["gen:" + g]
        if g != "sim":
            rep.add_tlc("WrappersStep/" + g, r, note)
        if not r.ok:
            rep.infra_error("behaviour generation (%s) failed: %s" % (g, r.out[-1200:]))
            return
        gens[g] = replay.dedupe(r.tagged.get("BEH", []))
    edge = gens["edge"]
    if quick:
        edge = _stratified(edge, 3000, rng)
    behs = replay.dedupe(gens["retry"] + gens["hooks"] + edge + gens["sim"])
    rng.shuffle(behs)          # spread the expensive (concurrent) behaviours over the shards

    # ---------------------------------------------------------------- 2. model -> code
    binary = harness.build("vh-wrappers")
    rc, outs, err = harness.run(binary, ["kinds"], None, timeout=60)
    table = set(outs[0]["kinds"]) if outs else set()
    used = {b["sc"]["kind"] for b in gens["retry"] + gens["hooks"] + gens["edge"]}
    rep.self_test("constructor table: every kind the spec enumerates is built by the harness, and vice versa",
                  bool(table) and used == table, "only in spec: %s; only in harness: %s" % (sorted(used - table), sorted(table - used)))
    t0 = time.time()
    drep = OncePerKey(rep)
    env = {"GOMAXPROCS": str(2 + seed % 5)}
    replay.replay(drep, binary, ["replay"], behs, shards=8, env_extra=env, label="wrappers", nontrivial=_nontrivial,
                  timeout=1500)
    rep.cov["stage_s"]["replay"] = round(time.time() - t0, 1)
    t0 = time.time()
    rep.cov["exhaustive"] = not quick
    rep.cov["kinds_replayed"] = sorted(used)
    for fam in ("once", "launch", "retry"):
        pick = [b for b in behs if b["sc"]["fam"] == fam and len(b["steps"]) >= (1 if fam == "retry" else 3)]
        if pick:
            rep.sample(dict(kind="replayed behaviour (%s)" % fam, behaviour=pick[0]))
    # self-tests of the binding: wrong expectations must be rejected by the replayer
    noexp = dict(lo=0, hi=99, maxc=99, nlo=0, nhi=99, jr=False, rets=[], minb=0, attempts=-1, classes=[], val=0, allowed=[])
    bad = [
        # Once: claims two executions after three callers
        dict(sc=dict(fam="once", kind="Worker.Once", n=1, m=0, pre=False, script=["ok"]),
             steps=[dict(op="start", arg="c1", exp=dict(noexp, lo=1, hi=1, nhi=0)),
                    dict(op="start", arg="c2", exp=dict(noexp, lo=2, hi=2, nhi=0))]),
        # Once: claims a caller has returned while the execution is held
        dict(sc=dict(fam="once", kind="Producer.Once", n=1, m=0, pre=False, script=["ok"]),
             steps=[dict(op="start", arg="c1", exp=dict(noexp, lo=1, hi=1, nlo=1, nhi=1))]),
        # Limit: claims callers see execution 1 after the limit is exhausted
        dict(sc=dict(fam="limit", kind="Producer.Limit", n=2, m=0, pre=False, script=["ok", "ok"]),
             steps=[dict(op="start", arg="c1", exp=dict(noexp, lo=1, hi=1)), dict(op="release", arg="", exp=dict(noexp)),
                    dict(op="start", arg="c2", exp=dict(noexp, lo=2, hi=2)), dict(op="release", arg="", exp=dict(noexp)),
                    dict(op="start", arg="c3", exp=dict(noexp, lo=2, hi=2, nlo=3, nhi=3, jr=True, rets=[1, 2, 1]))]),
        # Launch: claims a Worker.Launch waiter must still be blocked after the background finished
        dict(sc=dict(fam="launch", kind="Worker.Launch", n=0, m=1, pre=False, script=["ok"]),
             steps=[dict(op="waiter", arg="c1", exp=dict(noexp, minb=1)), dict(op="release", arg="", exp=dict(noexp, minb=1))]),
        # Retry: claims a retry stops after the first ordinary error
        dict(sc=dict(fam="retry", kind="Worker.Retry", n=3, m=0, pre=False, script=["err", "ok", "ok", "ok"]),
             steps=[dict(op="call", arg="", exp=dict(noexp, attempts=1, classes=["err"]))]),
        # Hooks: claims the post-hook runs first
        dict(sc=dict(fam="hooks", kind="Worker.PostHook", n=0, m=0, pre=False, script=["ok", "ok"]),
             steps=[dict(op="call", arg="", exp=dict(noexp, allowed=[["h", "m"]]))]),
    ]
    rc, outs, err = harness.run(binary, ["replay"], [dict(n=i, beh=b) for i, b in enumerate(bad)], timeout=120)
    got = {o["n"]: o for o in outs if "begin" not in o}
    rep.self_test("replayer rejects six behaviours with wrong expectations (one per family)",
                  len(got) == len(bad) and all(not o.get("ok") for o in got.values()),
                  str([(o.get("n"), o.get("ok"), o.get("key")) for o in got.values()])[:400])

    # ---------------------------------------------------------------- 3. code -> model
    hists = _record(rep, binary, 600 if quick else 12000, seed)
    _validate_histories(drep, hists, shards=6)
    drep.flush()
    if hists:
        rep.sample(dict(kind="recorded history", events=max(hists, key=len)[:16]))
        # corrupt one recorded field: move the first `ret` of a Once history in front of the `exit`
        cand = [h for h in hists if h[0]["fam"] == "once" and any(e["ev"] == "exit" for e in h)]
        if cand:
            h = copy.deepcopy(cand[0])
            iexit = next(i for i, e in enumerate(h) if e["ev"] == "exit")
            iret = next(i for i, e in enumerate(h) if e["ev"] == "ret")
            h.insert(iexit, h.pop(iret))
            acc, r, info = trace.validate(COMP, "WrappersTrace", "Trace.cfg", [h])
            rep.self_test("trace spec rejects a Once history whose return is moved before the end of the execution", acc is False, str(info)[:200])
        cand = [h for h in hists if h[0]["fam"] in ("limit", "lock") and sum(e["ev"] == "enter" for e in h) >= 2]
        if cand:
            h = copy.deepcopy(cand[0])
            ient = [i for i, e in enumerate(h) if e["ev"] == "enter"]
            h.insert(ient[0] + 1, h.pop(ient[1]))     # second execution enters while the first is inside
            acc, r, info = trace.validate(COMP, "WrappersTrace", "Trace.cfg", [h])
            rep.self_test("trace spec rejects overlapping executions under Lock/Limit", acc is False, str(info)[:200])
        else:
            rep.self_test("a Lock/Limit history with two executions was recorded", False, "none among %d histories" % len(hists))
    rep.cov["stage_s"]["trace"] = round(time.time() - t0, 1)
    rep.cov["rule"] = ("behaviours = driver schedules of WrappersStep: ALL Retry scenarios (3 kinds x n<=3 x 6^4 scripts) and ALL "
                       "Join/PreHook/PostHook scenarios; for Once/Limit/Operation.Limit/Lock/Signal-Launch-Background-StartGroup one shortest "
                       "schedule per edge of the abstract state graph (quick: ~3000 of them, stratified over the constructor kinds; thorough: all) "
                       "plus random schedules with 4 callers; each step is followed by rt.Quiesce and the observations (executions entered, max "
                       "concurrency, who returned with which execution's result, waiters still blocked) are compared with the spec's; non-trivial = "
                       "a schedule with a release and >= 3 steps, or any Retry/Join/PreHook/PostHook scenario; histories = un-stepped concurrent runs (2-5 "
                       "goroutines, random kind/n/script) validated by WrappersTrace")
