import copy
from vlib import harness, trace


def key_fn(hist, info):
    ev = info.get("event", {})
    if ev.get("ev") == "quiescent":
        return "waitgroup/trace/wait-stuck-at-quiescence"
    if ev.get("ev") == "ret":
        return "waitgroup/trace/unexplainable-return"
    return "waitgroup/trace/history-rejected"


def validate(rep, binary, tier, seed):
    n = 150 if tier == "quick" else 1500
    hists = []
    shards = 6
    import concurrent.futures as cf
    with cf.ThreadPoolExecutor(max_workers=shards) as ex:
        futs = [ex.submit(harness.run, binary, ["record", str(n // shards), str(seed * 1000 + i)], None, 600) for i in range(shards)]
        for f in futs:
            rc, outs, err = f.result()
            if rc != 0:
                rep.infra_error("recorder failed: " + err[-800:])
            hists += [o["hist"] for o in outs if "hist" in o]
    trace.validate_all(rep, "waitgroup", "WaitGroupTrace", "Trace.cfg", hists, label="waitgroup/trace",
                       shards=8, key_fn=key_fn)
    if hists:
        rep.sample(dict(kind="recorded history", events=hists[0][:12]))
        # self-test of the binding: corrupt one recorded field -> TLC must reject
        bad = copy.deepcopy(max(hists, key=len))
        flipped = False
        for e in bad:
            if e.get("ev") == "ret" and e.get("res") not in ("ok", "panic", "ret"):
                e["res"] = str(int(e["res"]) + 1)
                flipped = True
                break
        if not flipped:
            for e in bad:
                if e.get("ev") == "ret" and e.get("res") == "ok":
                    e["res"] = "panic"
                    flipped = True
                    break
        if flipped:
            acc, r, info = trace.validate("waitgroup", "WaitGroupTrace", "Trace.cfg", [bad])
            rep.self_test("trace spec rejects a corrupted return value", acc is False, str(info)[:200])
