import copy
from vlib import harness, trace


def key_fn(hist, info):
    ev = info.get("event", {})
    if ev.get("ev") == "quiescent":
        return "waitgroup/trace/wait-stuck-at-quiescence"
    if ev.get("ev") == "ret":
        return "waitgroup/trace/unexplainable-return"
    return "waitgroup/trace/history-rejected"


def validate(rep, binary, tier, seed):
    n = 150 if tier == "quick" else 1500
    hists = []
    shards = 6
    import concurrent.futures as cf
    with cf.ThreadPoolExecutor(max_workers=shards) as ex:
        futs = [ex.submit(harness.run, binary, ["record", str(n // shards), str(seed * 1000 + i)], None, 600) for i in range(shards)]
        for f in futs:
            rc, outs, err = f.result()
            if rc != 0:
                rep.infra_error("recorder failed: " + err[-800:])
            hists += [o["hist"] for o in outs if "hist" in o]
    trace.validate_all(rep, "waitgroup", "WaitGroupTrace", "Trace.cfg", hists, label="waitgroup/trace",
                       shards=8, key_fn=key_fn)
    if hists:
        rep.sample(dict(kind="recorded history", events=hists[0][:12]))
        # self-test of the binding on a history WITHOUT concurrency (a corrupted value inside a concurrent run may
        # still be explainable, which made this self-test fail by chance): Add(2) then Num() must be "2"
        def seqhist(ans):
            return [dict(ev="call", t="t0", id=1, op="add", arg=2, seq=1), dict(ev="ret", t="t0", id=1, res="ok", seq=2),
                    dict(ev="call", t="t0", id=2, op="num", arg=0, seq=3), dict(ev="ret", t="t0", id=2, res=ans, seq=4)]
        acc, r, info = trace.validate("waitgroup", "WaitGroupTrace", "Trace.cfg", [seqhist("2")])
        rep.self_test("trace spec accepts a correct sequential history", acc is True, str(info)[:200])
        acc, r, info = trace.validate("waitgroup", "WaitGroupTrace", "Trace.cfg", [seqhist("3")])
        rep.self_test("trace spec rejects a corrupted return value", acc is False, str(info)[:200])
