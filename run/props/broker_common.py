"""Shared by C08 and C09 (pubsub.Broker): BrokerImpl model checking, BrokerStep schedule generation, execution on the real
broker (vh-broker), BrokerTrace validation.  c08.py judges the delivery obligations, c09.py the progress / shutdown
obligations; both call into this module, each writes its own evidence."""
import collections, concurrent.futures as cf, contextlib, copy, json, random, time

from vlib import tlc, harness, trace, replay

COMP = "broker"
SCHED_OF = {}    # id(history) -> schedule that produced it
RECORD_OF = {}   # id(history) -> recorder arguments that produced it

@contextlib.contextmanager
def phase(rep, name):
    """wall time per phase, for the evidence only"""
    t0 = time.time()
    try:
        yield
    finally:
        rep.cov.setdefault("phase_wall_s", {})
        rep.cov["phase_wall_s"][name] = round(rep.cov["phase_wall_s"].get(name, 0) + time.time() - t0, 1)


# ------------------------------------------------------------------------------------------- BrokerImpl configurations
BASE = dict(Pubs='{"p1"}', K=2, Subs='{"s1", "s2"}', W=1, Parallel="FALSE", Backend='"queue"', Cap=0, Buf=0,
            StatsIds="{}", WaitIds="{}", StopIds="{}", AutoRead="FALSE", Toggles=2, AllowUnsub="TRUE",
            AllowParentCancel="FALSE", CtxCancels=0, Redundant=0,
            # the switches: the code with the two proposed repairs (fixes/broker-*.diff); the *_asis entries flip them
            WaitLocksMu="FALSE", StatsBuffered="TRUE", RecvWaitsFirst="FALSE", KF_UnsubWindow="TRUE")
SAFETY = ("TypeOK OnlyPublishedInv NoDuplicateInv ExactlyOnceInv OrderInv NoStall CtxRespected StopReturns "
          "CleanShutdown MutexFree")


def impl_cfg(over, props="", invariants=SAFETY):
    d = dict(BASE)
    d.update(over)
    d.setdefault("CtlBuf", d["Buf"])      # the code: subCh / unsubCh have capacity BufferSize
    t = "SPECIFICATION Spec\nCONSTANTS\n" + "".join("  %s = %s\n" % kv for kv in d.items()) + "INVARIANTS " + invariants + "\n"
    if props:
        t += "PROPERTIES " + props + "\n"
    return t + "CHECK_DEADLOCK FALSE\n"


def be(name, cap=0):
    return dict(Backend='"%s"' % name, Cap=cap)


# delivery (C08): subscribers subscribe / pause / resume / unsubscribe while publishers publish
def delivery_models(quick):
    two = dict(Pubs='{"p1", "p2"}', K=1)
    ms = [("queue W=1", dict(), ""),
          ("chan W=1", dict(be("chan")), "")]
    if not quick:
        ms += [("queue W=1 two publishers", dict(two), ""),
               ("chan W=1 two publishers", dict(two, **be("chan")), ""),
               ("chan(1) W=1", dict(be("chan", 1)), ""),
               ("queue W=2", dict(W=2, Toggles=1), ""),
               ("chan W=2", dict(be("chan"), W=2, Toggles=1), ""),
               ("queue parallel", dict(Parallel="TRUE"), ""),
               ("chan parallel", dict(be("chan"), Parallel="TRUE", Toggles=1), ""),
               ("queue W=2 parallel", dict(W=2, Parallel="TRUE", Toggles=1, Subs='{"s1"}', K=3), ""),
               ("queue(1) sheds load", dict(be("queue", 1)), ""),
               ("deque(1) blocks", dict(be("deque", 1)), ""),
               ("nbdeque(1) evicts (LIFO broker)", dict(be("nbdeque", 1)), ""),
               ("queue BufferSize=1", dict(Buf=1, Toggles=1), ""),
               ("queue W=1, redundant Unsubscribe", dict(Redundant=1, Toggles=1), "")]
    return ms


PROG = "Dispatches PublishReturns Settles"
SHUT = "ShutsDown WaitReturns StopCompletes Settles"


# progress and shutdown (C09)
def progress_models(quick):
    auto = dict(AutoRead="TRUE", Toggles=0, AllowUnsub="FALSE", K=3)
    shut = dict(K=2, Subs='{"s1"}', Toggles=1, AllowUnsub="FALSE", StopIds='{"t1"}', WaitIds='{"v1"}', AllowParentCancel="TRUE")
    ctx = dict(K=1, Subs='{"s1"}', Toggles=1, StatsIds='{"x1"}', CtxCancels=2, StopIds='{"t1"}')
    ms = [("burst of 3, queue, subscribers always ready", dict(auto), PROG),
          ("burst of 3, chan", dict(auto, **be("chan")), PROG),
          ("shutdown: Stop / parent cancel / Wait at every point, queue", dict(shut), SHUT),
          ("calls with cancelled contexts, Stats, Stop", dict(ctx), "ShutsDown StopCompletes Settles")]
    if not quick:
        for name, b in (("chan(1)", be("chan", 1)), ("queue(1)", be("queue", 1)), ("deque(1)", be("deque", 1)),
                        ("nbdeque(1)", be("nbdeque", 1))):
            ms.append(("burst of 3, %s" % name, dict(auto, **b), PROG))
        ms += [("burst, queue W=2", dict(auto, W=2, K=2), PROG),
               ("burst, chan W=2", dict(auto, W=2, K=2, **be("chan")), PROG),
               ("burst, queue parallel", dict(auto, Parallel="TRUE"), PROG),
               ("burst, chan W=2 parallel", dict(auto, W=2, Parallel="TRUE", K=2, **be("chan")), PROG),
               ("burst, queue BufferSize=1", dict(auto, Buf=1), PROG),
               ("shutdown, chan", dict(shut, **be("chan")), SHUT),
               ("shutdown, deque(1)", dict(shut, **be("deque", 1)), SHUT),
               ("shutdown, queue W=2 parallel", dict(shut, W=2, Parallel="TRUE", K=1), SHUT),
               ("shutdown, two Waits", dict(shut, K=1, WaitIds='{"v1", "v2"}', CtxCancels=1), SHUT),
               ("cancelled contexts, chan", dict(ctx, **be("chan")), "ShutsDown StopCompletes Settles"),
               ("cancelled contexts, BufferSize=1", dict(ctx, Buf=1), "ShutsDown StopCompletes Settles")]
    return ms


# the code as it is / was: each must violate the named invariant (non-vacuity of the invariant, and the model
# counterpart of the defect demonstrated on the real code)
ASIS = {
    "unsub": ("MC_asis_unsub.cfg", "ExactlyOnceInv", "C08",
              "window as in DESIGN 5.0: a message accepted before Unsubscribe is called is lost when dispatched after it"),
    "ctlbuf": ("MC_whatif_ctlbuf.cfg", "ExactlyOnceInv", "C08",
               "what-if: control channels buffered although BufferSize = 0 - Subscribe returns before the registration, a "
               "message published afterwards can be dispatched first (the class of the event-loop-busy schedules)"),
    "stats": ("MC_asis_stats.cfg", "NoStall", "C09",
              "unbuffered Stats reply: a caller that gave up leaves the event loop blocked for ever"),
    "wait": ("MC_asis_wait.cfg", "StopReturns", "C09", "Wait holds b.mu while blocked: Stop cannot run"),
    "recv": ("MC_asis_recvwait.cfg", "NoStall", "C09",
             "pre-fix Deque.WaitFront: the dispatcher waits although the buffer is not empty"),
}


def run_impl(rep, models, workers=4, parallel=3, timeout=1500):
    """Exhaustive checks of BrokerImpl; a failure is an infrastructure error (spec and code must be re-aligned)."""
    ok = True

    def one(m):
        name, over, props = m
        return m, tlc.run_tlc(COMP, "BrokerImpl", "gen.cfg", files={"gen.cfg": impl_cfg(over, props)}, workers=workers,
                              timeout=timeout, heap="6g")
    with cf.ThreadPoolExecutor(max_workers=parallel) as ex:
        for (name, over, props), r in ex.map(one, models):
            rep.add_tlc("BrokerImpl[%s]" % name, r, "safety: " + SAFETY + ("; liveness: " + props if props else ""))
            if not r.ok:
                ok = False
                rep.infra_error("model check BrokerImpl[%s] failed (%s): Impl spec and code must be re-aligned\n%s" % (
                    name, r.violated, r.out[-1500:]))
    return ok


def run_asis(rep, which):
    def one(k):
        cfg, inv, prop, what = ASIS[k]
        return k, tlc.run_tlc(COMP, "BrokerImpl", cfg, workers=2, timeout=600)
    with cf.ThreadPoolExecutor(max_workers=len(which)) as ex:
        for k, r in ex.map(one, which):
            cfg, inv, prop, what = ASIS[k]
            rep.self_test("BrokerImpl/%s violates %s (%s)" % (cfg, inv, what), r.violated == inv, str(r.brief()))


# ------------------------------------------------------------------------------------------- schedules (BrokerStep)
FAMILIES = {
    # name: (cfg, what, GOMAXPROCS values each scenario is run with, quick sample size)
    "focus": ("Step_focus.cfg", "membership churn incl. redundant Unsubscribe (twice, nil, stray channel): edge cover", (0,), 700),
    "busy": ("Step_busy.cfg", "Subscribe / Unsubscribe issued while the event loop is held up by a full blocking distributor, "
             "then Publish, until everybody receives: complete scenarios of the edge cover per configuration; repeated because "
             "the event loop's select chooses at random among the buffered request and the pending publications", (1, 4, 2, 4), 200),
    "buffered": ("Step_buffered.cfg", "buffered subscription channels x two dispatch workers x subscriber pauses x Stop / "
                 "parent cancel / Wait: edge cover per configuration", (1, 4), 350),
    "window": ("Step_window.cfg", "Stop / parent cancel while the dispatcher is held between its emptiness check and its "
               "park (yield point pubsub.wait.before-cond-wait)", (0,), 200),
}


def gen_schedules(rep, quick, seed, want, families=()):
    """Scenarios from BrokerStep (edge cover; thorough: + all short sequences; + random deep ones), each paired with
    configurations drawn from BrokerStep!StepConfigs; plus the scenario families of FAMILIES (those marked per
    configuration carry their own).  Returns (schedules, lossless configs)."""
    jobs = [("edge", "Step_edge.cfg", {}, "one shortest driver schedule per edge of the abstract scenario graph")]
    jobs += [(name, FAMILIES[name][0], {}, FAMILIES[name][1]) for name in families]
    jobs.append(("sim", "Step_sim.cfg", dict(simulate=dict(num=100 if quick else 250), depth=20, seed=seed),
                 "random deep driver schedules (-simulate)"))
    if not quick:
        jobs.append(("all", "Step_all.cfg", {}, "all driver schedules of length Depth (one subscriber pair, one publisher)"))
    with cf.ThreadPoolExecutor(max_workers=len(jobs)) as ex:
        res = dict(zip([j[0] for j in jobs],
                       ex.map(lambda j: tlc.run_tlc(COMP, "BrokerStep", j[1], workers=1, timeout=900, **j[2]), jobs)))
    for name, cfg, kw, what in jobs:
        rep.add_tlc("BrokerStep/" + cfg, res[name], what)
        if not res[name].ok:
            rep.infra_error("BrokerStep %s generation failed: %s" % (cfg, res[name].out[-1200:]))
            return [], []
    r = res["edge"]
    if "CFGS" not in r.tagged:
        rep.infra_error("BrokerStep did not print its configurations")
        return [], []
    cfgs = sorted(r.tagged["CFGS"][0], key=lambda c: json.dumps(c, sort_keys=True))
    lossless = r.tagged["LOSSLESS"][0]
    scen = replay.dedupe(r.tagged.get("BEH", []))
    fam = {name: replay.dedupe(res[name].tagged.get("BEH", [])) for name in families}
    sim = replay.dedupe(res["sim"].tagged.get("BEH", []))
    allseq = replay.dedupe(res["all"].tagged.get("BEH", [])) if not quick else []
    rng = random.Random(seed)

    def stratified(bs):
        """round robin over groups of scenarios with the same last step and step kinds: rare classes are not sampled away"""
        groups = collections.defaultdict(list)
        for b in bs:
            groups[(b[0]["a"], b[0]["n"], b[0]["w"], b[-1]["op"], len({s["a"] for s in b[1:] if s["op"] == "pub"}))
                   + tuple(sorted({s["op"] for s in b[1:]}))].append(b)
        keys = sorted(groups)
        for g in keys:
            rng.shuffle(groups[g])
        order = []
        while any(groups[g] for g in keys):
            for g in keys:
                if groups[g]:
                    order.append(groups[g].pop())
        return order
    order = stratified(scen)
    rng.shuffle(sim)
    rng.shuffle(allseq)
    if quick:
        picked = order[:want] + sim[:want // 6]
    else:
        picked = order + sim[:4000] + allseq[:want // 2]      # thorough: every edge scenario
    out = []
    ll = [c for c in cfgs if c in lossless]
    k, kl = rng.randrange(len(cfgs)), rng.randrange(len(ll))

    def with_cfg(b, c, procs=0):
        return [dict(op="new", a=c["a"], n=c["n"], w=c["w"], par=c["par"], buf=c["buf"], h=b[0].get("h", False),
                     procs=procs)] + b[1:]
    counts = {}
    for name in families:
        cfg, what, procs, nquick = FAMILIES[name]
        bs = stratified(fam[name])
        if quick:
            bs = bs[:nquick]
        counts[name] = dict(generated=len(fam[name]), executed=len(bs) * len(procs))
        for b in bs:
            for p in procs:
                if name == "focus":      # configuration-independent: runs on lossless configurations (all of C08 is judged there)
                    out.append(with_cfg(b, ll[kl % len(ll)], p))
                    kl += 1
                else:
                    out.append(with_cfg(b, b[0], p))
            if name == "focus" and not quick:
                out.append(with_cfg(b, ll[kl % len(ll)]))
                kl += 1
    for i, b in enumerate(picked):
        # every scenario runs on a lossless configuration (all of C08 is judged there) ...
        if not quick or i % 2 == 0:
            out.append(with_cfg(b, ll[kl % len(ll)]))
            kl += 1
        # ... and on one drawn from all configurations (round robin: every option set gets its share)
        if not quick or i % 2 == 1:
            out.append(with_cfg(b, cfgs[k % len(cfgs)]))
            k += 1
    rep.cov["scenarios_generated"] = dict(edge=len(scen), families=counts, simulated=len(sim), all_sequences=len(allseq),
                                          configs=len(cfgs), executed=len(out))
    return out, lossless


def run_schedules(rep, binary, schedules, shards, seed, label):
    """Execute schedules on the real broker; returns recorded histories (the harness does not judge)."""
    items = [dict(n=i, beh=b) for i, b in enumerate(schedules)]
    env = {"GOMAXPROCS": str(2 + seed % 3)}
    outs, meta = harness.run_sharded(binary, ["replay"], items, shards=shards, timeout=900, env_extra=env)
    hists, inconcl, trunc, begun, done = [], 0, 0, set(), set()
    for o in outs:
        if "begin" in o:
            begun.add(o["begin"])
            continue
        done.add(o.get("n"))
        if o.get("inconclusive"):
            inconcl += 1
        elif "hist" in o:
            hists.append(o["hist"])
            SCHED_OF[id(o["hist"])] = schedules[o["n"]]
            trunc += 1 if "truncated" in o else 0
    for i in sorted(begun - done):
        rc, o, err = harness.run(binary, ["replay"], [items[i]], timeout=120, env_extra=env)
        got = [x for x in o if x.get("n") == i and "begin" not in x]
        if got and "hist" in got[0]:
            hists.append(got[0]["hist"])
            SCHED_OF[id(got[0]["hist"])] = schedules[i]
        elif not got:
            tail = err[-3000:]
            if "github.com/tychoish/fun" in tail and ("panic:" in tail or "fatal error:" in tail):
                rep.violation("broker/process-crash", "the process died while executing this schedule: " + tail[-1200:],
                              dict(schedule=schedules[i], stderr=tail))
            else:
                rep.infra_error("%s: schedule %d kills the harness: %s" % (label, i, tail[-400:]))
    rep.cov["inconclusive"] = rep.cov.get("inconclusive", 0) + inconcl
    rep.cov["truncated_no_quiescence"] = rep.cov.get("truncated_no_quiescence", 0) + trunc
    if inconcl + trunc > 0.05 * max(1, len(items)):
        rep.infra_error("%s: %d of %d schedules inconclusive / truncated" % (label, inconcl + trunc, len(items)))
    missing = len(items) - len(done | begun)
    if missing:
        rep.infra_error("%s: %d schedules were never run" % (label, missing))
    return hists


def record(rep, binary, n, seed, shards=6):
    hists = []
    with cf.ThreadPoolExecutor(max_workers=shards) as ex:
        futs = [ex.submit(harness.run, binary, ["record", str(max(1, n // shards)), str(seed * 1000 + i)], None, 900)
                for i in range(shards)]
        for i, f in enumerate(futs):
            rc, outs, err = f.result()
            for o in outs:
                if "hist" in o:
                    RECORD_OF[id(o["hist"])] = dict(n=max(1, n // shards), seed=seed * 1000 + i)
            if rc != 0:
                if "github.com/tychoish/fun" in err and "panic" in err:
                    rep.violation("broker/record/process-crash", "recorder died: " + err[-1200:], dict(stderr=err[-3000:]))
                else:
                    rep.infra_error("recorder failed: " + err[-600:])
            hists += [o["hist"] for o in outs if "hist" in o]
    return hists


# ------------------------------------------------------------------------------------------- judging (BrokerTrace)
def key_fn(hist, info):
    """Stable key: violated predicate of BrokerTrace (+ where the event loop is stuck, from the census, as a label)."""
    why = info.get("why", "history-rejected")
    ev = info.get("event", {})
    key = "broker/" + why
    if any("Stats.func1 [chan send]" in w for w in ev.get("where", []) or []):
        key += "@event-loop-stuck-in-stats-reply"
    return key


def judge(rep, hists, cfg, label, shards=8, max_violations=12):
    """Validate histories with BrokerTrace; every rejection was re-validated alone by validate_all."""
    before = len(rep.violations)
    trace.validate_all(rep, COMP, "BrokerTrace", cfg, hists, label=label, shards=shards, key_fn=key_fn,
                       max_violations=max_violations)
    for v in rep.violations[before:]:
        h = v[2].get("history") if isinstance(v[2], dict) else None
        if id(h) in SCHED_OF:
            v[2]["schedule"] = SCHED_OF[id(h)]
        if id(h) in RECORD_OF:
            v[2]["record"] = RECORD_OF[id(h)]
        v[2]["trace_cfg"] = cfg


def judge_delivery(rep, hists, label, shards=8):
    """C08.  All histories are judged with the window narrowed to subscribers that never call Unsubscribe (so that
    the known unsubscribe-window finding does not end the validation of the others early); the histories in which
    the two windows can differ - lossless, with an Unsubscribe call - are then judged with the window of DESIGN 5.0."""
    judge(rep, hists, "Trace_c08_relaxed.cfg", label, shards=shards)
    cand = [h for h in hists if lossless(h) and any(e.get("op") == "unsub" for e in h)]
    if cand:
        judge(rep, cand, "Trace_c08.cfg", label + "/unsubscribe-window", shards=shards, max_violations=3)
    rep.cov["histories_with_unsubscribe_judged_with_full_window"] = rep.cov.get("histories_with_unsubscribe_judged_with_full_window", 0) + len(cand)


def mutate_selftests(rep, hists, tests, tries=16):
    """Binding self-tests: corrupt one recorded fact and require BrokerTrace to reject it with the right predicate."""
    cands = sorted(hists, key=len, reverse=True)

    def one(t):
        name, cfg, fn, expect = t
        n, last = 0, "no recorded history to which the corruption applies"
        for h in cands:
            bad = fn(copy.deepcopy(h))
            if bad is None:
                continue
            n += 1
            acc, r, info = trace.validate(COMP, "BrokerTrace", cfg, [bad])
            why = info.get("why") if isinstance(info, dict) else str(info)[:200]
            last = "rejected with %s (expected %s)" % (why, expect) if acc is False else "not rejected (%s)" % acc
            if acc is False and why == expect:
                return name, True, last
            if n >= tries:
                break
        return name, False, last
    with cf.ThreadPoolExecutor(max_workers=len(tests)) as ex:
        for name, ok, detail in ex.map(one, tests):
            rep.self_test(name, ok, detail)


def lossless(h):
    c = h[0]
    return c["buf"] == 0 and (c["backend"] == "chan" or (c["backend"] in ("queue", "deque") and c["cap"] == 0))


def replay_file(rep, path, cfgs):
    """--replay: re-run the saved schedule / recorder run on the current code and judge again (a saved history
    without provenance is judged as it is)."""
    obj = json.load(open(path))["replay"]
    binary = harness.build("vh-broker")
    if obj.get("schedule"):
        hs = run_schedules(rep, binary, [obj["schedule"]] * 6, 2, rep.seed, "replay")
    elif obj.get("record"):
        rc, outs, err = harness.run(binary, ["record", str(obj["record"]["n"]), str(obj["record"]["seed"])], None, 900)
        hs = [o["hist"] for o in outs if "hist" in o]
    else:
        hs = [obj["history"]]
    if cfgs is None:
        judge_delivery(rep, hs, "replay", shards=2)
    else:
        for cfg in cfgs:
            judge(rep, hs, cfg, "replay", shards=2)
