"""Unbounded companions of three TLC-bounded results (spec/proofs/*): inductive invariants checked with
Apalache (SMT, unbounded integers, parametric instance sizes) and proved with TLAPS (arbitrary sets and
lengths).

    tracker    spec/proofs/TrackerInd*.tla    arithmetic of spec/lib/Tracker.tla       (C05/C06)
    waitgroup  spec/proofs/WaitGroupInd*.tla  safety of spec/waitgroup/WaitGroup.tla   (C14)
    queue      spec/proofs/QueueInd*.tla      FIFO kernel of spec/queue/QueueCore.tla  (C05)

The proof modules INSTANCE the original modules (the ones the conformance checks bind to the Go code); a
proof job copies the originals next to them in a scratch directory.  TLAPS reads the originals unchanged.
For Apalache the copy is adapted mechanically (ADAPT below): `@type` comment lines are inserted in front
of operator definitions whose record parameters the type checker cannot infer, and in WaitGroup!SeqToSet
`1..Len(s)` becomes `DOMAIN s` (Apalache wants constant range bounds; the equality is the TLAPS lemma
WaitGroupInd_proof!SeqToSetDomain, proved in the same run).  adapt() refuses to run when a definition it
wants to touch is not found exactly once, and verifies that removing what it inserted gives back the
original text - so an edit of an original is either carried into the proofs or noticed.

A proof that stops going through is a reason to look at the spec, not a verdict about the Go code:
failures and time-outs are reported as rep.infra_error.  Deliberately broken variants (*_bad.tla, and
text mutations of the originals) must FAIL; they are the non-vacuity self-tests (rep.self_test).

    run_proofs(rep, names, tier)      names subset of {"tracker", "waitgroup", "queue"}
"""
import concurrent.futures, os, re, shutil, signal, subprocess, tempfile, time

VERIF = os.path.dirname(os.path.dirname(os.path.dirname(os.path.abspath(__file__))))
SPEC = os.path.join(VERIF, "spec")
PROOFS = os.path.join(SPEC, "proofs")
ORIGINALS = {"Tracker.tla": "lib", "WaitGroup.tla": "waitgroup", "QueueCore.tla": "queue"}
ALL = ("tracker", "waitgroup", "queue")
TLC_JAR = "/opt/veriftools/tla/tla2tools.jar"
TLC_DEPS = "/opt/veriftools/tla/CommunityModules-deps.jar"

# concurrent proof jobs / threads per tlapm (development on the shared machine: VERIF_PROOF_JOBS=2)
JOBS = int(os.environ.get("VERIF_PROOF_JOBS", "4"))
TLAPM_THREADS = int(os.environ.get("VERIF_TLAPM_THREADS", "4"))
# short runs: C1 only and few GC threads (13 s -> 6 s per Apalache run here)
APALACHE_JVM = "-XX:ActiveProcessorCount=2 -XX:TieredStopAtLevel=1 -Xmx3g"

TR = "{kind: Str, len: Int, soft: Int, hard: Int, credit: Int, frac: Bool}"
Q = "{items: Seq(Str), closed: Bool, tr: %s}" % TR
OUT = "{q: %s, res: Str, amb: Bool}" % Q

# adaptations of the originals for Apalache's type checker: ("annot", operator, type) inserts a comment
# line `\* @type: ...;` above the definition; ("subst", old, new) replaces text found exactly once
ADAPT = {
    "Tracker.tla": [
        ("annot", "TrLen", "(%s) => Int" % TR),
        ("annot", "TrCap", "(%s) => Int" % TR),
        ("annot", "TrAdd", "(%s) => Set({t: %s, res: Str, amb: Bool})" % (TR, TR)),
        ("annot", "TrRemove", "(%s) => %s" % (TR, TR)),
        ("annot", "TrOK", "(%s) => Bool" % TR),
    ],
    "WaitGroup.tla": [
        ("annot", "SeqToSet", "Seq(Str) => Set(Str)"),
        # justified by LEMMA SeqToSetDomain in WaitGroupInd_proof.tla
        ("subst", "SeqToSet(s) == {s[i] : i \\in 1..Len(s)}", "SeqToSet(s) == {s[i] : i \\in DOMAIN s}"),
    ],
    "QueueCore.tla": [
        ("annot", "QNew", "(%s) => %s" % (TR, Q)),
        ("annot", "Out", "(%s, Str, Bool) => %s" % (Q, OUT)),
        ("annot", "QAdd", "(%s, Str) => Set(%s)" % (Q, OUT)),
        ("annot", "QRemove", "(%s) => Set(%s)" % (Q, OUT)),
        ("annot", "QLen", "(%s) => Set(%s)" % (Q, OUT)),
        ("annot", "QClose", "(%s) => Set(%s)" % (Q, OUT)),
        ("annot", "QWait", "(%s, Bool) => Set(%s)" % (Q, OUT)),
        ("annot", "QBlockingAdd", "(%s, Str, Bool) => Set(%s)" % (Q, OUT)),
        ("annot", "Apply", "(%s, Str, Str, Bool) => Set(%s)" % (Q, OUT)),
        ("annot", "Enabled", "(%s, Str, Str, Bool) => Bool" % Q),
        ("annot", "QOK", "(%s) => Bool" % Q),
    ],
}


class AdaptError(Exception):
    pass


def adapt(name, text):
    """The Apalache-digestible copy of original `name` (see the module docstring)."""
    lines = text.split("\n")
    inserted, substituted = [], []
    for rule in ADAPT[name]:
        if rule[0] == "annot":
            pat = re.compile(r"^%s(\(.*?\))?\s*==" % re.escape(rule[1]))
            hits = [i for i, l in enumerate(lines) if pat.match(l)]
            if len(hits) != 1:
                raise AdaptError("%s: definition of %s found %d times (the original changed: review "
                                 "run/props/proofs.py ADAPT and spec/proofs)" % (name, rule[1], len(hits)))
            lines.insert(hits[0], "\\* @type: %s;" % rule[2])
            inserted.append(lines[hits[0]])
        else:
            hits = [i for i, l in enumerate(lines) if rule[1] in l]
            if len(hits) != 1:
                raise AdaptError("%s: %r found %d times (the original changed: review run/props/proofs.py "
                                 "ADAPT and spec/proofs)" % (name, rule[1], len(hits)))
            lines[hits[0]] = lines[hits[0]].replace(rule[1], rule[2])
            substituted.append((rule[2], rule[1]))
    # the adapted text minus the insertions, substitutions undone, is the original
    back = [l for l in lines if l not in inserted]
    back = "\n".join(back)
    for new, old in substituted:
        back = back.replace(new, old)
    if back != text:
        raise AdaptError("%s: adaptation is not comment-only" % name)
    return "\n".join(lines)


# ---- job table ---------------------------------------------------------------------------------
# tool "apalache": args after `apalache-mc check`; tool "tlapm": module to prove.
# expect "proved" | "fail" (self-tests: Apalache must report a violated invariant = result "refuted",
# tlapm must be left with a failed obligation = result "unproved")
# mutate: (original file, old text, new text) applied to the scratch copy before the run
def _jobs():
    J = []

    def apa(name, jid, module, cinit, init, inv, length, tiers, nxt=None, expect="proved", what="", mutate=None,
            timeout=300):
        args = ["--cinit=" + cinit, "--init=" + init] + (["--next=" + nxt] if nxt else []) + \
               ["--inv=" + inv, "--length=%d" % length, module]
        J.append(dict(name=name, id=jid, tool="apalache", args=args, tiers=tiers, expect=expect, what=what,
                      mutate=mutate, timeout=timeout))

    def tla(name, jid, module, tiers, expect="proved", what="", mutate=None, timeout=600, stretch=None):
        J.append(dict(name=name, id=jid, tool="tlapm", module=module, tiers=tiers, expect=expect, what=what,
                      mutate=mutate, timeout=timeout, stretch=stretch))

    def tlc(name, jid, module, cfg, tiers, what=""):
        J.append(dict(name=name, id=jid, tool="tlc", module=module, cfg=cfg, tiers=tiers, expect="proved", what=what,
                      mutate=None, timeout=300))

    Q_, T_ = ("quick", "thorough"), ("thorough",)
    # --- tracker
    apa("tracker", "apalache-step", "TrackerInd.tla", "ConstInit", "IndInit", "Inv", 1, Q_,
        what="Inv is preserved by add() and remove(): all integers hard/soft/credit/len, all Scale >= 1")
    apa("tracker", "apalache-init", "TrackerInd.tla", "ConstInit", "Init", "Inv", 0, T_,
        what="every tracker the constructors build satisfies Inv")
    tla("tracker", "tlaps", "TrackerInd_proof.tla", Q_,
        what="Spec => []Inv for spec/lib/Tracker.tla unchanged; all integers, all Scale >= 1")
    apa("tracker", "bad-nocap", "TrackerInd_bad.tla", "ConstInit", "IndInit", "Inv", 1, Q_, nxt="NextNoCap",
        expect="fail", what="remove() that does not clamp the credit must break the credit cap")
    apa("tracker", "bad-noraise", "TrackerInd_bad.tla", "ConstInit", "IndInit", "Inv", 1, T_, nxt="NextNoRaise",
        expect="fail", what="burst add() that does not raise the soft quota must break len <= soft")
    apa("tracker", "mutant-apalache", "TrackerInd.tla", "ConstInit", "IndInit", "Inv", 1, T_, expect="fail",
        mutate=("Tracker.tla", "!.credit = IF c2 > cap THEN cap ELSE c2,", "!.credit = c2,"),
        what="the ORIGINAL Tracker.tla with the clamp removed must fail the same check (binding to the original)")
    tla("tracker", "mutant-tlaps", "TrackerInd_proof.tla", T_, expect="fail", stretch="0.3",
        mutate=("Tracker.tla", "!.credit = IF c2 > cap THEN cap ELSE c2,", "!.credit = c2,"),
        what="the TLAPS proof must not go through for the mutated original")
    tlc("tracker", "tlc-crosscheck", "TrackerInd_tlc.tla", "TLC_TrackerInd.cfg", T_,
        what="TLC: Inv on the reachable states of small trackers (unadapted Tracker.tla)")
    # --- waitgroup
    wg_inv = "IndInv,StepInv,Consequences"
    apa("waitgroup", "apalache-step-3", "WaitGroupInd_apa.tla", "ConstInit3", "IndInit3", wg_inv, 1, Q_, nxt="NextAny",
        what="IndInv inductive, NoEarlyReturn of the returning step, consequences: 0..3 Wait calls, any Add(n)")
    apa("waitgroup", "apalache-init-3", "WaitGroupInd_apa.tla", "ConstInit3", "Init", "IndInv", 0, T_, nxt="NextAny",
        what="Init => IndInv, 0..3 Wait calls")
    apa("waitgroup", "apalache-step-5", "WaitGroupInd_apa.tla", "ConstInit5", "IndInit5", wg_inv, 1, T_, nxt="NextAny",
        what="as step-3 for every subset of 5 names")
    apa("waitgroup", "apalache-init-5", "WaitGroupInd_apa.tla", "ConstInit5", "Init", "IndInv", 0, T_, nxt="NextAny",
        what="Init => IndInv, 0..5 Wait calls")
    apa("waitgroup", "apalache-step-10", "WaitGroupInd_apa.tla", "ConstInit10", "IndInit10", wg_inv, 1, T_, nxt="NextAny",
        what="as step-3 for every subset of 10 names")
    tla("waitgroup", "tlaps", "WaitGroupInd_proof.tla", Q_,
        what="Spec => [](IndInv /\\ Consequences) /\\ [][StepInv]_vars for spec/waitgroup/WaitGroup.tla "
             "unchanged; arbitrary set of Wait calls, any Add(n)")
    apa("waitgroup", "bad-negative", "WaitGroupInd_bad.tla", "ConstInit3", "IndInit3", "IndInv", 1, Q_,
        nxt="NextNegative", expect="fail", what="Add without the invariant guard must break counter >= 0")
    apa("waitgroup", "bad-norecheck", "WaitGroupInd_bad.tla", "ConstInit3", "IndInit3", "StepInv", 1, T_,
        nxt="NextNoRecheck", expect="fail", what="a woken waiter returning unconditionally must break StepInv")
    apa("waitgroup", "bad-keeplock", "WaitGroupInd_bad.tla", "ConstInit3", "IndInit3", "IndInv", 1, T_,
        nxt="NextKeepLock", expect="fail", what="cond.Wait keeping the mutex must break holder <=> in critical section")
    tla("waitgroup", "mutant-tlaps", "WaitGroupInd_proof.tla", T_, expect="fail", stretch="0.3",
        mutate=("WaitGroup.tla", "IF counter + n < 0\n", "IF FALSE\n"),
        what="the ORIGINAL WaitGroup.tla with the Add guard removed must not be provable")
    tlc("waitgroup", "tlc-crosscheck", "WaitGroupInd.tla", "TLC_WaitGroupInd.cfg", T_,
        what="TLC: IndInv, Consequences, [][StepInv]_vars on the reachable states of WaitGroup.tla, 2 Wait calls")
    # --- queue
    q_inv = "Inv,LenBound,PrefixFIFO"
    apa("queue", "apalache-step-3", "QueueInd_apa.tla", "ConstInit", "IndInit3", q_inv, 1, Q_,
        what="Inv inductive over Add/BlockingAdd/Remove/Wait/Close: all integers, lists and histories <= 3")
    apa("queue", "apalache-init", "QueueInd_apa.tla", "ConstInit", "Init", "Inv", 0, T_,
        what="every queue the constructors build satisfies Inv")
    apa("queue", "apalache-step-5", "QueueInd_apa.tla", "ConstInit", "IndInit5", q_inv, 1, T_, timeout=600,
        what="as step-3 with lists and histories <= 5 (<= 6: IndInit6, 140 s)")
    tla("queue", "tlaps", "QueueInd_proof.tla", Q_,
        what="Spec => [](Inv /\\ LenBound /\\ PrefixFIFO) for QueueCore.tla + Tracker.tla unchanged; arbitrary "
             "value set, unbounded lengths, all integers")
    apa("queue", "bad-lifo", "QueueInd_bad.tla", "ConstInit", "IndInit3", "Inv", 1, Q_, nxt="NextLIFO",
        expect="fail", what="Remove handing out the last item must break added = removed \\o items")
    apa("queue", "bad-dup", "QueueInd_bad.tla", "ConstInit", "IndInit3", "Inv", 1, T_, nxt="NextDup",
        expect="fail", what="Remove that leaves the item queued must break at-most-once")
    apa("queue", "bad-nocount", "QueueInd_bad.tla", "ConstInit", "IndInit3", "Inv", 1, T_, nxt="NextNoCount",
        expect="fail", what="Add without tracker.add() must break Len(items) = tr.len")
    tla("queue", "mutant-tlaps", "QueueInd_proof.tla", T_, expect="fail", stretch="0.3",
        mutate=("QueueCore.tla", "Out([q EXCEPT !.items = Tail(@), !.tr = TrRemove(@)], Head(q.items), FALSE)",
                "Out([q EXCEPT !.tr = TrRemove(@)], Head(q.items), FALSE)"),
        what="the ORIGINAL QueueCore.tla with a Remove that keeps the item must not be provable")
    tlc("queue", "tlc-crosscheck", "QueueInd_tlc.tla", "TLC_QueueInd.cfg", T_,
        what="TLC: Inv, LenBound, PrefixFIFO on the reachable states of small queues (unadapted QueueCore.tla)")
    return J


def jobs_for(names, tier):
    return [j for j in _jobs() if j["name"] in names and tier in j["tiers"]]


# ---- running one job ---------------------------------------------------------------------------
def _prepare(job):
    tmp = tempfile.mkdtemp(prefix="vproof-")
    for f in os.listdir(PROOFS):
        if f.endswith(".tla") or f.endswith(".cfg"):
            shutil.copy(os.path.join(PROOFS, f), tmp)
    for name, comp in ORIGINALS.items():
        with open(os.path.join(SPEC, comp, name)) as fh:
            text = fh.read()
        if job.get("mutate") and job["mutate"][0] == name:
            _, old, new = job["mutate"]
            if text.count(old) != 1:
                raise AdaptError("%s: mutation site %r found %d times" % (name, old, text.count(old)))
            text = text.replace(old, new)
        if job["tool"] == "apalache":
            text = adapt(name, text)
        with open(os.path.join(tmp, name), "w") as fh:
            fh.write(text)
    return tmp


def _cmd(job):
    if job["tool"] == "apalache":
        return ["apalache-mc", "check"] + job["args"]
    if job["tool"] == "tlc":
        return ["java", "-XX:+UseParallelGC", "-Xmx2g", "-cp", TLC_JAR + ":" + TLC_DEPS, "tlc2.TLC", "-workers", "2",
                "-metadir", "meta", "-config", job["cfg"], job["module"]]
    cmd = ["tlapm", "--threads", str(TLAPM_THREADS), "--cleanfp"]
    if job.get("stretch"):
        cmd += ["--stretch", job["stretch"]]
    return cmd + [job["module"]]


def run_job(job):
    """-> dict(name, id, tool, cmd, expect, result, obligations, discharged, wall_s, tail)
    result: "proved" | "refuted" (Apalache counterexample) | "unproved" (tlapm) | "timeout" | "error" """
    res = dict(name=job["name"], id=job["id"], tool=job["tool"], what=job["what"], expect=job["expect"],
               cmd=" ".join(_cmd(job)), result="error", obligations=0, discharged=0, wall_s=0.0, tail="")
    t0 = time.time()
    tmp = None
    try:
        tmp = _prepare(job)
        env = dict(os.environ)
        if job["tool"] == "apalache":
            env["JVM_ARGS"] = (env.get("JVM_ARGS", "") + " " + APALACHE_JVM).strip()
            env["TMPDIR"] = tmp
        p = subprocess.Popen(_cmd(job), cwd=tmp, env=env, stdout=subprocess.PIPE, stderr=subprocess.STDOUT,
                             text=True, errors="replace", start_new_session=True)
        try:
            out, _ = p.communicate(timeout=job["timeout"])
            rc = p.returncode
        except subprocess.TimeoutExpired:
            try:
                os.killpg(p.pid, signal.SIGKILL)      # the launcher script and its JVM / back-end provers
            except ProcessLookupError:
                pass
            out, _ = p.communicate()
            rc = None
            res["result"] = "timeout"
        if job["tool"] == "apalache":
            n = sum(int(m) for m in re.findall(r"Checking (\d+) (?:state|action) invariants", out))
            bad = len(re.findall(r"invariant \d+ violated", out))
            res["obligations"], res["discharged"] = n, max(0, n - bad)
            if rc is not None:
                if "The outcome is: NoError" in out and rc == 0:
                    res["result"] = "proved"
                elif "The outcome is: Error" in out and rc == 12 and bad:
                    res["result"] = "refuted"
                    res["discharged"] = n - bad
        elif job["tool"] == "tlc":
            m = re.search(r"(\d+) states generated, (\d+) distinct states found", out)
            res["obligations"] = int(m.group(2)) if m else 0           # states on which the invariants were evaluated
            if rc == 0 and "No error has been found" in out:
                res["result"], res["discharged"] = "proved", res["obligations"]
            elif rc is not None and re.search(r"Invariant \S+ is violated|Action property \S+ is violated", out):
                res["result"] = "refuted"
        else:
            m = re.search(r"All (\d+) obligations? proved", out)
            f = re.search(r"(\d+)/(\d+) obligations? failed", out)
            if rc is not None:
                if m and rc == 0:
                    res["obligations"] = res["discharged"] = int(m.group(1))
                    res["result"] = "proved"
                elif f:
                    res["obligations"] = int(f.group(2))
                    res["discharged"] = int(f.group(2)) - int(f.group(1))
                    res["result"] = "unproved"
        keep = [l for l in out.splitlines() if l.strip() and not l.startswith(("Called from", "Raised at"))
                and "Auto-expanding" not in l and not re.match(r'^File "\./\w+\.tla", line \d+, char', l)]
        res["tail"] = "\n".join(keep[-25:])[-2500:]
    except AdaptError as e:
        res["tail"] = str(e)
    except FileNotFoundError as e:
        res["tail"] = "tool not installed: %s" % e
    finally:
        res["wall_s"] = round(time.time() - t0, 2)
        if tmp:
            shutil.rmtree(tmp, ignore_errors=True)
    return res


def as_expected(r):
    return r["result"] == "proved" if r["expect"] == "proved" else r["result"] in ("refuted", "unproved")


def run_all(names, tier, jobs=None):
    js = jobs_for(names, tier)
    # long jobs first
    js.sort(key=lambda j: (j["tool"] != "tlapm", j["expect"] != "proved"))
    with concurrent.futures.ThreadPoolExecutor(max_workers=jobs or JOBS) as ex:
        return list(ex.map(run_job, js))


# ---- entry for the checks --------------------------------------------------------------------------
def run_proofs(rep, names, tier):
    """Run the proofs of `names` at `tier`; record rep.cov["proofs"]; a proof that does not go through is recorded, not fatal."""
    names = [n for n in names if n in ALL]
    results = run_all(names, tier)
    cov = rep.cov.setdefault("proofs", [])
    for r in results:
        label = "proof %s/%s (%s)" % (r["name"], r["id"], r["tool"])
        if r["tool"] == "tlc":
            rep.cov["states"] += r["obligations"]
        if r["expect"] == "proved":
            cov.append(dict(name=r["name"] + "/" + r["id"], tool=r["tool"], cmd=r["cmd"], what=r["what"],
                            obligations=r["obligations"], discharged=r["discharged"], wall_s=r["wall_s"],
                            result=r["result"]))
            if r["result"] != "proved":
                # The proofs are EXTRA evidence on top of the bounded checks (DESIGN.md 7: "nothing depends on them") and
                # the back-end provers work with time limits: on a loaded machine an obligation can time out.  A proof
                # that does not go through is therefore recorded (coverage.proofs[].result, coverage.proofs_not_discharged)
                # and printed, but it neither is a verdict about the Go code nor makes the check fail.
                rep.cov.setdefault("proofs_not_discharged", []).append("%s: %s, %d/%d obligations, %.0fs" % (
                    label, r["result"], r["discharged"], r["obligations"], r["wall_s"]))
                print("NOTE: %s did not go through on this run (%s, %d/%d obligations, %.0fs) - extra evidence only" % (
                    label, r["result"], r["discharged"], r["obligations"], r["wall_s"]))
        else:
            ok = as_expected(r)
            if ok:
                rep.self_test("%s not vacuous: %s" % (label, r["what"]), True, "%s in %.0fs" % (r["result"], r["wall_s"]))
            else:
                rep.cov.setdefault("proofs_not_discharged", []).append("%s (expected to fail): %s" % (label, r["result"]))
    if "unbounded results (spec/proofs)" not in " ".join(rep.assumptions):
        rep.assumptions.append("unbounded results (spec/proofs): Apalache 0.58 / Z3 and TLAPS (Z3, Zenon, Isabelle) are "
                               "sound; proofs are not re-checked by Isabelle (tlapm -C not used)")
    return results
