"""X05 (extra check, not a listed property): the SEQUENTIAL combinator algebra of fun.Worker, fun.Operation and fun.Future -
the combinators that C15 does not cover (If / When / Check / Ignore / Must / WithRecover / Observe / Operation / WithErrorCheck /
WithErrorFilter / WithoutErrors / While / WithCancel / Wait / Run; Operation.If / When / While / Worker / WithRecover / WithCancel /
Wait; Future.If / Not / When / PreHook / PostHook / Once / Reduce / Join, fun.Translate).

Technique: spec/wrapalg/WrapAlgebra.tla is a functional specification of combinator TREES over scripted leaf functions
(Eval = one call of the composed function: result, identity of the error / panic value, order and number of the
invocations of every leaf / condition / error future / handler).  TLC enumerates every tree up to a depth, checks the
algebraic laws of the model on each (LawInv inside Check) and prints the tree with the expected observation of two calls
in a row; harness/cmd/vh-wrapalg builds the tree from the real constructors and methods, calls it twice, recovers escaped
panics and compares.  Time is not modelled (Delay / Jitter / After / Interval / TTL are out of scope), nor is concurrency
(Group, Go, Signal, Launch ... see C15).

Documented-vs-actual divergences sit behind the constant AsIs; the registered replay uses the as-is model; for every
switch the documented model is replayed as well and must be rejected by the real code with exactly the divergence's key."""
import copy, json, os, time

from vlib import tlc, harness, replay, findings
from props import c18c19_common as common

COMP = "wrapalg"
LEVEL = "model_checking"
WIDTH = 4            # TLC workers in total and harness shards: never more (a long job shares the machine)

SWITCHES = {
    "operation-observes-nil": ("wrapalg/worker/operation/observed",
                               "Worker.Operation(handler) is documented 'Only non-nil errors are observed', but the handler is "
                               "called with nil as well (worker.go: Operation -> Observe -> ob(wf.Run(ctx)))"),
}
ALLSW = set(SWITCHES)

WW = ["w.if", "w.when", "w.recover", "w.filter", "w.without", "w.errcheck", "w.while", "w.withcancel"]
WO = ["w.ignore", "w.must", "w.operation"]
OW = ["o.worker", "o.recover"]
OO = ["o.if", "o.when", "o.while", "o.withcancel"]
WR = ["w.check", "w.observe", "w.wait"]
OR = ["o.wait"]
HO = ["h.if", "h.when", "h.skip", "h.filter", "h.join", "h.prehook", "h.chain", "h.recover", "h.worker", "h.operation"]
HR = ["h.recoverpanic"]
FR = ["f.slice", "f.ignore", "f.producer"]
FO = ["f.if", "f.not", "f.when", "f.prehook", "f.posthook", "f.once", "f.reduce", "f.join", "f.translate"]
CORE_WW = ["w.if", "w.when", "w.recover", "w.without", "w.errcheck", "w.while", "w.withcancel"]
CORE_OO = ["o.when", "o.while"]
MODELLED = WW + WO + OW + OO + WR + OR + FO + FR + HO + HR + ["hl"] + ["wl", "ol", "fl"]


def _strs(xs):
    return "{" + ", ".join('"%s"' % x for x in xs) + "}"


def _job(name, note, depth, w="{}", o="{}", f="{}", conds="Conds2", checks="Checks2", excls="Excl1", filters=("drop", "swap"),
         ww=WW, wo=WO, ow=OW, oo=OO, wr=WR, orr=OR, fo=(), fr=(), h="{}", ho=(), hr=(), asis=ALLSW, emit="Emit", workers=1):
    defs = dict(WScripts=w, OScripts=o, FScripts=f, Conds=conds, Checks=checks, Excls=excls, Filters=_strs(filters),
                WWOps=_strs(ww), WOOps=_strs(wo), OWOps=_strs(ow), OOOps=_strs(oo), WRoots=_strs(wr), ORoots=_strs(orr),
                FOps=_strs(fo), FRoots=_strs(fr), HScripts=h, HOps=_strs(ho), HRoots=_strs(hr), MaxDepth=str(depth), Fuel="6", AsIs=_strs(sorted(asis)))
    mod = "X05_" + name
    text = "\n".join(["INIT EnumInit", "NEXT EnumNext", "CONSTANTS"] + ["  %s <- MC_%s" % (k, k) for k in defs]
                     + ["CONSTRAINT " + emit, "CHECK_DEADLOCK FALSE"]) + "\n"
    module = "---- MODULE %s ----\nEXTENDS WrapAlgebra\n%s\n====\n" % (mod, "\n".join("MC_%s == %s" % kv for kv in defs.items()))
    kw = dict(comp=COMP, module=mod, cfg=mod + ".cfg", workers=workers, timeout=900, files={mod + ".cfg": text, mod + ".tla": module})
    return name, kw, note


def _first(alpha, n, firsts):
    """scripts over alpha of length <= n whose first outcome is in firsts (the empty script goes with the first group)"""
    return "{s \\in Scripts(%s, %d) : %s}" % (alpha, n, " \\/ ".join(
        (["s = <<>>"] if firsts[0] == "" else []) + ["(s # <<>> /\\ s[1] \\in %s)" % _strs([x for x in firsts if x])]))


def plan(tier):
    F2 = "Scripts({1, 2}, 2) \\ {<<>>}"
    H2 = "Scripts({\"ret\", \"p1\"}, 2)"
    full = dict(conds="Conds4", checks="Checks3", excls="Excl3", filters=("drop", "swap", "keep"))
    if tier == "quick":
        return [
            _job("w_a", "Worker/Operation trees of depth <= 2 over worker leaves whose script starts with nil / e1 (or is empty)", 2,
                 w=_first("W4", 2, ["", "nil", "e1"]), **full),
            _job("w_b", "Worker/Operation trees of depth <= 2 over worker leaves whose script starts with panic / cancel", 2,
                 w=_first("W4", 2, ["p1", "cancel"]), **full),
            _job("o_c", "Worker/Operation trees of depth <= 2 over operation leaves; Handler trees of depth <= 2 (Handler.Worker / Operation "
                 "give further Worker / Operation trees)", 2, o="Scripts(O3, 2)", h=H2, ho=HO, hr=HR, **full),
            _job("f_d", "Future trees of depth <= 2, all future combinators", 2, f=F2, fo=FO, fr=FR, conds="Conds4", wr=(), orr=()),
        ]
    core = dict(ww=CORE_WW, oo=CORE_OO, conds="Conds2", checks="Checks2", excls="Excl1", filters=())
    return [
        _job("w2_a", "depth <= 2, all combinators and parameters, worker scripts over 5 outcomes starting with nil / e1 / e2", 2,
             w=_first("W5", 2, ["", "nil", "e1", "e2"]), **full),
        _job("w2_b", "depth <= 2, all combinators and parameters, worker scripts over 5 outcomes starting with panic / cancel", 2,
             w=_first("W5", 2, ["p1", "cancel"]), **full),
        _job("o2_c", "depth <= 2, all combinators and parameters, operation leaves", 2, o="Scripts(O3, 2)", **full),
        _job("f3_d", "Future trees of depth <= 3", 3, f="(Scripts({1, 2}, 1) \\ {<<>>}) \\cup {<<1, 2>>}", fo=FO, fr=FR, conds="Conds2", wr=(), orr=()),
        _job("w3_a", "depth <= 3 over the core combinators, worker scripts of length <= 1", 3, w="Scripts(W4, 1)", **core),
        _job("w3_b", "depth <= 3 over the core combinators, worker scripts of length 2 starting with nil / cancel", 3,
             w="{s \\in Scripts(W4, 2) : Len(s) = 2 /\\ s[1] \\in {\"nil\", \"cancel\"}}", **core),
        _job("o3_c", "depth <= 3 over the core combinators, operation scripts of length <= 2", 3, o="Scripts(O3, 2)", **core),
        _job("f2_e", "Future trees of depth <= 2, scripts of length <= 2, all condition scripts", 2, f=F2, fo=FO, fr=FR, conds="Conds4", wr=(), orr=()),
        _job("h2_f", "Handler trees of depth <= 2 and the Worker / Operation trees over Handler.Worker / Handler.Operation, all combinators", 2,
             h=H2, ho=HO, hr=HR, **full),
        _job("h3_g", "Handler trees of depth <= 3 (without Chain), handler scripts of length <= 1", 3, h="Scripts({\"ret\", \"p1\"}, 1)", ho=[o for o in HO if o != "h.chain"], hr=HR,
             ww=["w.recover"], wo=["w.ignore"], ow=[], oo=["o.when"], wr=["w.check"], orr=[], conds="Conds2"),
    ]


def _run_jobs(jobs):
    res = {}
    for i in range(0, len(jobs), WIDTH):
        res.update(common.run_tlc_parallel([(n, kw) for n, kw, _ in jobs[i:i + WIDTH]]))
    return res


def size(t):
    return 1 + sum(size(k) for k in t["kids"])


def ops_of(t):
    s = {t["op"]}
    for k in t["kids"]:
        s |= ops_of(k)
    return s


def short(t):
    a = []
    for k in ("script", "cs", "excl"):
        if t[k]:
            a.append(",".join(str(x) for x in t[k]))
    if t["fn"]:
        a.append(t["fn"])
    if t["op"].endswith(".if") or t["op"] == "f.not":
        a.append(str(t["b"]).lower())
    a += [short(k) for k in t["kids"]]
    return t["op"] + "(" + ";".join(a) + ")"


def _nontrivial(b):
    return size(b["term"]) >= 3 or any(c["k"] in ("panic", "err") for c in b["calls"])


def _primary(rep, binary, behs):
    """Attribution: the failure key names the ROOT combinator of the failing term.  Every sub-tree of an enumerated term is
    an enumerated term itself, so a failing term whose operand already fails on its own only inherits that failure; such
    terms are counted (coverage.inherited_failures) and left out, and the verdict pass (capped_replay: re-run in isolation,
    report) sees the passing terms and the smallest, primary failures.  On the unchanged tree nothing fails and nothing
    is left out."""
    items = [dict(n=i, beh=b) for i, b in enumerate(behs)]
    outs, _ = harness.run_sharded(binary, ["replay"], items, shards=WIDTH, timeout=600)
    failing = {o["n"] for o in outs if "n" in o and "begin" not in o and not o.get("ok")}
    if not failing:
        return behs
    canon = lambda t: json.dumps(t, sort_keys=True)
    bad_terms = {canon(behs[i]["term"]) for i in failing}
    inherited = {i for i in failing if any(canon(k) in bad_terms for k in behs[i]["term"]["kids"])}
    rep.cov["inherited_failures"] = len(inherited)
    rep.cov["primary_failures_first_pass"] = len(failing) - len(inherited)
    return [b for i, b in enumerate(behs) if i not in inherited]


def _one(binary, beh):
    rc, outs, err = harness.run(binary, ["replay"], [dict(n=0, beh=beh)], timeout=60)
    res = [o for o in outs if o.get("n") == 0 and "begin" not in o]
    return res[0] if res else dict(ok=None, what="no result: " + err[-300:])


def _corrupt_tests(rep, binary, behs):
    """deterministic self-tests of the binding: in one accepted term ONE expected value is replaced by an impossible one
    and the replayer must reject it at exactly that call with exactly that aspect"""
    def bump(c):
        c["cnt"][0]["n"] += 7
    tests = [
        ("expected invocation count of a leaf under While raised by 7", lambda b: b["term"]["op"] == "w.while" and b["calls"][1]["cnt"],
         1, bump, "count"),
        ("expected result of Ignore(worker) becomes err", lambda b: b["term"]["op"] == "w.ignore" and b["calls"][0]["k"] == "ret",
         0, lambda c: c.__setitem__("k", "err"), "result"),
        ("expected identity of a recovered panic loses 'recovered'", lambda b: b["term"]["op"] == "w.recover" and "recovered" in b["calls"][0]["ids"],
         0, lambda c: c["ids"].remove("recovered"), "error-identity"),
        ("expected panic of Must becomes a return", lambda b: b["term"]["op"] == "w.must" and b["calls"][0]["k"] == "panic",
         0, lambda c: (c.__setitem__("k", "ret"), c.__setitem__("ids", [])), "result"),
        ("expected order of invocations reversed (condition after the worker)", lambda b: b["term"]["op"] == "w.when" and len(set(b["calls"][0]["order"])) >= 2,
         0, lambda c: c["order"].reverse(), "order"),
        ("expected Check result flipped", lambda b: b["term"]["op"] == "w.check" and b["calls"][1]["k"] == "false",
         1, lambda c: c.__setitem__("k", "true"), "result"),
        ("what the handler of Operation observed becomes nil", lambda b: b["term"]["op"] == "w.operation" and any(not s["isnil"] for s in b["calls"][0]["seen"]),
         0, lambda c: [s.__setitem__("isnil", True) for s in c["seen"]], "observed"),
        ("expected value of a future Join becomes 99", lambda b: b["term"]["op"] == "f.join", 1, lambda c: c.__setitem__("v", 99), "value"),
        ("expected result of Future.Ignore becomes a value", lambda b: b["term"]["op"] == "f.ignore", 0, lambda c: c.__setitem__("k", "val"), "result"),
        ("the argument a handler leaf under Handler.Filter saw becomes 5", lambda b: b["term"]["op"] == "h.filter" and b["calls"][0]["seen"],
         0, lambda c: c["seen"][0].__setitem__("arg", 5), "observed"),
        ("expected count of the leaf under Future.Once raised by 7", lambda b: b["term"]["op"] == "f.once" and b["calls"][1]["cnt"], 1, bump, "count"),
    ]
    for name, pred, call, mutate, aspect in tests:
        cand = sorted((b for b in behs if pred(b)), key=lambda b: (size(b["term"]), json.dumps(b, sort_keys=True)))
        if not cand:
            rep.self_test("binding: %s" % name, False, "no such term among %d" % len(behs))
            continue
        good = cand[0]
        r1 = _one(binary, good)
        bad = copy.deepcopy(good)
        mutate(bad["calls"][call])
        r2 = _one(binary, bad)
        ok = r1.get("ok") is True and r2.get("ok") is False and r2.get("aspect") == aspect and r2.get("call") == call
        rep.self_test("binding: %s -> accepted unchanged, rejected corrupted (call %d, %s)" % (name, call + 1, aspect), ok,
                      "term=%s unchanged=%s corrupted=%s" % (short(good["term"]), json.dumps(r1)[:100], json.dumps(r2)[:220]))


def _documented(rep, binary, known):
    """every switch: (1) TLC finds the documentation's promise (DocLaws) violated in the as-is model and satisfied in the
    documented one; (2) the terms of the DOCUMENTED model are rejected by the real code with the divergence's key only"""
    divs = rep.cov.setdefault("divergences", [])
    for sw, (key, what) in sorted(SWITCHES.items()):
        small = dict(w="Scripts({\"nil\", \"e1\", \"p1\"}, 2)", ww=["w.recover", "w.if"], wo=["w.operation"], ow=[], oo=[], wr=[], orr=[])
        jobs = [_job("doc_model", "documented model (switch %s off): terms + DocLaws" % sw, 2, asis=ALLSW - {sw}, emit="EmitDoc", **small),
                _job("doc_asis", "as-is model with DocLaws: TLC must report the promise violated", 2, emit="EmitDoc", **small)]
        res = _run_jobs(jobs)
        r, ra = res["doc_model"], res["doc_asis"]
        ra.tagged.pop("BEH", None)
        ra.expected_violation = True
        rep.add_tlc("WrapAlgebra/doc_model", r, jobs[0][2])
        rep.add_tlc("WrapAlgebra/doc_asis", ra, jobs[1][2])
        rep.self_test("switch %s: TLC finds the documented promise (DocLaws) violated in the as-is model" % sw,
                      (not ra.ok) and "DOCLAW violated" in ra.out, ra.out[-300:] if ra.ok else "")
        if not r.ok:
            rep.infra_error("documented-model generation failed: %s" % r.out[-800:])
            continue
        behs = replay.dedupe(r.tagged.get("BEH", []))
        items = [dict(n=i, beh=b) for i, b in enumerate(behs)]
        outs, meta = harness.run_sharded(binary, ["replay"], items, shards=2, timeout=300)
        results = {o["n"]: o for o in outs if "n" in o and "begin" not in o}
        bad = [o for o in results.values() if not o.get("ok")]
        keys = sorted({o.get("key") for o in bad})
        ok = len(results) == len(items) and keys == [key]
        rep.self_test("divergence %s: the documented model is rejected by the real code with %s only" % (sw, key), ok,
                      "%d of %d terms rejected, keys %s" % (len(bad), len(items), keys))
        if ok:
            bad.sort(key=lambda o: (size(items[o["n"]]["beh"]["term"]), o["n"]))
            ex = bad[0]
            divs.append(dict(switch=sw, key=key, what=what, rejected=len(bad), of=len(items),
                             example=short(items[ex["n"]]["beh"]["term"]) + ": " + ex.get("what", ""), listed_as_known=key in known))
            if key in known:
                rep.violation(key, what + ": " + ex.get("what", ""), dict(behaviour=items[ex["n"]], asis=sorted(ALLSW - {sw})))


def run(rep, tier, seed, replay_file=None):
    rep.assumptions += [
        "TLC is sound; exhaustive claims hold for the generated configurations only (trees up to depth 2, resp. 3 over the core "
        "combinators; scripts of length <= 2 over nil / err1 / err2 / panic(err1) / cancel; two calls in a row)",
        "everything is sequential and untimed: Delay / Jitter / After / Interval / TTL / WithTimeout, Group / StartGroup / Go / "
        "Signal / Launch / Background and the combinators of C15 (Once, Limit, Lock, Retry, Join, PreHook, PostHook) are not in X05",
        "an exhausted worker leaf cancels its call's context and returns errEx, an exhausted operation leaf cancels it (so that "
        "While terminates); terms whose loops exceed the fuel of 6 iterations (e.g. While(If(false))) are not emitted",
        "error identity is judged with errors.Is against err1, err2, errEx, context.Canceled, ers.ErrRecoveredPanic, "
        "ers.ErrInvariantViolation; error messages are not compared",
        "the cancel function returned by WithCancel is never called; only its binding of the first call's context is modelled",
        "the check is deterministic: the seed does not influence the enumerated terms",
    ]
    binary = harness.build("vh-wrapalg")
    phases = rep.cov.setdefault("phase_s", {})
    known = dict(findings.known_keys(rep.prop))
    if replay_file:
        obj = json.load(open(replay_file))["replay"]
        common.capped_replay(rep, binary, ["replay"], [obj["behaviour"]["beh"]], shards=1, label="wrapalg", size=lambda b: size(b["term"]))
        return

    jobs = plan(tier)
    t0 = time.time()
    res = _run_jobs(jobs)
    phases["tlc"] = round(time.time() - t0, 1)
    behs = []
    for name, kw, note in jobs:
        r = res[name]
        rep.add_tlc("WrapAlgebra/" + name, r, note)
        if not r.ok:
            rep.infra_error("term generation %s failed (%s): %s" % (name, r.violated, r.out[-1500:]))
            return
        b = r.tagged.get("BEH", [])
        rep.cov.setdefault("terms", {})[name] = len(b)
        rep.cov.setdefault("terms_not_emitted_diverging", {})[name] = r.distinct - len(b)
        behs.extend(b)
        del r.tagged["BEH"]
    behs = replay.dedupe(behs)
    # vacuity audit: every modelled combinator occurs in the replayed terms; so do escaped panics, errors, cancellations
    seen = set()
    for b in behs:
        seen |= ops_of(b["term"])
    missing = sorted(set(MODELLED) - seen)
    rep.self_test("every modelled combinator occurs in the replayed terms", not missing, "missing: %s" % missing)
    kinds = {}
    for b in behs:
        for c in b["calls"]:
            kinds[c["k"]] = kinds.get(c["k"], 0) + 1
    rep.cov["ops_exercised"] = sorted(seen)
    rep.cov["call_results_expected"] = kinds
    idsets = sorted({",".join(sorted(c["ids"])) for b in behs for c in b["calls"]})
    rep.cov["error_identities_expected"] = idsets
    rep.self_test("expected results cover nil, err, ret, panic, true, false, val; identities cover ctx, recovered, invariant, ex",
                  all(k in kinds for k in ("nil", "err", "ret", "panic", "true", "false", "val")) and
                  all(any(x in s.split(",") for s in idsets) for x in ("ctx", "recovered", "invariant", "ex", "e1")),
                  "%s %s" % (kinds, idsets))
    rep.cov["exhaustive"] = True    # every tree of the configured bounds is enumerated (minus the diverging ones, which are counted)
    t0 = time.time()
    behs = _primary(rep, binary, behs)
    try:
        common.capped_replay(rep, binary, ["replay"], behs, shards=WIDTH, label="wrapalg", nontrivial=_nontrivial, cap=2,
                             size=lambda b: size(b["term"]), timeout=600)
    except harness.InfraError as e:
        rep.infra_error("wrapalg: %s" % e)
    phases["replay"] = round(time.time() - t0, 1)
    pick = [b for b in behs if size(b["term"]) == 3 and b["calls"][0]["k"] in ("err", "panic")]
    if pick:
        b = pick[len(pick) // 2]
        rep.sample(dict(kind="replayed term", term=short(b["term"]), calls=b["calls"]))
    t0 = time.time()
    _corrupt_tests(rep, binary, behs)
    _documented(rep, binary, known)
    phases["selftests"] = round(time.time() - t0, 1)
    rep.cov["rule"] = ("terms = every combinator tree of WrapAlgebra up to the configured depth over scripted leaves, built from the real "
                       "fun.Worker / fun.Operation / fun.Future constructors and methods and called twice in a row; compared per call: kind "
                       "of result, errors.Is identity of the error or of the escaped panic value, future value, what handlers observed, "
                       "number and order of invocations of every leaf / condition / error future / handler; non-trivial = tree of >= 3 "
                       "nodes or an error / escaped panic expected; divergences = documented model rejected with the divergence key")
