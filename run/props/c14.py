"""C14 fun.WaitGroup: Wait returns iff the counter is zero or its context ended."""
import os, random
from vlib import tlc, harness, replay

COMP = "waitgroup"


def run(rep, tier, seed, replay_file=None):
    quick = tier == "quick"
    rep.assumptions += [
        "TLC is sound; Go sync.Mutex/sync.Cond/context behave as modelled in spec/waitgroup/WaitGroup.tla",
        "a goroutine snapshot with no running/runnable goroutine is a fixed point (rt.Quiesce, DESIGN 3.3)",
        "exhaustive claims hold for the constants of the cfg files only",
    ]
    if replay_file:
        import json
        obj = json.load(open(replay_file))["replay"]
        binary = harness.build("vh-waitgroup")
        if "storm" in obj:
            r, k, p = obj["storm"]
            for attempt in range(3):        # the storm samples a race: three attempts
                rc, outs, err = harness.run(binary, ["storm", str(r), str(k), str(p)], None, 900)
                o = next((x for x in outs if "storm" in x), None)
                if o and o.get("stuck", 0) > 0:
                    rep.violation("waitgroup/wait-stuck", "storm %s: %d Wait call(s) blocked at quiescence with counter 0" % ((r, k, p), o["stuck"]), obj)
                    break
            rep.add_cases([dict(storm=r, k=k, procs=p)])
        else:
            beh = obj.get("behaviour", obj.get("beh"))
            if isinstance(beh, dict):
                beh = beh.get("beh", beh)
            rc, outs, err = harness.run(binary, ["replay"], [dict(n=0, beh=beh)], timeout=120)
            res = [o for o in outs if o.get("n") == 0 and "begin" not in o]
            if res and not res[0].get("ok"):
                rep.violation(res[0].get("key", "waitgroup/replay"), res[0].get("what", ""), obj)
            elif not res:
                rep.infra_error("replay produced no result: " + err[-400:])
            rep.add_cases([beh])
        rep.cov["states"] = rep.cov["transitions"] = 1   # no model checking in a replay run
        rep.sample(dict(kind="saved case re-run", file=replay_file))
        rep.cov["rule"] = "re-run of one saved case"
        return
    # unbounded part (runs beside everything else): Apalache + TLAPS prove the safety invariants of WaitGroup.tla
    # (counter >= 0, counter = sum of completed Adds, mutex exclusion, NoEarlyReturn) for any number of waiters
    import threading
    from props import proofs
    pt = threading.Thread(target=proofs.run_proofs, args=(rep, ["waitgroup"], tier))
    pt.start()
    try:
        _run(rep, tier, seed, quick)
    finally:
        pt.join()


def _run(rep, tier, seed, quick):
    # 1. design level: every interleaving of the implementation-shaped spec
    cfgs = ["MC_small.cfg"] if quick else ["MC_small.cfg", "MC_full.cfg"]
    for cfg in cfgs:
        r = tlc.run_tlc(COMP, "WaitGroup", cfg, workers=8 if quick else 16, timeout=1500)
        rep.add_tlc("WaitGroup/" + cfg, r, "Impl spec: NoEarlyReturn CounterIsSum NoStuck NoLeak + liveness Settles")
        if not r.ok:
            rep.infra_error("model check of WaitGroup/%s failed (%s): the Impl spec no longer satisfies the property - "
                            "spec and code must be re-aligned\n%s" % (cfg, r.violated, r.out[-1500:]))
            return
    # the as-is variant (helper broadcasts without the mutex) must still show the lost wake-up:
    # this is the self-test that NoStuck is not vacuous.
    r = tlc.run_tlc(COMP, "WaitGroup", "MC_asis.cfg", workers=4, timeout=300)
    rep.self_test("NoStuck-not-vacuous (unlocked helper loses the wake-up in the model)", r.violated == "NoStuck", str(r.brief()))

    # 2. model -> code: behaviours of the abstract stepped spec
    behs = []
    r = tlc.run_tlc(COMP, "WaitGroupStep", "Step_edge.cfg", workers=4, timeout=600)
    rep.add_tlc("WaitGroupStep/Step_edge.cfg", r, "one shortest behaviour per edge of the abstract state graph")
    if not r.ok:
        rep.infra_error("behaviour generation failed: " + r.out[-1500:])
        return
    edge = replay.dedupe(r.tagged.get("BEH", []))
    if quick:
        random.Random(seed).shuffle(edge)
        edge = edge[:2500]
    else:
        rep.cov["exhaustive"] = True
        ra = tlc.run_tlc(COMP, "WaitGroupStep", "Step_all.cfg", workers=8, timeout=900)
        rep.add_tlc("WaitGroupStep/Step_all.cfg", ra, "all driver schedules of length Depth")
        if not ra.ok:
            rep.infra_error("behaviour generation (all) failed: " + ra.out[-1500:])
            return
        behs += ra.tagged.get("BEH", [])
    behs += edge
    rs = tlc.run_tlc(COMP, "WaitGroupStep", "Step_sim.cfg", workers=1, simulate=dict(num=300 if quick else 3000),
                     depth=16, seed=seed, timeout=600)
    if not rs.ok:
        rep.infra_error("behaviour simulation failed: " + rs.out[-1500:])
        return
    behs += rs.tagged.get("BEH", [])
    behs = replay.dedupe(behs)
    binary = harness.build("vh-waitgroup")
    env = {"GOMAXPROCS": str(1 + seed % 4)}
    replay.replay(rep, binary, ["replay"], behs, shards=14, env_extra=env, label="waitgroup",
                  nontrivial=lambda b: any(s["blocked"] for s in b))
    rep.sample(dict(kind="replayed behaviour", steps=behs[len(behs) // 2]))
    # self-test of the binding: a behaviour with a wrong expectation must be rejected
    bad = [dict(op="add", arg=1, panic=False, blocked=[], num=1), dict(op="wait", arg="w1", panic=False, blocked=[], num=1)]
    rc, outs, err = harness.run(binary, ["replay"], [dict(n=0, beh=bad)], timeout=60)
    res = [o for o in outs if o.get("n") == 0 and "begin" not in o]
    rep.self_test("replayer rejects a wrong expectation", bool(res) and not res[0].get("ok"), str(res)[:200])

    # 2b. storm: the state invariant of WaitGroupStep (Inv: counter = 0 => blocked = {}) judged at one quiescent point
    # after thousands of unsynchronised rounds (k waiters and the last Done released from a barrier): the Done lands
    # at every point of the waiters' entry sequence, including windows no yield point marks
    import concurrent.futures as cf
    plans = [(4000 if quick else 40000, k, p) for (k, p) in ((2, 4), (4, 2), (8, 4), (16, 8))]
    with cf.ThreadPoolExecutor(max_workers=4) as ex:
        futs = [ex.submit(harness.run, binary, ["storm", str(r), str(k), str(p)], None, 900) for (r, k, p) in plans]
        storm_cases = []
        for (r, k, p), f in zip(plans, futs):
            rc, outs, err = f.result()
            o = next((x for x in outs if "storm" in x), None)
            if o is None:
                if harness.crash_origin(err) == "library":
                    rep.violation("waitgroup/storm/process-crash", err[-1500:], dict(storm=[r, k, p], stderr=err[-3000:]))
                else:
                    rep.infra_error("storm %s produced no result: %s" % ((r, k, p), err[-400:]))
            elif o.get("inconclusive"):
                rep.cov["inconclusive"] = rep.cov.get("inconclusive", 0) + 1
            elif o.get("stuck", 0) > 0:
                rep.violation("waitgroup/wait-stuck", "storm of %d rounds (k=%d waiters + the last Done from a barrier, GOMAXPROCS %d): "
                              "%d Wait call(s) still blocked at quiescence although their counter is 0 and their context is live "
                              "(first in round %d)" % (r, k, p, o["stuck"], o["first"]), dict(storm=[r, k, p], result=o))
            else:
                storm_cases.append(dict(storm=r, k=k, procs=p))
        rep.add_cases(storm_cases)
        rep.cov["storm_rounds"] = sum(c["storm"] for c in storm_cases)

    # 3. code -> model: concurrent histories validated by TLC against the abstract spec
    from props import c14_trace
    c14_trace.validate(rep, binary, tier, seed)
    rep.cov["rule"] = ("behaviours = driver schedules of WaitGroupStep (edge cover + random; thorough: all of length 4) "
                       "replayed step by step with observation at quiescence; non-trivial = at least one Wait call is "
                       "blocked at some step; storms = rounds of k waiters + the last Done released from a barrier, judged at one final "
                       "quiescent point (counter 0 => nobody blocked); histories = random concurrent runs validated by WaitGroupTrace")
