"""C14 fun.WaitGroup: Wait returns iff the counter is zero or its context ended."""
import os, random
from vlib import tlc, harness, replay

COMP = "waitgroup"


def run(rep, tier, seed, replay_file=None):
    quick = tier == "quick"
    rep.assumptions += [
        "TLC is sound; Go sync.Mutex/sync.Cond/context behave as modelled in spec/waitgroup/WaitGroup.tla",
        "a goroutine snapshot with no running/runnable goroutine is a fixed point (rt.Quiesce, DESIGN 3.3)",
        "exhaustive claims hold for the constants of the cfg files only",
    ]
    # unbounded part (runs beside everything else): Apalache + TLAPS prove the safety invariants of WaitGroup.tla
    # (counter >= 0, counter = sum of completed Adds, mutex exclusion, NoEarlyReturn) for any number of waiters
    import threading
    from props import proofs
    pt = threading.Thread(target=proofs.run_proofs, args=(rep, ["waitgroup"], tier))
    pt.start()
    try:
        _run(rep, tier, seed, quick)
    finally:
        pt.join()


def _run(rep, tier, seed, quick):
    # 1. design level: every interleaving of the implementation-shaped spec
    cfgs = ["MC_small.cfg"] if quick else ["MC_small.cfg", "MC_full.cfg"]
    for cfg in cfgs:
        r = tlc.run_tlc(COMP, "WaitGroup", cfg, workers=8 if quick else 16, timeout=1500)
        rep.add_tlc("WaitGroup/" + cfg, r, "Impl spec: NoEarlyReturn CounterIsSum NoStuck NoLeak + liveness Settles")
        if not r.ok:
            rep.infra_error("model check of WaitGroup/%s failed (%s): the Impl spec no longer satisfies the property - "
                            "spec and code must be re-aligned\n%s" % (cfg, r.violated, r.out[-1500:]))
            return
    # the as-is variant (helper broadcasts without the mutex) must still show the lost wake-up:
    # this is the self-test that NoStuck is not vacuous.
    r = tlc.run_tlc(COMP, "WaitGroup", "MC_asis.cfg", workers=4, timeout=300)
    rep.self_test("NoStuck-not-vacuous (unlocked helper loses the wake-up in the model)", r.violated == "NoStuck", str(r.brief()))

    # 2. model -> code: behaviours of the abstract stepped spec
    behs = []
    r = tlc.run_tlc(COMP, "WaitGroupStep", "Step_edge.cfg", workers=4, timeout=600)
    rep.add_tlc("WaitGroupStep/Step_edge.cfg", r, "one shortest behaviour per edge of the abstract state graph")
    if not r.ok:
        rep.infra_error("behaviour generation failed: " + r.out[-1500:])
        return
    edge = replay.dedupe(r.tagged.get("BEH", []))
    if quick:
        random.Random(seed).shuffle(edge)
        edge = edge[:2500]
    else:
        rep.cov["exhaustive"] = True
        ra = tlc.run_tlc(COMP, "WaitGroupStep", "Step_all.cfg", workers=8, timeout=900)
        rep.add_tlc("WaitGroupStep/Step_all.cfg", ra, "all driver schedules of length Depth")
        if not ra.ok:
            rep.infra_error("behaviour generation (all) failed: " + ra.out[-1500:])
            return
        behs += ra.tagged.get("BEH", [])
    behs += edge
    rs = tlc.run_tlc(COMP, "WaitGroupStep", "Step_sim.cfg", workers=1, simulate=dict(num=300 if quick else 3000),
                     depth=16, seed=seed, timeout=600)
    if not rs.ok:
        rep.infra_error("behaviour simulation failed: " + rs.out[-1500:])
        return
    behs += rs.tagged.get("BEH", [])
    behs = replay.dedupe(behs)
    binary = harness.build("vh-waitgroup")
    env = {"GOMAXPROCS": str(1 + seed % 4)}
    replay.replay(rep, binary, ["replay"], behs, shards=14, env_extra=env, label="waitgroup",
                  nontrivial=lambda b: any(s["blocked"] for s in b))
    rep.sample(dict(kind="replayed behaviour", steps=behs[len(behs) // 2]))
    # self-test of the binding: a behaviour with a wrong expectation must be rejected
    bad = [dict(op="add", arg=1, panic=False, blocked=[], num=1), dict(op="wait", arg="w1", panic=False, blocked=[], num=1)]
    rc, outs, err = harness.run(binary, ["replay"], [dict(n=0, beh=bad)], timeout=60)
    res = [o for o in outs if o.get("n") == 0 and "begin" not in o]
    rep.self_test("replayer rejects a wrong expectation", bool(res) and not res[0].get("ok"), str(res)[:200])

    # 3. code -> model: concurrent histories validated by TLC against the abstract spec
    from props import c14_trace
    c14_trace.validate(rep, binary, tier, seed)
    rep.cov["rule"] = ("behaviours = driver schedules of WaitGroupStep (edge cover + random; thorough: all of length 4) "
                       "replayed step by step with observation at quiescence; non-trivial = at least one Wait call is "
                       "blocked at some step; histories = random concurrent runs validated by WaitGroupTrace")
