"""C05 pubsub.Queue is a linearizable bounded FIFO (and, via check(), C06 for the Deque)."""
import random
from vlib import tlc, harness, replay, trace
from props import qcommon

def run(rep, tier, seed, replay_file=None):
    check(rep, tier, seed, "queue", "Queue")


def check(rep, tier, seed, COMP, Name):
    quick = tier == "quick"
    sub = [COMP]
    rep.assumptions += [
        "TLC is sound; sequential meaning = spec/%s/%sCore.tla + spec/lib/Tracker.tla" % (COMP, Name),
        "burst credit: exact rationals in the spec; a float64 comparison is only treated as ambiguous at exact equality after a non-dyadic amount was added",
        "global atomic sequence numbers: ret(A) < call(B) implies A finished before B started",
    ]
    binary = harness.build("vh-queue")
    # unbounded part (runs beside everything else): Apalache inductive step + TLAPS proof of the tracker arithmetic
    # (all hard limits / quotas / credits) and of the FIFO kernel (added = removed o items, Len = tracker.len <= hard)
    import threading
    from props import proofs
    pt = threading.Thread(target=proofs.run_proofs, args=(rep, ["tracker", "queue"] if COMP == "queue" else ["tracker"], tier))
    pt.start()
    try:
        _check(rep, tier, seed, COMP, Name, quick, sub, binary)
    finally:
        pt.join()


def _check(rep, tier, seed, COMP, Name, quick, sub, binary):
    # (a) model -> code, sequential: exact results, Len and contents after every behaviour
    r = tlc.run_tlc(COMP, Name + "Seq", "Seq_edge.cfg", workers=6, timeout=600)
    rep.add_tlc(Name + "Seq/Seq_edge.cfg", r, "edge cover of the sequential state graph, all option sets")
    if not r.ok:
        rep.infra_error(Name + "Seq edge generation failed: " + r.out[-1200:])
        return
    behs = replay.dedupe(r.tagged.get("BEH", []))
    if quick:
        random.Random(seed).shuffle(behs)
        behs = behs[:4000]
    else:
        ra = tlc.run_tlc(COMP, Name + "Seq", "Seq_all.cfg", workers=12, timeout=1200, heap="8g")
        rep.add_tlc(Name + "Seq/Seq_all.cfg", ra, "every operation sequence of length Depth")
        if not ra.ok:
            rep.infra_error(Name + "Seq all-sequences generation failed: " + ra.out[-1200:])
            return
        behs += ra.tagged.get("BEH", [])
        rep.cov["exhaustive"] = True
    rs = tlc.run_tlc(COMP, Name + "Seq", "Seq_sim.cfg", workers=1, simulate=dict(num=300 if quick else 4000), depth=45,
                     seed=seed, timeout=900)
    if not rs.ok:
        rep.infra_error(Name + "Seq simulation failed: " + rs.out[-1200:])
        return
    behs = replay.dedupe(behs + rs.tagged.get("BEH", []))
    replay.replay(rep, binary, ["seq"] + sub, behs, shards=12, label=COMP + "/seq",
                  nontrivial=lambda b: len({s["res"] for s in b}) > 2)
    rep.sample(dict(kind="sequential behaviour (op,arg,res,len)", steps=[(s["op"], s["arg"], s["res"], s["len"]) for s in behs[len(behs) // 3]]))
    bad = [dict(behs[0][0]), dict(op="remove" if COMP == "queue" else "popf", arg="", res="v1", amb=False, len=0, items=[], hard=0, soft=0, credit=0)]
    rc, outs, err = harness.run(binary, ["seq"] + sub, [dict(n=0, beh=bad)], timeout=60)
    res = [o for o in outs if o.get("n") == 0 and "begin" not in o]
    rep.self_test("sequential replayer rejects a wrong expectation", bool(res) and not res[0].get("ok"), str(res)[:200])

    # (b) code -> model: concurrent histories, linearizability + quiescence obligations
    hists = qcommon.record(rep, binary, 240 if quick else 3000, seed, sub=COMP)
    trace.validate_all(rep, COMP, Name + "LinTrace", "LinTrace.cfg", hists, label=COMP + "/lin", shards=8,
                       key_fn=qcommon.lin_key(COMP))
    if hists:
        rep.sample(dict(kind="recorded concurrent history", events=hists[0][:14]))
        qcommon.corrupt_selftest(rep, COMP, Name + "LinTrace", "LinTrace.cfg", hists, Name + "LinTrace rejects a corrupted return value")
    # (c) model -> code -> model: BURST schedules of the stepped spec (several driver actions issued without waiting for
    # quiescence: Add+Add, Add+Cancel, Remove+Close ... before a woken goroutine runs), executed with GOMAXPROCS 1 and 4;
    # the recorded histories are validated for linearizability like the free-running ones
    r = tlc.run_tlc(COMP, Name + "Step", "Step_edge.cfg", workers=6, timeout=900)
    rep.add_tlc(Name + "Step/Step_edge.cfg", r, "edge cover of the abstract blocking state graph incl. burst steps -> driver schedules")
    if not r.ok:
        rep.infra_error(Name + "Step schedule generation failed: " + r.out[-1200:])
        return
    scheds = [b for b in replay.dedupe(r.tagged.get("BEH", [])) if qcommon.has_burst(b)]
    scheds, procs = qcommon.with_procs(qcommon.pick(scheds, quick, seed, short=4, rest=500))
    rep.cov["burst_schedules"] = len(scheds)
    bh = qcommon.run_schedules(rep, binary, "sched", scheds, shards=12, label=COMP + "/burst", which=COMP, procs=procs)
    trace.validate_all(rep, COMP, Name + "LinTrace", "LinTrace.cfg", bh, label=COMP + "/burst-lin", shards=8,
                       key_fn=qcommon.lin_key(COMP))
    if bh:
        rep.sample(dict(kind="burst schedule history", events=bh[len(bh) // 2][:14]))
    rep.cov["rule"] = ("sequential behaviours of QueueSeq (edge cover over all option sets + random deep; thorough: all sequences of "
                       "length 5 for 6 option sets) replayed with exact result/Len/contents comparison; concurrent histories "
                       "(2-4 goroutines, random ops, cancellations) validated for linearizability by QueueLinTrace; burst schedules of the stepped spec (driver actions "
                       "issued without waiting for quiescence, GOMAXPROCS 1 and 4) executed and validated likewise; "
                       "non-trivial = more than two distinct results / more than 4 events")
