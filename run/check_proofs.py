#!/usr/bin/env python3
"""Development driver for the unbounded proofs (spec/proofs, run/props/proofs.py):

    python3 run/check_proofs.py [--tier quick|thorough] [--jobs N] [tracker] [waitgroup] [queue] [--only ID-substring]

Runs every Apalache / tlapm job of the tier in scratch directories and prints a table.  Exit 0 when every
proof went through and every deliberately broken variant failed, 2 otherwise (never 1: a proof that does
not go through is not a verdict about the Go code)."""
import argparse, os, sys, time

sys.path.insert(0, os.path.dirname(os.path.abspath(__file__)))
from props import proofs  # noqa: E402


def main():
    ap = argparse.ArgumentParser()
    ap.add_argument("names", nargs="*", default=list(proofs.ALL))
    ap.add_argument("--tier", default="thorough", choices=["quick", "thorough"])
    ap.add_argument("--jobs", type=int, default=proofs.JOBS)
    ap.add_argument("--only", default=None, help="run only the jobs whose id contains this text")
    ap.add_argument("-v", action="store_true", help="print the tool output tail of every job")
    a = ap.parse_args()
    if a.only:
        orig = proofs.jobs_for
        proofs.jobs_for = lambda names, tier: [j for j in orig(names, tier) if a.only in j["id"]]
    t0 = time.time()
    res = proofs.run_all(a.names, a.tier, jobs=a.jobs)
    wall = time.time() - t0
    bad = 0
    print("%-10s %-18s %-9s %-8s %-8s %11s %7s  %s" % ("target", "job", "tool", "expect", "result", "obligations", "wall_s", ""))
    for r in sorted(res, key=lambda r: (proofs.ALL.index(r["name"]), r["expect"] != "proved", r["tool"], r["id"])):
        ok = proofs.as_expected(r)
        bad += not ok
        print("%-10s %-18s %-9s %-8s %-8s %5d/%-5d %7.1f  %s" % (
            r["name"], r["id"], r["tool"], r["expect"], r["result"], r["discharged"], r["obligations"],
            r["wall_s"], "ok" if ok else "<<< UNEXPECTED"))
        if a.v or not ok:
            print("    $ " + r["cmd"])
            print("    " + r["tail"].replace("\n", "\n    "))
    print("%d job(s), %d unexpected, tier=%s, wall %.1fs (sum of jobs %.1fs, %d at a time)" % (
        len(res), bad, a.tier, wall, sum(r["wall_s"] for r in res), a.jobs))
    sys.exit(2 if bad else 0)


if __name__ == "__main__":
    main()
