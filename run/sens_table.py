#!/usr/bin/env python3
"""Prints the sensitivity tables of DESIGN.md 0.7 from seeded/*/meta.json and run/mutants/RESULTS.jsonl
(latest result per (property, mutant))."""
import glob, json, os

V = os.path.dirname(os.path.dirname(os.path.abspath(__file__)))


def seeded():
    rows = []
    for m in sorted(glob.glob(os.path.join(V, "seeded", "*", "meta.json"))):
        d = json.load(open(m))
        res = []
        for pid, c in sorted(d.get("checks", {}).items()):
            res.append("%s: %s%s" % (pid, c["result"], (" (" + ", ".join(c["keys"][:2]) + ")") if c.get("keys") else ""))
        later = d.get("after_strengthening")
        rows.append((d["id"], d["property"], d.get("needs", ""), "; ".join(res) or "-", later or ""))
    print("| seeded change | property | needs | first run of the checks | after strengthening |")
    print("|---|---|---|---|---|")
    for r in rows:
        print("| %s | %s | %s | %s | %s |" % r)


def mutants():
    last = {}
    p = os.path.join(V, "run", "mutants", "RESULTS.jsonl")
    if os.path.exists(p):
        for l in open(p):
            d = json.loads(l)
            last[(d["prop"], d["mutant"])] = d
    print()
    print("| property | builder's mutant | result | keys |")
    print("|---|---|---|---|")
    for (prop, mut), d in sorted(last.items()):
        print("| %s | %s | %s | %s |" % (prop, mut.replace(".diff", ""), d["result"], ", ".join(d.get("keys", [])[:3])))
    n = sum(1 for d in last.values() if d["result"] == "caught")
    print("\ncaught %d of %d builder mutants" % (n, len(last)))


if __name__ == "__main__":
    seeded()
    mutants()
