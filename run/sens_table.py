#!/usr/bin/env python3
"""Prints the sensitivity tables of DESIGN.md 0.7 from seeded/*/meta.json and run/mutants/RESULTS.jsonl
(latest result per (property, mutant))."""
import glob, json, os

V = os.path.dirname(os.path.dirname(os.path.abspath(__file__)))


def latest():
    last = {}
    p = os.path.join(V, "run", "mutants", "RESULTS.jsonl")
    if os.path.exists(p):
        for l in open(p):
            d = json.loads(l)
            last[(d["prop"], d["mutant"])] = d
    return last


def seeded():
    rows = []
    last = latest()
    for m in sorted(glob.glob(os.path.join(V, "seeded", "*", "meta.json"))):
        d = json.load(open(m))
        res = []
        for pid, c in sorted(d.get("checks", {}).items()):
            res.append("%s: %s%s" % (pid, c["result"], (" (" + ", ".join(c["keys"][:2]) + ")") if c.get("keys") else ""))
        later = d.get("after_strengthening")
        if not later:
            again = ["%s: %s%s" % (p_, r["result"], (" (" + ", ".join(r["keys"][:2]) + ")") if r.get("keys") else "")
                     for (p_, m_), r in sorted(last.items()) if m_ == d["id"]]
            later = "; ".join(again)
        if d.get("judgement"):
            later = (later + " — " if later else "") + d["judgement"]
        rows.append((d["id"], d["property"], d.get("needs", ""), "; ".join(res) or "-", later or ""))
    print("| seeded change | property | needs | first run of the checks | after strengthening |")
    print("|---|---|---|---|---|")
    for r in rows:
        print("| %s | %s | %s | %s | %s |" % r)


def mutants():
    last = {k: v for k, v in latest().items() if k[1].endswith(".diff")}
    print()
    print("| property | builder's mutant | result | keys |")
    print("|---|---|---|---|")
    for (prop, mut), d in sorted(last.items()):
        print("| %s | %s | %s | %s |" % (prop, mut.replace(".diff", ""), d["result"], ", ".join(d.get("keys", [])[:3])))
    n = sum(1 for d in last.values() if d["result"] == "caught")
    print("\ncaught %d of %d builder mutants" % (n, len(last)))


if __name__ == "__main__":
    import io, sys
    if "--write-design" in sys.argv:
        buf = io.StringIO()
        old = sys.stdout
        sys.stdout = buf
        seeded()
        mutants()
        sys.stdout = old
        p = os.path.join(V, "DESIGN.md")
        s = open(p).read()
        a, b = s.index("<!-- SENS-BEGIN -->") + len("<!-- SENS-BEGIN -->"), s.index("<!-- SENS-END -->")
        open(p, "w").write(s[:a] + "\n" + buf.getvalue() + s[b:])
        print("DESIGN.md updated (%d lines)" % len(buf.getvalue().splitlines()))
    else:
        seeded()
        mutants()
