#!/usr/bin/env python3
"""Development aid (not a registered command): vacuity audit of the exhaustive Impl configurations.

Runs each listed (component, module, cfg) with `-coverage 1` and reports the actions that were never taken
(an action that never fires means the invariants were never exercised on it).  Output: a table on stdout and
run/coverage_audit.json.  python3 run/coverage_audit.py [name-filter]"""
import json, os, sys
sys.path.insert(0, os.path.dirname(os.path.abspath(__file__)))
from vlib import tlc

JOBS = [
    ("waitgroup", "WaitGroup", "MC_small.cfg"),
    ("queue", "QueueImpl", "MC_fixed.cfg"), ("deque", "DequeImpl", "MC_fixed.cfg"),
    ("queue", "QueueIter", "MC_iter_small.cfg"), ("deque", "DequeIter", "MC_iter_small_fwd.cfg"), ("deque", "DequeIter", "MC_iter_ring_rev.cfg"),
    ("srv", "ServiceImpl", "MC_quick.cfg"), ("srv", "OrchImpl", "OrchMC.cfg"), ("srv", "CleanupImpl", "CleanupMC.cfg"),
    ("srv", "DaemonImpl", "DaemonMC_gate.cfg"),
    ("pipeline", "Workers", "MC_map.cfg"), ("pipeline", "Workers", "MC_pp.cfg"), ("pipeline", "Workers", "MC_pbuf.cfg"),
    ("pipeline", "Split", "MC_split.cfg"), ("pipeline", "Merge", "MC_merge.cfg"), ("pipeline", "Generate", "MC_gen.cfg"),
    ("pipeline", "Buffer", "MC_buffer2.cfg"), ("pipeline", "FirstAdvance", "MC_firstadvance.cfg"),
    ("pipeline", "WorkersFault", "MC_wf_pp.cfg"), ("pipeline", "WorkersFault", "MC_wf_gen.cfg"),
    ("wrappers", "Once", "Once_MC.cfg"), ("wrappers", "Limit", "Limit_MC.cfg"), ("wrappers", "Limit", "OpLimit_MC.cfg"),
    ("wrappers", "Lock", "Lock_MC.cfg"), ("wrappers", "Retry", "Retry_MC.cfg"), ("wrappers", "Hooks", "Hooks_MC.cfg"),
    ("wrappers", "Launch", "Launch_MC.cfg"),
    ("list", "ListImpl", "Impl_fixed.cfg"),
    ("broker", "BrokerImpl", "MC_small.cfg"), ("broker", "BrokerImpl", "MC_progress.cfg"), ("broker", "BrokerImpl", "MC_shutdown.cfg"),
    ("lock", "LockDiscipline", "MC.cfg"),
    ("chan", "ChanOp", "MC_small_c1.cfg"), ("adt", "OnceImpl", "OnceImpl_small.cfg"), ("adt", "PoolImpl", "PoolImpl_small.cfg"),
]


def main():
    flt = sys.argv[1] if len(sys.argv) > 1 else ""
    out = []
    for comp, mod, cfg in JOBS:
        if flt and flt not in comp + "/" + mod + "/" + cfg:
            continue
        if not os.path.exists(os.path.join(tlc.SPEC, comp, cfg)):
            out.append(dict(spec="%s/%s/%s" % (comp, mod, cfg), error="cfg not found"))
            print(out[-1]); continue
        files = {}
        if comp in ("chan",):
            for c2, f in (("queue", "QueueCore.tla"), ("deque", "DequeCore.tla")):
                files[f] = open(os.path.join(tlc.SPEC, c2, f)).read()
        r = tlc.run_tlc(comp, mod, cfg, workers=8, timeout=1500, heap="8g", coverage=True, files=files or None)
        never = sorted(a for a, (d, t) in r.coverage.items() if t == 0)
        row = dict(spec="%s/%s/%s" % (comp, mod, cfg), rc=r.rc, distinct=r.distinct, generated=r.generated, wall_s=round(r.wall, 1),
                   actions=len(r.coverage), never_taken=never, violated=r.violated)
        out.append(row)
        print(json.dumps(row), flush=True)
    json.dump(out, open(os.path.join(os.path.dirname(os.path.abspath(__file__)), "coverage_audit.json"), "w"), indent=1)


if __name__ == "__main__":
    main()
