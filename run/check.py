#!/usr/bin/env python3
"""Entry point of every MANIFEST command:  python3 run/check.py <ID> --tier quick|thorough
Exit 0: property held on everything explored.  Exit 1 + VIOLATION line: the real code
violated the property (reproduced).  Exit 2: infrastructure trouble, no verdict."""
import argparse, importlib, os, sys, traceback

sys.path.insert(0, os.path.dirname(os.path.abspath(__file__)))
from vlib import report, harness  # noqa: E402


def main():
    ap = argparse.ArgumentParser()
    ap.add_argument("prop")
    ap.add_argument("--tier", default=os.environ.get("VERIF_TIER", "quick"), choices=["quick", "thorough"])
    ap.add_argument("--replay", default=None, help="re-run one saved replay file")
    a = ap.parse_args()
    seed = int(os.environ.get("VERIF_SEED", "1") or 1)
    mod = importlib.import_module("props." + a.prop.lower())
    rep = report.Report(a.prop, a.tier, seed, level=getattr(mod, "LEVEL", "model_checking"))
    try:
        mod.run(rep, a.tier, seed, a.replay)
    except harness.InfraError as e:
        rep.infra_error(str(e))
    except SystemExit:
        raise
    except Exception:
        rep.infra_error("exception: " + traceback.format_exc()[-3000:])
    rep.finish()


if __name__ == "__main__":
    main()
