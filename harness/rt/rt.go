// Package rt is the runtime of the conformance harness: ndjson I/O, a global
// event sequence, gates for harness-supplied callbacks and for the guarded
// yield points in tychoish/fun, and the goroutine census / quiescence oracle
// (DESIGN.md sections 2.3b and 3.3).
package rt

import (
	"bufio"
	"encoding/json"
	"fmt"
	mrand "math/rand"
	"os"
	"regexp"
	"runtime"
	"sort"
	"strings"
	"sync"
	"sync/atomic"
	"time"
)

// ---------------------------------------------------------------- ndjson I/O

// ReadLines decodes one JSON value per stdin line and calls fn for each.
func ReadLines(fn func(n int, raw json.RawMessage)) {
	sc := bufio.NewScanner(os.Stdin)
	sc.Buffer(make([]byte, 1<<20), 1<<28)
	n := 0
	for sc.Scan() {
		b := sc.Bytes()
		if len(b) == 0 {
			continue
		}
		cp := make([]byte, len(b))
		copy(cp, b)
		fn(n, cp)
		n++
	}
}

var outMu sync.Mutex
var outW = bufio.NewWriterSize(os.Stdout, 1<<16)

// Emit writes one JSON object as a line on stdout.
func Emit(v any) {
	b, err := json.Marshal(v)
	if err != nil {
		panic(err)
	}
	outMu.Lock()
	outW.Write(b)
	outW.WriteByte('\n')
	outMu.Unlock()
}

// Flush flushes stdout.
func Flush() { outMu.Lock(); outW.Flush(); outMu.Unlock() }

// ---------------------------------------------------------------- recorder

// Event is one line of a recorded history (schema in DESIGN.md 2.3a).
type Event map[string]any

// Recorder collects events ordered by a global atomic sequence number.
type Recorder struct {
	seq atomic.Int64
	mu  sync.Mutex
	evs []Event
}

// Log appends an event, stamping it with the next sequence number.  The number
// is taken inside the lock so that slice order equals sequence order.
func (r *Recorder) Log(ev Event) int64 {
	r.mu.Lock()
	n := r.seq.Add(1)
	ev["seq"] = n
	r.evs = append(r.evs, ev)
	r.mu.Unlock()
	return n
}

// Events returns a copy of the events so far.
func (r *Recorder) Events() []Event {
	r.mu.Lock()
	defer r.mu.Unlock()
	out := make([]Event, len(r.evs))
	copy(out, r.evs)
	return out
}

// Reset drops all events.
func (r *Recorder) Reset() { r.mu.Lock(); r.evs = nil; r.seq.Store(0); r.mu.Unlock() }

// ---------------------------------------------------------------- gates

// Gates lets the driver hold goroutines at named points.  A goroutine calls
// Arrive(name); if the gate is armed it blocks (in a channel receive, i.e. a
// blocked state for the census) until Release(name).
type Gates struct {
	mu      sync.Mutex
	armed   map[string]bool
	waiting map[string][]chan struct{}
	arrived map[string]int
}

func NewGates() *Gates {
	return &Gates{armed: map[string]bool{}, waiting: map[string][]chan struct{}{}, arrived: map[string]int{}}
}

// Arm makes subsequent arrivals at name block.
func (g *Gates) Arm(name string) { g.mu.Lock(); g.armed[name] = true; g.mu.Unlock() }

// Disarm makes arrivals pass, and releases everybody waiting.
func (g *Gates) Disarm(name string) {
	g.mu.Lock()
	delete(g.armed, name)
	ws := g.waiting[name]
	delete(g.waiting, name)
	g.mu.Unlock()
	for _, c := range ws {
		close(c)
	}
}

// Arrive is called by the controlled goroutine.
func (g *Gates) Arrive(name string) {
	g.mu.Lock()
	g.arrived[name]++
	if !g.armed[name] {
		g.mu.Unlock()
		return
	}
	c := make(chan struct{})
	g.waiting[name] = append(g.waiting[name], c)
	g.mu.Unlock()
	<-c
}

// Waiting reports how many goroutines are held at name.
func (g *Gates) Waiting(name string) int {
	g.mu.Lock()
	defer g.mu.Unlock()
	return len(g.waiting[name])
}

// Arrived reports how many arrivals name has seen.
func (g *Gates) Arrived(name string) int { g.mu.Lock(); defer g.mu.Unlock(); return g.arrived[name] }

// ReleaseOne lets the oldest waiter at name continue (the gate stays armed).
func (g *Gates) ReleaseOne(name string) bool {
	g.mu.Lock()
	ws := g.waiting[name]
	if len(ws) == 0 {
		g.mu.Unlock()
		return false
	}
	c := ws[0]
	g.waiting[name] = ws[1:]
	g.mu.Unlock()
	close(c)
	return true
}

// ---------------------------------------------------------------- census / quiescence

// G is one goroutine of a stack snapshot.
type G struct {
	ID    int
	State string // "chan receive", "sync.Cond.Wait", "running", ...
	Stack string
	Fun   bool // has a github.com/tychoish/fun frame
}

var hdr = regexp.MustCompile(`^goroutine (\d+) \[([^\],]+)(?:, [^\]]*)?\]:`)

// Snapshot returns all goroutines (runtime.Stack(all) stops the world, so the
// picture is consistent).
func Snapshot() []G {
	buf := make([]byte, 1<<20)
	for {
		n := runtime.Stack(buf, true)
		if n < len(buf) {
			buf = buf[:n]
			break
		}
		buf = make([]byte, 2*len(buf))
	}
	var out []G
	for _, blk := range strings.Split(string(buf), "\n\n") {
		m := hdr.FindStringSubmatch(blk)
		if m == nil {
			continue
		}
		var id int
		fmt.Sscanf(m[1], "%d", &id)
		out = append(out, G{ID: id, State: m[2], Stack: blk,
			Fun: strings.Contains(blk, "github.com/tychoish/fun")})
	}
	return out
}

func active(state string) bool {
	switch state {
	case "running", "runnable", "syscall", "sleep", "preempted", "copystack", "GC assist marking", "GC assist wait":
		return true
	}
	return strings.HasPrefix(state, "GC ") || strings.HasPrefix(state, "timer")
}

// gcWait recognises a goroutine parked on a runtime-internal semaphore on behalf of the
// garbage collector (wait reason "semacquire" with runtime.gcStart / stop-the-world frames):
// an allocation that triggers a GC cycle waits for worldsema, which the stop-the-world of
// our own runtime.Stack(all) polling keeps taking - it is runnable work, not a blocked
// operation.  (sync.WaitGroup.Wait also shows "semacquire", and is genuinely blocked.)
func gcWait(g G) bool {
	if g.State != "semacquire" {
		return false
	}
	return strings.Contains(g.Stack, "runtime.gcStart") || strings.Contains(g.Stack, "runtime.stopTheWorld") ||
		strings.Contains(g.Stack, "runtime.GC(") || strings.Contains(g.Stack, "runtime.gcMarkDone") ||
		!strings.Contains(g.Stack, "sync.(*WaitGroup).Wait")
}

// ErrNotQuiescent is returned when the budget is exhausted.
var ErrNotQuiescent = fmt.Errorf("no quiescent snapshot within budget")

// Quiesce polls until two consecutive snapshots show no goroutine other than
// the caller in an active state and the same blocked set.  No verdict is ever
// derived from the time this takes; running out of budget is an error the
// caller must report as inconclusive.
func Quiesce() ([]G, error) { return QuiesceBudget(4000) }

func QuiesceBudget(polls int) ([]G, error) {
	self := curGID()
	var prev string
	for i := 0; i < polls; i++ {
		runtime.Gosched()
		snap := Snapshot()
		busy := false
		var sig []string
		for _, g := range snap {
			if g.ID == self {
				continue
			}
			if active(g.State) || gcWait(g) {
				busy = true
				break
			}
			sig = append(sig, fmt.Sprintf("%d:%s", g.ID, g.State))
		}
		if busy {
			prev = ""
			if i > 50 {
				time.Sleep(20 * time.Microsecond)
			}
			continue
		}
		sort.Strings(sig)
		s := strings.Join(sig, "|")
		if s == prev {
			return snap, nil
		}
		prev = s
	}
	return nil, ErrNotQuiescent
}

func curGID() int {
	var b [64]byte
	n := runtime.Stack(b[:], false)
	var id int
	fmt.Sscanf(string(b[:n]), "goroutine %d ", &id)
	return id
}

// FunGoroutines returns the goroutines of snap, other than the caller, that
// have a tychoish/fun frame and none of the excluded substrings (harness
// frames that merely call into the library are excluded by the caller).
func FunGoroutines(snap []G, exclude ...string) []G {
	self := curGID()
	var out []G
outer:
	for _, g := range snap {
		if g.ID == self || !g.Fun {
			continue
		}
		for _, x := range exclude {
			if strings.Contains(g.Stack, x) {
				continue outer
			}
		}
		out = append(out, g)
	}
	return out
}

// Frames returns the function names of a goroutine's stack, innermost first.
func (g G) Frames() []string {
	var out []string
	for _, l := range strings.Split(g.Stack, "\n")[1:] {
		if strings.HasPrefix(l, "\t") || l == "" {
			continue
		}
		if i := strings.LastIndex(l, "("); i > 0 {
			l = l[:i]
		}
		out = append(out, strings.TrimPrefix(l, "created by "))
	}
	return out
}

// ---------------------------------------------------------------- async operations

// Op is a driver-started public operation running in its own goroutine.
type Op struct {
	ID   int
	done atomic.Bool
	Res  any
	Pan  any
}

// Start runs fn in its own goroutine; a panic is captured, never propagated.
func Start(id int, fn func() any) *Op {
	o := &Op{ID: id}
	go func() {
		defer func() {
			if r := recover(); r != nil {
				o.Pan = r
				o.Res = fmt.Sprintf("panic:%v", r)
			}
			o.done.Store(true)
		}()
		o.Res = fn()
	}()
	return o
}

// Done reports whether the operation has returned.
func (o *Op) Done() bool { return o.done.Load() }

// ---------------------------------------------------------------- random numbers

// Rand is a math/rand generator that may be shared between goroutines (the recorders hand the
// generator of a driver thread to helper goroutines, e.g. the one that cancels a context after a
// random number of yields; *rand.Rand itself is not safe for that and can even panic).
type Rand struct {
	mu sync.Mutex
	r  *mrand.Rand
}

// NewRand returns a locked generator seeded with seed.
func NewRand(seed int64) *Rand { return &Rand{r: mrand.New(mrand.NewSource(seed))} }

func (r *Rand) Intn(n int) int { r.mu.Lock(); defer r.mu.Unlock(); return r.r.Intn(n) }
func (r *Rand) Int63() int64   { r.mu.Lock(); defer r.mu.Unlock(); return r.r.Int63() }
func (r *Rand) Perm(n int) []int {
	r.mu.Lock()
	defer r.mu.Unlock()
	return r.r.Perm(n)
}
