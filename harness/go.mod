module verif/harness

go 1.22

require github.com/tychoish/fun v0.0.0

replace github.com/tychoish/fun => /repo
